//go:build go1.21

package html

import "github.com/elliotchance/gedcom/v39"

// VerifResetSurnames empties the process-wide surname set. This file is not
// part of the repository: the E1 build adds it to package html through the
// overlay (guard "verif") so that every explored execution starts from the
// state of a fresh process.
func VerifResetSurnames() {
	surnames = gedcom.NewStringSet()
	surnamesDocument = nil
}
