module github.com/elliotchance/gedcom/v39/vsched

go 1.21
