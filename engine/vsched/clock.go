//go:build go1.21

package vsched

import (
	"fmt"
	"sort"
	"unsafe"
)

func (t *thread) clock(s *sched) []uint32 {
	for len(t.vc) <= t.id {
		t.vc = append(t.vc, 0)
	}
	if t.vc[t.id] == 0 {
		t.vc[t.id] = 1
	}
	return t.vc
}

func (t *thread) tick(s *sched) {
	t.clock(s)
	t.vc[t.id]++
}

func (t *thread) join(s *sched, other []uint32) {
	t.clock(s)
	for len(t.vc) < len(other) {
		t.vc = append(t.vc, 0)
	}
	for i, v := range other {
		if v > t.vc[i] {
			t.vc[i] = v
		}
	}
}

type epoch struct {
	tid  int
	clk  uint32
	site string
}

type shadowCell struct {
	w     epoch
	hasW  bool
	reads []epoch
}

func (t *thread) sees(s *sched, e epoch) bool {
	if e.tid == t.id {
		return true
	}
	vc := t.clock(s)
	return e.tid < len(vc) && vc[e.tid] >= e.clk
}

func (s *sched) race(varName, kind, a, b string) {
	if a > b {
		a, b = b, a
	}
	key := varName + "|" + a + "|" + b
	if s.raceSeen[key] {
		return
	}
	s.raceSeen[key] = true
	s.out.Races = append(s.out.Races, Race{Var: varName, SiteA: a, SiteB: b, Kind: kind})
}

func (s *sched) access(addr uintptr, write bool, site string) {
	if s.aborting {
		return
	}
	t := s.cur
	s.out.Accesses++
	c := s.shadow[addr]
	if c == nil {
		c = &shadowCell{}
		s.shadow[addr] = c
	}
	me := epoch{t.id, t.clock(s)[t.id], site}
	if c.hasW && !t.sees(s, c.w) {
		kind := "write-read"
		if write {
			kind = "write-write"
		}
		s.race(varOf(site), kind, c.w.site, site)
	}
	if write {
		for _, r := range c.reads {
			if !t.sees(s, r) {
				s.race(varOf(site), "read-write", r.site, site)
			}
		}
		c.w, c.hasW = me, true
		c.reads = c.reads[:0]
		return
	}
	for i := range c.reads {
		if c.reads[i].tid == t.id {
			c.reads[i] = me
			return
		}
	}
	c.reads = append(c.reads, me)
}

// site strings have the form "file.go:123 Type.field"
func varOf(site string) string {
	for i := 0; i < len(site); i++ {
		if site[i] == ' ' {
			return site[i+1:]
		}
	}
	return site
}

// escapeSink forces every instrumented variable onto the heap: stack addresses
// are reused between goroutines and move when a stack grows, so they cannot
// serve as identities in the shadow memory.
var escapeSink unsafe.Pointer
var escapeOn bool

// Rd records a read of *p and returns p.
func Rd[T any](p *T, site string) *T {
	if escapeOn {
		escapeSink = unsafe.Pointer(p)
	}
	if s := cur.Load(); s != nil {
		s.access(uintptr(unsafe.Pointer(p)), false, site)
	}
	return p
}

// Wr records a write of *p and returns p.
func Wr[T any](p *T, site string) *T {
	if escapeOn {
		escapeSink = unsafe.Pointer(p)
	}
	if s := cur.Load(); s != nil {
		s.access(uintptr(unsafe.Pointer(p)), true, site)
	}
	return p
}

// Append records the write that append(s, ...) makes into s's own array when it has room (the slot
// behind the last element; appends that have to grow copy into a fresh array and write nothing
// shared) and returns s. Two goroutines appending in place to views of one array write the same slot.
func Append[S ~[]T, T any](s S, site string) S {
	if cap(s) > len(s) {
		p := &s[:len(s)+1][len(s)]
		if escapeOn {
			escapeSink = unsafe.Pointer(p)
		}
		if st := cur.Load(); st != nil {
			st.access(uintptr(unsafe.Pointer(p)), true, site)
		}
	}
	return s
}

// RdMap / WrMap record an access to a map object (map granularity, like Go's
// race detector) and return the map.
func RdMap[M any](m M, site string) M {
	if s := cur.Load(); s != nil {
		if a := mapAddr(m); a != 0 {
			s.access(a, false, site)
		}
	}
	return m
}

func WrMap[M any](m M, site string) M {
	if s := cur.Load(); s != nil {
		if a := mapAddr(m); a != 0 {
			s.access(a, true, site)
		}
	}
	return m
}

func mapAddr(m interface{}) uintptr {
	// a map value is a pointer to its header
	type iface struct{ typ, data unsafe.Pointer }
	return uintptr((*iface)(unsafe.Pointer(&m)).data)
}

// Describe renders a race for reports.
func (r Race) String() string {
	return fmt.Sprintf("data race (%s) on %s: %s vs %s", r.Kind, r.Var, r.SiteA, r.SiteB)
}

// Keys returns the keys of a map. Under exploration they are sorted (by their
// printed form; pointer keys that are GEDCOM nodes by their GEDCOM line), or
// reverse sorted with MapOrderReverse, so that map iteration is a configuration
// instead of a source of nondeterminism. With no execution in progress the
// order is Go's own.
func Keys[M ~map[K]V, K comparable, V any](m M) []K {
	keys := make([]K, 0, len(m))
	for k := range m {
		keys = append(keys, k)
	}
	s := cur.Load()
	if s == nil {
		return keys
	}
	desc := make(map[K]string, len(keys))
	for _, k := range keys {
		var i interface{} = k
		if g, ok := i.(interface{ GEDCOMLine(int) string }); ok {
			desc[k] = g.GEDCOMLine(0)
		} else {
			desc[k] = fmt.Sprint(i)
		}
	}
	sort.SliceStable(keys, func(a, b int) bool { return desc[keys[a]] < desc[keys[b]] })
	if s.mapOrderReverse {
		for a, b := 0, len(keys)-1; a < b; a, b = a+1, b-1 {
			keys[a], keys[b] = keys[b], keys[a]
		}
	}
	return keys
}
