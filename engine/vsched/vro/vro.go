//go:build go1.21

// Package vro stands in for "sync" in rewritten files (import sync ".../vsched/vro").
package vro

import (
	stdsync "sync"

	"github.com/elliotchance/gedcom/v39/vsched"
)

type (
	Mutex     = vsched.Mutex
	RWMutex   = vsched.RWMutex
	WaitGroup = vsched.WaitGroup
	Once      = vsched.Once
	Map       = vsched.ROMap
	Locker    = stdsync.Locker
	Pool      = stdsync.Pool
)
