//go:build go1.21

// Package vsched is a cooperative scheduler, schedule recorder and
// happens-before race monitor for instrumented gedcom code. It is overlaid
// into the repository module at check time (nothing is committed to /repo).
//
// Exactly one instrumented thread runs at a time. Every hooked synchronisation
// operation is a scheduling point: the thread publishes its pending operation
// and the scheduler decides who runs next (replaying a recorded prefix of
// choices, then always choice 0 = the default scheduler).
//
// With no execution in progress every hook is a pass-through, so the same
// instrumented code also runs normally (the repository's own tests pass under
// the overlay).
package vsched

import (
	"fmt"
	"reflect"
	"runtime"
	"runtime/debug"
	"sort"
	"strings"
	"sync"
	"sync/atomic"
)

type opKind int

const (
	opStart opKind = iota
	opSend
	opRecv
	opClose
	opSelect
	opLock
	opSync // non-blocking visible operation (unlock, wg add/done, map op, spawn)
	opWait
	opSleep
	opResume // second half of a rendezvous
)

var kindName = [...]string{"start", "send", "recv", "close", "select", "lock", "sync", "wait", "sleep", "resume"}

type selCase struct {
	ch   interface{}
	send bool
}

type op struct {
	kind  opKind
	obj   interface{} // channel / *MutexState / *WGState / map state
	cases []selCase
	hasDefault bool
	what  string
}

type thread struct {
	id      int
	wake    chan int // value: 0 = go on, 1 = abort
	pending op
	started bool
	done    bool
	vc      []uint32
	sleptAt int64 // progress counter when it last yielded in Sleep
	spinning bool // it slept twice with no progress by anybody in between: a no-op poll iteration
	lastSleepProgress int64
	selChoice int
	rendezvous bool // must park in After hook
	panicVal interface{}
	panicStack string
}

// Point is one scheduling decision.
type Point struct {
	Enabled []int // thread ids, canonical order (running thread first if enabled, then ascending); for select points: case indices encoded as -(i+1) are appended per ready case of the chosen thread
	Chosen  int   // index into Enabled
	Running int   // thread that was running (-1 at start)
	RunningEnabled bool
	Desc    string
}

// Outcome of one execution.
type Outcome struct {
	Points    []Point
	Choices   []int
	Deadlock  bool
	Livelock  bool
	Horizon   bool
	DriverPanic string
	ThreadPanics []string
	Leaked    []string
	Races     []Race
	Steps     int
	Threads   int
	Accesses  int64
	TraceHash uint64
	Diverged  string // non-empty: replay of the prefix hit an out-of-range choice (hard error)
}

type Race struct {
	Var   string
	SiteA string
	SiteB string
	Kind  string // write-write, write-read, read-write
}

type sched struct {
	mu       sync.Mutex
	threads  []*thread
	cur      *thread
	prefix   []int
	out      *Outcome
	finished chan struct{}
	visible  int64
	horizon  int
	base     string // default scheduler order: "low", "high", "rr"
	chans    map[uintptr]*chanState
	shadow   map[uintptr]*shadowCell
	raceSeen map[string]bool
	aborting bool
	liveGoroutines int32
	exited   chan struct{}
	mapOrderReverse bool
	capScale int
	fullMaps bool
	trace    uint64
	lastRR   int
}

var cur atomic.Pointer[sched]

// Active reports whether an exploration execution is in progress.
func Active() bool { return cur.Load() != nil }

type abortSentinel struct{}

// Config of one execution.
type Config struct {
	Prefix          []int
	Base            string // "low" (default), "high", "rr"
	Horizon         int
	MapOrderReverse bool
	CapScale        int  // 0 = real capacities; n>0: literal capacities >=2 become n
	FullMaps        bool // quiet maps (nodeCache, pointerCache) are scheduling points too
}

// Run executes body as thread 0 under the scheduler.
func Run(cfg Config, body func()) *Outcome {
	s := &sched{prefix: cfg.Prefix, out: &Outcome{}, finished: make(chan struct{}), horizon: cfg.Horizon, base: cfg.Base,
		chans: map[uintptr]*chanState{}, shadow: map[uintptr]*shadowCell{}, raceSeen: map[string]bool{}, exited: make(chan struct{}, 1024),
		mapOrderReverse: cfg.MapOrderReverse, capScale: cfg.CapScale, fullMaps: cfg.FullMaps}
	if s.horizon == 0 {
		s.horizon = 200000
	}
	if s.base == "" {
		s.base = "low"
	}
	old := debug.SetGCPercent(-1)
	defer debug.SetGCPercent(old)
	if !cur.CompareAndSwap(nil, s) {
		panic("vsched: nested Run")
	}
	t0 := s.newThread()
	t0.started = true
	s.cur = t0
	atomic.AddInt32(&s.liveGoroutines, 1)
	go func() {
		defer s.threadExit(t0)
		<-t0.wake
		body()
	}()
	t0.wake <- 0
	<-s.finished
	// abort whatever is still parked so that goroutines do not pile up
	s.mu.Lock()
	s.aborting = true
	var parked []*thread
	for _, t := range s.threads {
		if !t.done {
			parked = append(parked, t)
			if t.started {
				s.out.Leaked = append(s.out.Leaked, fmt.Sprintf("T%d parked on %s", t.id, t.pending.what))
			} else {
				s.out.Leaked = append(s.out.Leaked, fmt.Sprintf("T%d never started", t.id))
			}
		}
	}
	s.mu.Unlock()
	for _, t := range parked {
		t.wake <- 1
	}
	for atomic.LoadInt32(&s.liveGoroutines) > 0 {
		<-s.exited
	}
	s.out.Choices = make([]int, len(s.out.Points))
	for i, p := range s.out.Points {
		s.out.Choices[i] = p.Chosen
	}
	s.out.Threads = len(s.threads)
	s.out.TraceHash = s.trace
	cur.Store(nil)
	return s.out
}

func (s *sched) newThread() *thread {
	t := &thread{id: len(s.threads), wake: make(chan int, 1)}
	t.pending = op{kind: opStart, what: "start"}
	s.threads = append(s.threads, t)
	return t
}

func (s *sched) threadExit(t *thread) {
	r := recover()
	if _, ok := r.(abortSentinel); ok {
		r = nil
	}
	if s.aborting {
		t.done = true
		atomic.AddInt32(&s.liveGoroutines, -1)
		s.exited <- struct{}{}
		return
	}
	if r != nil {
		msg := fmt.Sprintf("T%d panic: %v\n%s", t.id, r, trimStack(string(debug.Stack())))
		if t.id == 0 {
			s.out.DriverPanic = msg
		} else {
			s.out.ThreadPanics = append(s.out.ThreadPanics, msg)
		}
	}
	t.done = true
	s.note("exit", t.id, 0)
	// thread end synchronises with nothing by itself
	atomic.AddInt32(&s.liveGoroutines, -1)
	s.exited <- struct{}{}
	s.dispatch(nil)
}

func trimStack(st string) string {
	lines := strings.Split(st, "\n")
	var keep []string
	for i := 0; i < len(lines); i++ {
		if strings.Contains(lines[i], "elliotchance/gedcom") && !strings.Contains(lines[i], "/vsched") {
			keep = append(keep, strings.TrimSpace(lines[i]))
			if len(keep) >= 6 {
				break
			}
		}
	}
	return strings.Join(keep, " <- ")
}

func (s *sched) note(what string, a int, b uint64) {
	// rolling hash of the global operation trace (for distinct-state counting)
	h := s.trace
	for i := 0; i < len(what); i++ {
		h = (h ^ uint64(what[i])) * 1099511628211
	}
	h = (h ^ uint64(a+1)) * 1099511628211
	h = (h ^ b) * 1099511628211
	s.trace = h
}

// point is called by the running thread before a hooked operation.
// It returns 0 when the thread was scheduled normally and 2 when it was
// released as the second party of a rendezvous (it then does not hold the
// baton and must park in the After hook of its operation).
func (s *sched) point(o op) int {
	t := s.cur
	if s.aborting {
		panic(abortSentinel{})
	}
	t.pending = o
	return s.dispatch(t)
}

// dispatch picks the next thread. from is the thread giving up the baton (nil
// when it has exited).
func (s *sched) dispatch(from *thread) int {
	s.out.Steps++
	if s.out.Steps > s.horizon {
		s.out.Horizon = true
		s.finish()
		if from != nil {
			s.parkForever(from)
		}
		return 0
	}
	enabled := s.enabledThreads(from)
	if len(enabled) == 0 {
		// terminal: all done, or deadlock, or only sleepers
		drv := s.threads[0]
		anySleeper := false
		for _, t := range s.threads {
			if !t.done && t.started && t.pending.kind == opSleep && t.spinning {
				anySleeper = true
			}
		}
		if anySleeper {
			s.out.Livelock = true
		} else if !drv.done {
			s.out.Deadlock = true
		}
		s.finish()
		if from != nil {
			s.parkForever(from)
		}
		return 0
	}
	choice := 0
	idx := len(s.out.Points)
	if idx < len(s.prefix) {
		choice = s.prefix[idx]
		if choice < 0 || choice >= len(enabled) {
			s.out.Diverged = fmt.Sprintf("point %d: recorded choice %d but only %d alternatives", idx, choice, len(enabled))
			s.finish()
			if from != nil {
				s.parkForever(from)
			}
			return 0
		}
	}
	p := Point{Enabled: enabled, Chosen: choice, Running: -1}
	if from != nil {
		p.Running = from.id
		p.RunningEnabled = len(enabled) > 0 && s.isEnabledThread(from)
	}
	next, selCase := s.decode(enabled[choice])
	p.Desc = fmt.Sprintf("T%d:%s", next.id, next.pending.what)
	s.out.Points = append(s.out.Points, p)
	s.note(kindName[next.pending.kind], next.id, uint64(selCase+1))
	next.selChoice = selCase
	// progress: anything but a sleep or a select falling through to its default arm
	if next.pending.kind != opSleep && !(next.pending.kind == opSelect && selCase == len(next.pending.cases)) {
		s.visible++
	}
	s.lastRR = next.id
	s.cur = next
	if next == from {
		return 0
	}
	if !next.started {
		next.started = true
	}
	next.wake <- 0
	if from != nil {
		v := <-from.wake
		if v == 1 {
			panic(abortSentinel{})
		}
		return v
	}
	return 0
}

func (s *sched) parkForever(t *thread) {
	if v := <-t.wake; v == 1 {
		panic(abortSentinel{})
	}
}

func (s *sched) finish() {
	select {
	case <-s.finished:
	default:
		close(s.finished)
	}
}

// encoding of alternatives: thread id t with select case c is t*64 + c + 1; plain thread is t*64.
func (s *sched) decode(code int) (*thread, int) {
	return s.threads[code/64], code%64 - 1
}

func (s *sched) isEnabledThread(t *thread) bool {
	if t.done {
		return false
	}
	ok, _ := s.opEnabled(t)
	return ok
}

// enabledThreads in canonical order.
func (s *sched) enabledThreads(from *thread) []int {
	var ids []int
	for _, t := range s.threads {
		if t.done {
			continue
		}
		if ok, _ := s.opEnabled(t); ok {
			ids = append(ids, t.id)
		}
	}
	// order by base scheduler
	switch s.base {
	case "high":
		sort.Sort(sort.Reverse(sort.IntSlice(ids)))
	case "rr":
		// round robin: start after the last scheduled thread
		sort.Slice(ids, func(i, j int) bool {
			a, b := (ids[i]-s.lastRR-1+1024)%1024, (ids[j]-s.lastRR-1+1024)%1024
			return a < b
		})
	}
	if s.base != "rr" && from != nil && !from.done {
		// running thread first if enabled
		for i, id := range ids {
			if id == from.id {
				copy(ids[1:i+1], ids[:i])
				ids[0] = from.id
				break
			}
		}
	}
	var out []int
	for _, id := range ids {
		t := s.threads[id]
		_, cases := s.opEnabled(t)
		if t.pending.kind == opSelect && len(cases) > 0 {
			for _, c := range cases {
				out = append(out, id*64+c+1)
			}
		} else {
			out = append(out, id*64)
		}
	}
	return out
}

// opEnabled reports whether t's pending operation can complete now; for a
// select it also returns the ready case indices (or -1 for default, encoded as
// case index len(cases)).
func (s *sched) opEnabled(t *thread) (bool, []int) {
	o := &t.pending
	switch o.kind {
	case opStart, opSync, opClose, opResume:
		return true, nil
	case opSleep:
		// a sleep is a yield. A thread that slept, polled and sleeps again with no
		// progress by anybody in between (itself included) performed a
		// state-preserving iteration; it is re-enabled only after progress.
		return !t.spinning || s.visible > t.sleptAt, nil
	case opSend:
		return s.sendReady(o.obj, t), nil
	case opRecv:
		return s.recvReady(o.obj, t), nil
	case opSelect:
		var ready []int
		for i, c := range o.cases {
			if isNilChan(c.ch) {
				continue
			}
			if c.send && s.sendReady(c.ch, t) || !c.send && s.recvReady(c.ch, t) {
				ready = append(ready, i)
			}
		}
		if len(ready) == 0 && o.hasDefault {
			ready = []int{len(o.cases)}
		}
		return len(ready) > 0, ready
	case opLock:
		return o.obj.(*MutexState).holder == 0, nil
	case opWait:
		return o.obj.(*WGState).n <= 0, nil
	}
	return false, nil
}

func isNilChan(c interface{}) bool {
	if c == nil {
		return true
	}
	v := reflect.ValueOf(c)
	return v.Kind() == reflect.Chan && v.IsNil()
}

// ---- hooks used by rewritten code ----

// Go spawns an instrumented thread.
func Go(f func()) {
	s := cur.Load()
	if s == nil {
		go f()
		return
	}
	if s.aborting {
		panic(abortSentinel{})
	}
	parent := s.cur
	t := s.newThread()
	t.vc = append([]uint32{}, parent.clock(s)...)
	for len(t.vc) <= t.id {
		t.vc = append(t.vc, 0)
	}
	parent.tick(s)
	atomic.AddInt32(&s.liveGoroutines, 1)
	go func() {
		defer s.threadExit(t)
		if v := <-t.wake; v == 1 {
			panic(abortSentinel{})
		}
		f()
	}()
	s.point(op{kind: opSync, what: fmt.Sprintf("spawn T%d", t.id)})
}

// Sleep is a yield: the sleeper is disabled until another thread performs a
// visible operation.
func Sleep(d interface{}) {
	s := cur.Load()
	if s == nil {
		return
	}
	t := s.cur
	t.spinning = t.lastSleepProgress == s.visible+1
	t.lastSleepProgress = s.visible + 1
	t.sleptAt = s.visible
	s.point(op{kind: opSleep, what: "sleep"})
}

// FS is a scheduling point before an operation on the file system (os.Create, os.Rename, (*os.File).Close
// ...): the file system is state shared by all threads and its operations are visible operations. The value
// (the call's first argument or its receiver) is passed through.
func FS[T any](v T, what string) T {
	if s := cur.Load(); s != nil {
		s.point(op{kind: opSync, what: what})
	}
	return v
}

// Cap scales a literal channel capacity.
func Cap(n int) int {
	s := cur.Load()
	if s == nil || s.capScale == 0 {
		return n
	}
	return s.capScale
}

// NumGoroutine helps harness code assert that nothing is left running.
func NumGoroutine() int { return runtime.NumGoroutine() }
