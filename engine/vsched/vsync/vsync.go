//go:build go1.21

// Package vsync stands in for "sync" in rewritten files (import sync ".../vsched/vsync").
package vsync

import (
	stdsync "sync"

	"github.com/elliotchance/gedcom/v39/vsched"
)

type (
	Mutex     = vsched.Mutex
	RWMutex   = vsched.RWMutex
	WaitGroup = vsched.WaitGroup
	Once      = vsched.Once
	Map       = vsched.Map
	Locker    = stdsync.Locker
	Pool      = stdsync.Pool
)
