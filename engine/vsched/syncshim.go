//go:build go1.21

package vsched

import (
	"fmt"
	"reflect"
	"sort"
	"sync"
)

// ---- Mutex ----

type MutexState struct {
	holder int // thread id + 1, 0 = free
	vc     []uint32
}

type Mutex struct {
	real sync.Mutex
	st   *MutexState
	exec *sched
}

func (m *Mutex) state(s *sched) *MutexState {
	if m.exec != s || m.st == nil {
		m.exec, m.st = s, &MutexState{}
	}
	return m.st
}

func (m *Mutex) Lock() {
	s := cur.Load()
	if s == nil {
		m.real.Lock()
		return
	}
	st := m.state(s)
	s.point(op{kind: opLock, obj: st, what: "lock"})
	st.holder = s.cur.id + 1
	s.cur.join(s, st.vc)
}

func (m *Mutex) Unlock() {
	s := cur.Load()
	if s == nil {
		m.real.Unlock()
		return
	}
	st := m.state(s)
	if st.holder == 0 {
		panic("sync: unlock of unlocked mutex")
	}
	s.point(op{kind: opSync, what: "unlock"})
	st.vc = append(st.vc[:0], s.cur.clock(s)...)
	s.cur.tick(s)
	st.holder = 0
}

func (m *Mutex) TryLock() bool {
	s := cur.Load()
	if s == nil {
		return m.real.TryLock()
	}
	st := m.state(s)
	s.point(op{kind: opSync, what: "trylock"})
	if st.holder != 0 {
		return false
	}
	st.holder = s.cur.id + 1
	s.cur.join(s, st.vc)
	return true
}

// RWMutex is modelled as a plain mutex (readers exclude each other too: fewer
// behaviours, never more; the repository does not use RWMutex today).
type RWMutex struct{ Mutex }

func (m *RWMutex) RLock()   { m.Lock() }
func (m *RWMutex) RUnlock() { m.Unlock() }

// ---- WaitGroup ----

type WGState struct {
	n  int
	vc []uint32
}

type WaitGroup struct {
	real sync.WaitGroup
	st   *WGState
	exec *sched
}

func (w *WaitGroup) state(s *sched) *WGState {
	if w.exec != s || w.st == nil {
		w.exec, w.st = s, &WGState{}
	}
	return w.st
}

func (w *WaitGroup) Add(n int) {
	s := cur.Load()
	if s == nil {
		w.real.Add(n)
		return
	}
	st := w.state(s)
	s.point(op{kind: opSync, what: "wg.add"})
	if n < 0 {
		// Done: release
		t := s.cur
		for len(st.vc) < len(t.clock(s)) {
			st.vc = append(st.vc, 0)
		}
		for i, v := range t.clock(s) {
			if v > st.vc[i] {
				st.vc[i] = v
			}
		}
		t.tick(s)
	}
	st.n += n
	if st.n < 0 {
		panic("sync: negative WaitGroup counter")
	}
}

func (w *WaitGroup) Done() { w.Add(-1) }

func (w *WaitGroup) Wait() {
	s := cur.Load()
	if s == nil {
		w.real.Wait()
		return
	}
	st := w.state(s)
	s.point(op{kind: opWait, obj: st, what: "wg.wait"})
	s.cur.join(s, st.vc)
}

// ---- Once ----

type Once struct {
	real sync.Once
	done bool
	m    Mutex
	vc   []uint32
}

func (o *Once) Do(f func()) {
	s := cur.Load()
	if s == nil {
		o.real.Do(f)
		return
	}
	o.m.Lock()
	defer o.m.Unlock()
	if !o.done {
		f()
		o.done = true
	}
}

// ---- Map ----

type mapMeta struct {
	exec   *sched
	keyVC  map[interface{}][]uint32
	order  map[interface{}]int
	seq    int
	allVC  []uint32
	stored map[interface{}]interface{} // quiet maps: first value stored under a key in this execution
}

type mapMode int

const (
	modeNormal mapMode = iota // every operation is a scheduling point
	modeCache                 // value-transparent cache: not a point unless FullMaps; stores under one key must carry equal values
	modeRO                    // read-only while several threads are alive: not a point unless FullMaps
)

type baseMap struct {
	real sync.Map
	meta *mapMeta
}

func (m *baseMap) metaFor(s *sched) *mapMeta {
	if m.meta == nil || m.meta.exec != s {
		m.meta = &mapMeta{exec: s, keyVC: map[interface{}][]uint32{}, order: map[interface{}]int{}, stored: map[interface{}]interface{}{}}
	}
	return m.meta
}

// QuietViolations collects broken side conditions of quiet maps (process-wide; read by the harness).
var QuietViolations []string
var quietMu sync.Mutex

func quietViolation(msg string) {
	quietMu.Lock()
	if len(QuietViolations) < 20 {
		QuietViolations = append(QuietViolations, msg)
	}
	quietMu.Unlock()
}

func (s *sched) liveThreads() int {
	n := 0
	for _, t := range s.threads {
		if !t.done {
			n++
		}
	}
	return n
}

func (m *baseMap) before(s *sched, mode mapMode, what string) {
	if mode == modeNormal || s.fullMaps {
		s.point(op{kind: opSync, what: what})
	} else if s.aborting {
		panic(abortSentinel{})
	}
}

func hashable(k interface{}) bool {
	if k == nil {
		return true
	}
	return reflect.TypeOf(k).Comparable()
}

func (m *baseMap) load(mode mapMode, key interface{}) (interface{}, bool) {
	s := cur.Load()
	if s == nil {
		return m.real.Load(key)
	}
	m.before(s, mode, "map.load")
	v, ok := m.real.Load(key)
	if ok {
		meta := m.metaFor(s)
		if vc, has := meta.keyVC[key]; has {
			s.cur.join(s, vc)
		}
	}
	return v, ok
}

func (m *baseMap) store(mode mapMode, key, value interface{}) {
	s := cur.Load()
	if s == nil {
		m.real.Store(key, value)
		return
	}
	m.before(s, mode, "map.store")
	meta := m.metaFor(s)
	if mode != modeNormal && !s.fullMaps && s.liveThreads() > 1 {
		if mode == modeRO {
			quietViolation(fmt.Sprintf("store into a read-only-quiet map while %d threads are alive (key %v)", s.liveThreads(), key))
		} else if old, had := meta.stored[key]; had && !cacheEqual(old, value) {
			quietViolation(fmt.Sprintf("cache-quiet map received two different values under one key (%v)", key))
		}
	}
	if mode == modeCache {
		meta.stored[key] = value
	}
	if _, has := meta.order[key]; !has {
		meta.order[key] = meta.seq
		meta.seq++
	}
	meta.keyVC[key] = append([]uint32{}, s.cur.clock(s)...)
	meta.allVC = joinVC(meta.allVC, s.cur.clock(s))
	s.cur.tick(s)
	m.real.Store(key, value)
}

func joinVC(a, b []uint32) []uint32 {
	for len(a) < len(b) {
		a = append(a, 0)
	}
	for i, v := range b {
		if v > a[i] {
			a[i] = v
		}
	}
	return a
}

// cacheEqual: two cached values are interchangeable (same elements by identity for slices, == otherwise).
func cacheEqual(a, b interface{}) bool {
	va, vb := reflect.ValueOf(a), reflect.ValueOf(b)
	if va.IsValid() != vb.IsValid() {
		return false
	}
	if !va.IsValid() {
		return true
	}
	if va.Type() != vb.Type() {
		return false
	}
	if va.Kind() == reflect.Slice {
		if va.Len() != vb.Len() {
			return false
		}
		for i := 0; i < va.Len(); i++ {
			x, y := va.Index(i).Interface(), vb.Index(i).Interface()
			if x != y {
				return false
			}
		}
		return true
	}
	if va.Kind() == reflect.Ptr {
		// inner maps of the cache: a fresh empty map per node is interchangeable
		return true
	}
	return va.Type().Comparable() && a == b
}

func (m *baseMap) loadOrStore(mode mapMode, key, value interface{}) (interface{}, bool) {
	s := cur.Load()
	if s == nil {
		return m.real.LoadOrStore(key, value)
	}
	m.before(s, mode, "map.loadorstore")
	v, loaded := m.real.LoadOrStore(key, value)
	meta := m.metaFor(s)
	if loaded {
		if vc, has := meta.keyVC[key]; has {
			s.cur.join(s, vc)
		}
	} else {
		if _, has := meta.order[key]; !has {
			meta.order[key] = meta.seq
			meta.seq++
		}
		meta.keyVC[key] = append([]uint32{}, s.cur.clock(s)...)
		meta.allVC = joinVC(meta.allVC, s.cur.clock(s))
		s.cur.tick(s)
	}
	return v, loaded
}

func (m *baseMap) delete(mode mapMode, key interface{}) {
	s := cur.Load()
	if s == nil {
		m.real.Delete(key)
		return
	}
	m.before(s, mode, "map.delete")
	meta := m.metaFor(s)
	if mode == modeRO && !s.fullMaps && s.liveThreads() > 1 {
		quietViolation("delete from a read-only-quiet map while several threads are alive")
	}
	meta.keyVC[key] = append([]uint32{}, s.cur.clock(s)...)
	meta.allVC = joinVC(meta.allVC, s.cur.clock(s))
	s.cur.tick(s)
	m.real.Delete(key)
}

func (m *baseMap) rangeFn(mode mapMode, f func(key, value interface{}) bool) {
	s := cur.Load()
	if s == nil {
		m.real.Range(f)
		return
	}
	m.before(s, mode, "map.range")
	meta := m.metaFor(s)
	s.cur.join(s, meta.allVC)
	type kv struct {
		k, v interface{}
		ord  int
	}
	var all []kv
	m.real.Range(func(k, v interface{}) bool {
		ord, has := meta.order[k]
		if !has {
			// stored before this execution began: order by printed key (deterministic)
			ord = -1
		}
		all = append(all, kv{k, v, ord})
		return true
	})
	sort.SliceStable(all, func(i, j int) bool {
		if all[i].ord != all[j].ord {
			return all[i].ord < all[j].ord
		}
		return fmt.Sprint(all[i].k) < fmt.Sprint(all[j].k)
	})
	if s.mapOrderReverse {
		for i, j := 0, len(all)-1; i < j; i, j = i+1, j-1 {
			all[i], all[j] = all[j], all[i]
		}
	}
	for _, e := range all {
		if !f(e.k, e.v) {
			break
		}
	}
}

// Map: every operation is a scheduling point.
type Map struct{ b baseMap }

func (m *Map) Load(key interface{}) (interface{}, bool) { return m.b.load(modeNormal, key) }
func (m *Map) Store(key, value interface{})              { m.b.store(modeNormal, key, value) }
func (m *Map) LoadOrStore(key, value interface{}) (interface{}, bool) {
	return m.b.loadOrStore(modeNormal, key, value)
}
func (m *Map) Delete(key interface{})                        { m.b.delete(modeNormal, key) }
func (m *Map) Range(f func(key, value interface{}) bool)     { m.b.rangeFn(modeNormal, f) }

// CacheMap: value-transparent cache (nodeCache).
type CacheMap struct{ b baseMap }

func (m *CacheMap) Load(key interface{}) (interface{}, bool) { return m.b.load(modeCache, key) }
func (m *CacheMap) Store(key, value interface{})              { m.b.store(modeCache, key, value) }
func (m *CacheMap) LoadOrStore(key, value interface{}) (interface{}, bool) {
	return m.b.loadOrStore(modeCache, key, value)
}
func (m *CacheMap) Delete(key interface{})                    { m.b.delete(modeCache, key) }
func (m *CacheMap) Range(f func(key, value interface{}) bool) { m.b.rangeFn(modeCache, f) }

// ROMap: read-only while several threads are alive (Document.pointerCache).
type ROMap struct{ b baseMap }

func (m *ROMap) Load(key interface{}) (interface{}, bool) { return m.b.load(modeRO, key) }
func (m *ROMap) Store(key, value interface{})              { m.b.store(modeRO, key, value) }
func (m *ROMap) LoadOrStore(key, value interface{}) (interface{}, bool) {
	return m.b.loadOrStore(modeRO, key, value)
}
func (m *ROMap) Delete(key interface{})                    { m.b.delete(modeRO, key) }
func (m *ROMap) Range(f func(key, value interface{}) bool) { m.b.rangeFn(modeRO, f) }
