//go:build go1.21

package vsched

import "time"

// Dev is one deviation from the default scheduler: at scheduling point Pos
// take alternative Alt (>= 1).
type Dev struct{ Pos, Alt int }

// ExploreOpts bounds one exploration.
type ExploreOpts struct {
	Bound     int    // maximum total cost of deviations
	Cost      string // "delay" (every non-default choice costs 1) or "preempt" (only switching away from an enabled running thread costs)
	Shard     int    // this worker explores the subtrees of the level-1 nodes with index % Shards == Shard
	Shards    int
	Deadline  time.Time
	MaxExec   int64
}

// ExploreStats is what an exploration covered.
type ExploreStats struct {
	Executions     int64
	ByCost         []int64 // executions per total cost
	BoundCompleted int     // largest bound whose level was explored completely (-1 = none)
	Capped         bool
	MaxPoints      int
	MaxThreads     int
	Transitions    int64 // scheduling steps taken over all executions
}

// PrefixOf turns a deviation list into the choice prefix to replay.
func PrefixOf(devs []Dev) []int {
	if len(devs) == 0 {
		return nil
	}
	p := make([]int, devs[len(devs)-1].Pos+1)
	for _, d := range devs {
		p[d.Pos] = d.Alt
	}
	return p
}

// Explore enumerates, level by level (cost 0, 1, 2, ...), every schedule whose
// deviations from the default scheduler cost at most opts.Bound. run executes
// one schedule; visit judges it (return false to stop the exploration).
func Explore(opts ExploreOpts, run func(devs []Dev) *Outcome, visit func(devs []Dev, out *Outcome) bool) ExploreStats {
	st := ExploreStats{BoundCompleted: -1, ByCost: make([]int64, opts.Bound+1)}
	if opts.Shards <= 0 {
		opts.Shards = 1
	}
	type node struct {
		devs []Dev
		cost int
	}
	level := []node{{nil, 0}}
	for cost := 0; cost <= opts.Bound; cost++ {
		var next []node
		for li := 0; li < len(level); li++ {
			n := level[li]
			if (!opts.Deadline.IsZero() && time.Now().After(opts.Deadline)) || (opts.MaxExec > 0 && st.Executions >= opts.MaxExec) {
				st.Capped = true
				return st
			}
			isRoot := len(n.devs) == 0
			out := run(n.devs)
			// the root is executed by every shard (to enumerate its children) but counted and judged by shard 0 only
			if !isRoot || opts.Shard == 0 {
				st.Executions++
				st.ByCost[n.cost]++
				st.Transitions += int64(len(out.Points))
				if len(out.Points) > st.MaxPoints {
					st.MaxPoints = len(out.Points)
				}
				if out.Threads > st.MaxThreads {
					st.MaxThreads = out.Threads
				}
				if !visit(n.devs, out) {
					st.Capped = true
					return st
				}
			}
			if out.Diverged != "" {
				continue
			}
			first := 0
			if len(n.devs) > 0 {
				first = n.devs[len(n.devs)-1].Pos + 1
			}
			childIdx := 0
			for i := first; i < len(out.Points); i++ {
				p := out.Points[i]
				for alt := 1; alt < len(p.Enabled); alt++ {
					c := n.cost + 1
					if opts.Cost == "preempt" && !p.RunningEnabled {
						c = n.cost
					}
					if c > opts.Bound {
						continue
					}
					if isRoot {
						mine := childIdx%opts.Shards == opts.Shard
						childIdx++
						if !mine {
							continue
						}
					}
					d := append(append([]Dev{}, n.devs...), Dev{i, alt})
					if c == n.cost {
						// zero-cost alternative (preemption bounding): same level
						level = append(level, node{d, c})
					} else {
						next = append(next, node{d, c})
					}
				}
			}
		}
		st.BoundCompleted = cost
		level = next
	}
	return st
}
