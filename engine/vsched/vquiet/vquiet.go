//go:build go1.21

// Package vquiet stands in for "sync" in rewritten files (import sync ".../vsched/vquiet").
package vquiet

import (
	stdsync "sync"

	"github.com/elliotchance/gedcom/v39/vsched"
)

type (
	Mutex     = vsched.Mutex
	RWMutex   = vsched.RWMutex
	WaitGroup = vsched.WaitGroup
	Once      = vsched.Once
	Map       = vsched.CacheMap
	Locker    = stdsync.Locker
	Pool      = stdsync.Pool
)
