//go:build go1.21

package vsched

import (
	"fmt"
	"reflect"
)

type chanState struct {
	ref     interface{} // keeps the channel alive so that its address is not reused within an execution
	closed  bool
	closeVC []uint32
	sendVCs [][]uint32 // clocks of completed sends not yet received (FIFO)
	recvVCs [][]uint32 // clocks of completed receives, by index
	sends   int
	recvs   int
	rvPartner *thread // thread completing the other half of a rendezvous
	rvPartnerIsReceiver bool
	rvParked chan struct{}
}

func chanKey(c interface{}) uintptr { return reflect.ValueOf(c).Pointer() }

func (s *sched) chanState(c interface{}) *chanState {
	k := chanKey(c)
	cs := s.chans[k]
	if cs == nil {
		cs = &chanState{ref: c}
		s.chans[k] = cs
	}
	return cs
}

func chanLenCap(c interface{}) (int, int) {
	v := reflect.ValueOf(c)
	return v.Len(), v.Cap()
}

// parkedOn finds a started, parked thread (other than me) whose pending
// operation is the given direction on channel c.
func (s *sched) parkedOn(c interface{}, wantSend bool, me *thread) *thread {
	k := chanKey(c)
	for _, t := range s.threads {
		if t == me || t.done || !t.started || t == s.cur {
			continue
		}
		o := &t.pending
		if wantSend && o.kind == opSend && chanKey(o.obj) == k {
			return t
		}
		if !wantSend && o.kind == opRecv && chanKey(o.obj) == k {
			return t
		}
	}
	return nil
}

func (s *sched) sendReady(c interface{}, me *thread) bool {
	if isNilChan(c) {
		return false
	}
	cs := s.chanState(c)
	if cs.closed {
		return true // the real send panics, as in Go
	}
	l, cp := chanLenCap(c)
	if cp > 0 {
		return l < cp
	}
	return s.parkedOn(c, false, me) != nil
}

func (s *sched) recvReady(c interface{}, me *thread) bool {
	if isNilChan(c) {
		return false
	}
	cs := s.chanState(c)
	l, cp := chanLenCap(c)
	if l > 0 || cs.closed {
		return true
	}
	if cp > 0 {
		return false
	}
	return s.parkedOn(c, true, me) != nil
}

// BeforeSend is the scheduling point of `c <- v`.
func BeforeSend(c interface{}) {
	s := cur.Load()
	if s == nil {
		return
	}
	if s.point(op{kind: opSend, obj: c, what: fmt.Sprintf("send %#x", chanKey(c)&0xffff)}) == 2 {
		return // released by a receiver: do the real send, then park in AfterSend
	}
	t := s.cur
	cs := s.chanState(c)
	if cs.closed {
		return // real send panics
	}
	_, cp := chanLenCap(c)
	// HB: the (k+cap)-th send happens after the k-th receive
	if k := cs.sends - cp; cp > 0 && k >= 0 && k < len(cs.recvVCs) {
		t.join(s, cs.recvVCs[k])
	}
	cs.sends++
	cs.sendVCs = append(cs.sendVCs, append([]uint32{}, t.clock(s)...))
	t.tick(s)
	if cp == 0 {
		// rendezvous: release the parked receiver into its real receive
		r := s.parkedOn(c, false, t)
		if r == nil {
			panic("vsched: unbuffered send scheduled without a parked receiver")
		}
		cs.rvPartner, cs.rvPartnerIsReceiver, cs.rvParked = r, true, make(chan struct{})
		r.pending = op{kind: opResume, what: "resume after recv"}
		r.wake <- 2
	}
}

// AfterSend completes a rendezvous on the sender side.
func AfterSend(c interface{}) {
	s := cur.Load()
	if s == nil || isNilChan(c) {
		return
	}
	cs := s.chans[chanKey(c)]
	if cs == nil || cs.rvPartner == nil {
		return
	}
	if cs.rvPartnerIsReceiver {
		// I am the initiator (sender): wait until the receiver has parked again
		<-cs.rvParked
		// unbuffered: receive happens before the send completes
		s.cur.join(s, cs.rvPartner.clock(s))
		cs.rvPartner = nil
		return
	}
	// I am the partner (a sender released by a receiver): park
	p := cs.rvPartner
	close(cs.rvParked)
	if v := <-p.wake; v == 1 {
		panic(abortSentinel{})
	}
}

// BeforeRecv is the scheduling point of `<-c`.
func BeforeRecv(c interface{}) {
	s := cur.Load()
	if s == nil {
		return
	}
	if s.point(op{kind: opRecv, obj: c, what: fmt.Sprintf("recv %#x", chanKey(c)&0xffff)}) == 2 {
		return // released by a sender: do the real receive, then park in AfterRecv
	}
	s.afterRecvChosen(c)
}

func (s *sched) afterRecvChosen(c interface{}) {
	t := s.cur
	cs := s.chanState(c)
	l, cp := chanLenCap(c)
	if l == 0 && cs.closed {
		t.join(s, cs.closeVC)
		return
	}
	if cp == 0 {
		// rendezvous initiated by the receiver: release the parked sender into its real send
		snd := s.parkedOn(c, true, t)
		if snd == nil {
			panic("vsched: unbuffered receive scheduled without a parked sender")
		}
		// sender's clock flows to the receiver and back
		t.join(s, snd.clock(s))
		cs.sends++
		cs.recvs++
		cs.rvPartner, cs.rvPartnerIsReceiver, cs.rvParked = snd, false, make(chan struct{})
		snd.pending = op{kind: opResume, what: "resume after send"}
		snd.wake <- 2
		return
	}
	if len(cs.sendVCs) > 0 {
		t.join(s, cs.sendVCs[0])
		cs.sendVCs = cs.sendVCs[1:]
	}
	cs.recvs++
	cs.recvVCs = append(cs.recvVCs, append([]uint32{}, t.clock(s)...))
	t.tick(s)
}

// AfterRecv completes a rendezvous on the receiver side.
func AfterRecv(c interface{}) {
	s := cur.Load()
	if s == nil || isNilChan(c) {
		return
	}
	cs := s.chans[chanKey(c)]
	if cs == nil || cs.rvPartner == nil {
		return
	}
	if !cs.rvPartnerIsReceiver {
		// I am the initiator (receiver): wait until the sender has parked again
		<-cs.rvParked
		cs.rvPartner = nil
		return
	}
	// I am the partner (a receiver released by a sender)
	p := cs.rvPartner
	if len(cs.sendVCs) > 0 {
		p.join(s, cs.sendVCs[0])
		cs.sendVCs = cs.sendVCs[1:]
	}
	cs.recvs++
	p.tick(s)
	close(cs.rvParked)
	if v := <-p.wake; v == 1 {
		panic(abortSentinel{})
	}
}

// BeforeClose is the scheduling point of close(c).
func BeforeClose(c interface{}) {
	s := cur.Load()
	if s == nil {
		return
	}
	s.point(op{kind: opClose, obj: c, what: fmt.Sprintf("close %#x", chanKey(c)&0xffff)})
	if isNilChan(c) {
		return
	}
	cs := s.chanState(c)
	if !cs.closed {
		cs.closed = true
		cs.closeVC = append([]uint32{}, s.cur.clock(s)...)
		s.cur.tick(s)
	}
}

// Select is the scheduling point of a select statement. cases lists the
// channel of each communication clause in source order (send=false: receive).
// It returns the index of the clause to run, or len(cases) for default.
func Select(hasDefault bool, cases ...interface{}) int {
	s := cur.Load()
	if s == nil {
		return -1 // not under exploration: the rewritten code falls back to the real select
	}
	cs := make([]selCase, len(cases))
	for i, c := range cases {
		cs[i] = selCase{ch: c}
	}
	s.point(op{kind: opSelect, cases: cs, hasDefault: hasDefault, what: "select"})
	i := s.cur.selChoice
	if i >= 0 && i < len(cases) {
		s.afterRecvChosen(cases[i])
	}
	return i
}
