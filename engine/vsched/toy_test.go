package vsched

import (
	"fmt"
	"testing"
	"time"
)

// exploreAll runs body under every schedule within the bound and returns the set of observations.
func exploreAll(t *testing.T, bound int, cost string, body func() string) (map[string]int, ExploreStats, []*Outcome) {
	obs := map[string]int{}
	var bad []*Outcome
	var last string
	run := func(devs []Dev) *Outcome {
		out := Run(Config{Prefix: PrefixOf(devs)}, func() { last = body() })
		return out
	}
	st := Explore(ExploreOpts{Bound: bound, Cost: cost}, run, func(devs []Dev, out *Outcome) bool {
		if out.Diverged != "" {
			t.Fatalf("diverged: %s", out.Diverged)
		}
		key := last
		if out.Deadlock {
			key = "DEADLOCK"
		}
		if out.Livelock {
			key = "LIVELOCK"
		}
		if len(out.Races) > 0 {
			key += " RACE:" + out.Races[0].Var
		}
		obs[key]++
		if out.Deadlock || out.Livelock || len(out.Races) > 0 {
			bad = append(bad, out)
		}
		last = ""
		return true
	})
	return obs, st, bad
}

func TestLostUpdate(t *testing.T) {
	body := func() string {
		var m Mutex
		var wg WaitGroup
		x := 0
		for i := 0; i < 2; i++ {
			wg.Add(1)
			Go(func() {
				m.Lock()
				v := *Rd(&x, "toy.go:1 x")
				m.Unlock()
				m.Lock()
				*Wr(&x, "toy.go:2 x") = v + 1
				m.Unlock()
				wg.Done()
			})
		}
		wg.Wait()
		return fmt.Sprint(*Rd(&x, "toy.go:3 x"))
	}
	obs0, _, _ := exploreAll(t, 0, "delay", body)
	if len(obs0) != 1 || obs0["2"] != 1 {
		t.Fatalf("default schedule should give 2: %v", obs0)
	}
	obs, st, _ := exploreAll(t, 2, "delay", body)
	t.Logf("lost update: %v executions=%d bycost=%v", obs, st.Executions, st.ByCost)
	if obs["1"] == 0 {
		t.Fatalf("lost update not found within 2 deviations: %v", obs)
	}
	for k := range obs {
		if k != "1" && k != "2" {
			t.Fatalf("unexpected outcome %q (false race or deadlock?)", k)
		}
	}
}

func TestCheckThenAct(t *testing.T) {
	body := func() string {
		var sent Map
		var m Mutex
		var wg WaitGroup
		n := 0
		for i := 0; i < 2; i++ {
			wg.Add(1)
			Go(func() {
				if _, ok := sent.Load("k"); !ok {
					m.Lock()
					n++
					m.Unlock()
					sent.Store("k", nil)
				}
				wg.Done()
			})
		}
		wg.Wait()
		return fmt.Sprint(n)
	}
	obs, st, _ := exploreAll(t, 2, "delay", body)
	t.Logf("check-then-act: %v executions=%d", obs, st.Executions)
	if obs["2"] == 0 || obs["1"] == 0 {
		t.Fatalf("both outcomes expected: %v", obs)
	}
}

func TestDeadlockABBA(t *testing.T) {
	body := func() string {
		var a, b Mutex
		var wg WaitGroup
		wg.Add(2)
		Go(func() { a.Lock(); b.Lock(); b.Unlock(); a.Unlock(); wg.Done() })
		Go(func() { b.Lock(); a.Lock(); a.Unlock(); b.Unlock(); wg.Done() })
		wg.Wait()
		return "ok"
	}
	obs, st, _ := exploreAll(t, 2, "delay", body)
	t.Logf("abba: %v executions=%d", obs, st.Executions)
	if obs["DEADLOCK"] == 0 || obs["ok"] == 0 {
		t.Fatalf("deadlock and ok both expected: %v", obs)
	}
}

func TestMissedClose(t *testing.T) {
	body := func() string {
		ch := make(chan int, 1)
		done := make(chan bool, 1)
		Go(func() {
			sum := 0
			for {
				BeforeRecv(ch)
				v, ok := <-ch
				AfterRecv(ch)
				if !ok {
					break
				}
				sum += v
			}
			BeforeSend(done)
			done <- true
			AfterSend(done)
		})
		BeforeSend(ch)
		ch <- 1
		AfterSend(ch)
		// forgot close(ch)
		BeforeRecv(done)
		<-done
		AfterRecv(done)
		return "ok"
	}
	obs, _, _ := exploreAll(t, 1, "delay", body)
	if len(obs) != 1 || obs["DEADLOCK"] == 0 {
		t.Fatalf("only deadlock expected: %v", obs)
	}
}

func TestRaceDetected(t *testing.T) {
	body := func() string {
		x := 0
		var wg WaitGroup
		wg.Add(1)
		Go(func() { *Wr(&x, "toy.go:10 x") = 1; wg.Done() })
		v := *Rd(&x, "toy.go:11 x") // unsynchronised with the write
		wg.Wait()
		return fmt.Sprint(v >= 0)
	}
	obs, _, bad := exploreAll(t, 0, "delay", body)
	if len(bad) == 0 {
		t.Fatalf("race not reported in the default schedule: %v", obs)
	}
	t.Log(bad[0].Races[0])
}

func TestNoFalseRace(t *testing.T) {
	body := func() string {
		x := 0
		ch := make(chan int, 2)
		var wg WaitGroup
		wg.Add(1)
		Go(func() {
			*Wr(&x, "toy.go:20 x") = 1
			BeforeSend(ch)
			ch <- 1
			AfterSend(ch)
			wg.Done()
		})
		BeforeRecv(ch)
		<-ch
		AfterRecv(ch)
		v := *Rd(&x, "toy.go:21 x")
		wg.Wait()
		return fmt.Sprint(v)
	}
	obs, _, bad := exploreAll(t, 2, "delay", body)
	if len(bad) != 0 || len(obs) != 1 || obs["1"] == 0 {
		t.Fatalf("expected only outcome 1 without races: %v", obs)
	}
}

func TestUnbufferedRendezvousAndSelectPoll(t *testing.T) {
	body := func() string {
		un := make(chan int) // unbuffered
		res := make(chan int, 1)
		Go(func() {
			BeforeSend(un)
			un <- 7
			AfterSend(un)
		})
		Go(func() {
			BeforeRecv(un)
			v := <-un
			AfterRecv(un)
			BeforeSend(res)
			res <- v
			AfterSend(res)
		})
		// poll with select/default/sleep like collectResults
		for {
			switch Select(true, res) {
			case 0:
				v := <-res
				return fmt.Sprint(v)
			default:
				Sleep(time.Millisecond)
			}
		}
	}
	obs, st, bad := exploreAll(t, 2, "delay", body)
	t.Logf("rendezvous: %v executions=%d maxpoints=%d", obs, st.Executions, st.MaxPoints)
	if len(bad) != 0 || len(obs) != 1 || obs["7"] == 0 {
		t.Fatalf("expected only 7: %v", obs)
	}
}

func TestLivelockDetected(t *testing.T) {
	body := func() string {
		res := make(chan int, 1)
		for {
			switch Select(true, res) {
			case 0:
				<-res
				return "got"
			default:
				Sleep(time.Millisecond)
			}
		}
	}
	obs, _, _ := exploreAll(t, 0, "delay", body)
	if obs["LIVELOCK"] == 0 {
		t.Fatalf("livelock expected: %v", obs)
	}
}

func TestReplayDeterminism(t *testing.T) {
	body := func() {
		var m Mutex
		var wg WaitGroup
		for i := 0; i < 3; i++ {
			wg.Add(1)
			Go(func() { m.Lock(); m.Unlock(); wg.Done() })
		}
		wg.Wait()
	}
	a := Run(Config{Prefix: []int{0, 1, 0, 2}}, body)
	b := Run(Config{Prefix: []int{0, 1, 0, 2}}, body)
	if a.TraceHash != b.TraceHash || len(a.Points) != len(b.Points) {
		t.Fatalf("replay diverged: %x vs %x", a.TraceHash, b.TraceHash)
	}
	c := Run(Config{Prefix: []int{0, 99}}, body)
	if c.Diverged == "" {
		t.Fatalf("out-of-range choice must be reported")
	}
}

func TestPreemptionBound(t *testing.T) {
	body := func() string {
		var m Mutex
		var wg WaitGroup
		x := 0
		for i := 0; i < 2; i++ {
			wg.Add(1)
			Go(func() {
				m.Lock()
				v := x
				m.Unlock()
				m.Lock()
				x = v + 1
				m.Unlock()
				wg.Done()
			})
		}
		wg.Wait()
		return fmt.Sprint(x)
	}
	obs, st, _ := exploreAll(t, 1, "preempt", body)
	t.Logf("preempt<=1: %v executions=%d", obs, st.Executions)
	if obs["1"] == 0 {
		t.Fatalf("lost update needs one preemption: %v", obs)
	}
}
