// C15 — queries never crash: parse and evaluate return a value or an error.
// All token sequences up to length k over the token alphabet, all reflected
// accessor chains up to length 3 (each optionally followed by a function),
// mutated documented examples and byte strings for the tokenizer, evaluated on
// four documents (1 or 2 at a time); every result goes through all five
// formatters. Runs in worker subprocesses: a stack overflow kills the process
// and is attributed to the announced case.
package main

import (
	"encoding/json"
	"fmt"
	"io"
	"reflect"
	"sort"
	"strconv"
	"strings"
	"time"

	"github.com/elliotchance/gedcom/v39"
	"github.com/elliotchance/gedcom/v39/q"
	"verif/harness/gen"
	"verif/harness/vlib"
)

var tokens = []string{".Individuals", ".Name", ".String", ".Nodes", ".", ".Nope", "X", "Y", "is", "are", "First", "Last", "Length", "Only", "Combine", "NodesWithTagPath",
	"MergeDocumentsAndIndividuals", "Document1", "Document2", "?", "(", ")", "{", "}", ":", ",", ";", "|", "=", "!", ">", "<", "0", "1", `"NAME"`, `""`}

var docTexts = map[string]string{
	"empty": "",
	"bare":  "0 @I1@ INDI\n",
	"family": "0 @I1@ INDI\n1 NAME Ann /Ash/\n1 SEX F\n1 BIRT\n2 DATE 1 Jan 1850\n2 PLAC Oldtown\n1 FAMS @F1@\n" +
		"0 @I2@ INDI\n1 NAME Bob /Birch/\n1 SEX M\n1 BIRT\n2 DATE 2 Feb 1848\n1 DEAT\n2 DATE 3 Mar 1900\n1 FAMS @F1@\n" +
		"0 @I3@ INDI\n1 NAME Cy /Birch/\n1 FAMC @F1@\n0 @F1@ FAM\n1 HUSB @I2@\n1 WIFE @I1@\n1 CHIL @I3@\n1 MARR\n2 DATE 1 Jun 1870\n0 @S1@ SOUR\n1 TITL Register\n",
	"faulted": "0 @I1@ INDI\n1 NAME //\n1 BIRT\n2 DATE sometime\n1 FAMS @F9@\n0 @I2@ INDI\n1 SEX F\n1 SEX M\n0 @I2@ INDI\n1 NAME Dup\n" +
		"0 @F1@ FAM\n1 HUSB @I9@\n1 WIFE\n1 CHIL @S1@\n1 CHIL @I1@\n1 HUSB @I1@\n0 @F2@ FAM\n0 @S1@ SOUR\n",
	// lists whose every element is nil: families without husbands, individuals without names or events
	"all-absent": "0 @I1@ INDI\n1 SEX F\n0 @I2@ INDI\n1 SEX M\n0 @F1@ FAM\n1 WIFE @I1@\n0 @F2@ FAM\n1 CHIL @I2@\n",
}
var docNames = []string{"empty", "bare", "family", "faulted", "all-absent"}

func init() {
	for _, n := range []int{1001, 2500} {
		var sb strings.Builder
		for i := 0; i < n; i++ {
			fmt.Fprintf(&sb, "0 @B%d@ INDI\n1 NAME P%d /Q%d/\n", i, i, i%7)
		}
		docTexts[fmt.Sprintf("big-%d", n)] = sb.String()
	}
	// a couple in which nobody has a name (renderings that fall back on the partner must end)
	docTexts["nameless-couple"] = "0 @I1@ INDI\n1 SEX M\n1 FAMS @F1@\n0 @I2@ INDI\n1 SEX F\n1 FAMS @F1@\n0 @F1@ FAM\n1 HUSB @I1@\n1 WIFE @I2@\n0 @F2@ FAM\n1 HUSB @I1@\n1 WIFE @I1@\n"
}

type kase struct {
	Query string   `json:"query"`
	Docs  []string `json:"docs"`
}

type fmtr struct {
	name string
	mk   func(w io.Writer) q.Formatter
}

var formatters = []fmtr{
	{"json", func(w io.Writer) q.Formatter { return &q.JSONFormatter{Writer: w} }},
	{"pretty-json", func(w io.Writer) q.Formatter { return &q.PrettyJSONFormatter{Writer: w} }},
	{"csv", func(w io.Writer) q.Formatter { return &q.CSVFormatter{Writer: w} }},
	{"gedcom", func(w io.Writer) q.Formatter { return &q.GEDCOMFormatter{Writer: w} }},
	{"html", func(w io.Writer) q.Formatter { return &q.HTMLFormatter{Writer: w} }},
}

// shape reduces a query to its token-level pattern for signatures.
func shape(query string) string {
	toks := strings.Fields(query)
	switch {
	case len(toks) >= 3 && toks[1] == "is" || len(toks) >= 3 && toks[1] == "are":
		return "variable-definition"
	case strings.Contains(query, "?"):
		return "question-mark"
	case strings.Contains(query, "Only("):
		return "only"
	case strings.Contains(query, "Combine"):
		return "combine"
	case strings.Contains(query, "NodesWithTagPath"):
		return "nodes-with-tag-path"
	case strings.Contains(query, "First") || strings.Contains(query, "Last"):
		return "first-last"
	case strings.Contains(query, "{"):
		return "object"
	case strings.HasPrefix(query, "."):
		return "accessor-chain"
	}
	return "other"
}

func judge(k kase) (sigs [][2]string, outcome string) {
	add := func(sig, what string) { sigs = append(sigs, [2]string{sig, what}) }
	var docs []*gedcom.Document
	for _, n := range k.Docs {
		d, err := gedcom.NewDocumentFromString(docTexts[n])
		if err != nil {
			panic(err)
		}
		docs = append(docs, d)
	}
	var eng *q.Engine
	var err error
	if p, msg, frame := vlib.Try(func() { eng, err = q.NewParser().ParseString(k.Query) }); p {
		add("parse-panic:"+frame+":"+vlib.MsgClass(msg), fmt.Sprintf("ParseString(%q) panicked: %s", k.Query, msg))
		return sigs, "parse-panic"
	}
	if err != nil {
		if eng != nil {
			add("parse-returns-engine-and-error", k.Query)
		}
		return sigs, "syntax-error"
	}
	if eng == nil {
		add("parse-returns-neither", k.Query)
		return sigs, "parse-nil"
	}
	var v interface{}
	if p, msg, frame := vlib.Try(func() { v, err = eng.Evaluate(docs) }); p {
		add("evaluate-panic:"+frame+":"+vlib.MsgClass(msg)+":"+shape(k.Query), fmt.Sprintf("Evaluate of %q on %v panicked: %s (in %s)", k.Query, k.Docs, msg, frame))
		return sigs, "evaluate-panic"
	}
	if err != nil {
		return sigs, "evaluate-error"
	}
	for _, f := range formatters {
		if p, msg, frame := vlib.Try(func() { _ = f.mk(io.Discard).Write(v) }); p {
			add("format-panic:"+f.name+":"+frame+":"+vlib.MsgClass(msg), fmt.Sprintf("%s formatter on the result (%T) of %q on %v panicked: %s", f.name, v, k.Query, k.Docs, msg))
		}
	}
	return sigs, "value"
}

// ---------- reflected accessor chains ----------

var nodeType = reflect.TypeOf((*gedcom.Node)(nil)).Elem()

func accessorsOf(t reflect.Type) map[string]reflect.Type {
	out := map[string]reflect.Type{}
	if t == nil {
		return out
	}
	for i := 0; i < t.NumMethod(); i++ {
		m := t.Method(i)
		if m.Type.NumIn() == 1 && m.Type.NumOut() >= 1 {
			out[m.Name] = m.Type.Out(0)
		}
	}
	st := t
	if st.Kind() == reflect.Ptr {
		st = st.Elem()
	}
	if st.Kind() == reflect.Struct {
		for i := 0; i < st.NumField(); i++ {
			f := st.Field(i)
			if f.PkgPath == "" {
				out[f.Name] = f.Type
			}
		}
	}
	return out
}

func elemOf(t reflect.Type) reflect.Type {
	if t != nil && t.Kind() == reflect.Slice {
		return t.Elem()
	}
	return t
}

func chains() []string {
	start := reflect.TypeOf(&gedcom.Document{})
	var out []string
	var rec func(t reflect.Type, prefix string, depth int)
	seen := map[string]bool{}
	rec = func(t reflect.Type, prefix string, depth int) {
		acc := accessorsOf(elemOf(t))
		names := make([]string, 0, len(acc))
		for n := range acc {
			names = append(names, n)
		}
		sort.Strings(names)
		for _, n := range names {
			qs := strings.TrimPrefix(prefix+" | ."+n, " | ")
			if !seen[qs] {
				seen[qs] = true
				out = append(out, qs)
			}
			if depth < 3 {
				rec(acc[n], qs, depth+1)
			}
		}
	}
	rec(start, "", 1)
	return out
}

var suffixes = []string{"", " | ?", " | Length", " | First(1)", " | Last(2)", " | First(99)", " | First()", " | First(1, 2)", " | First(.X)", " | Only(.Nope = 1)", " | Only(.String = \"x\")", " | { a: .String, b: . }", " | Combine(., .)", " | NodesWithTagPath(\"BIRT\", \"DATE\")", " | NodesWithTagPath()"}

// ---------- mutated examples ----------

var examples = []string{
	`.Individuals | NodesWithTagPath("BIRT", "DATE")`, `Births are .Individuals | NodesWithTagPath("BIRT"); Deaths are .Individuals | NodesWithTagPath("DEAT"); Combine(Births, Deaths)`,
	`.Individuals | Only(.Age > 100)`, `.Individuals | ?`, `Indi is .Individuals; Names are Indi | .Name; Names | .String`,
	`.Individuals | { name: .Name | .String, born: .Birth | .String }`, `.Individuals | {}`, `.Individuals | First(3) | { name: .Name | .String }`,
	`.Individuals | .Name | Only(.GivenName = "John") | .String`, `MergeDocumentsAndIndividuals(Document1, Document2)`, `X is X; X`, `X is Y; Y is X; X`, `Combine | ?`, `.Individuals | .Nodes | First(1) | .Nodes`,
}

func mutations() []string {
	seen := map[string]bool{}
	var out []string
	add := func(s string) {
		if !seen[s] {
			seen[s] = true
			out = append(out, s)
		}
	}
	for _, e := range examples {
		add(e)
		toks := q.NewTokenizer().TokenizeString(e).Tokens
		vals := make([]string, len(toks))
		for i, t := range toks {
			vals[i] = t.Value
		}
		for i := range vals {
			del := append(append([]string{}, vals[:i]...), vals[i+1:]...)
			add(strings.Join(del, " "))
			dup := append(append(append([]string{}, vals[:i+1]...), vals[i]), vals[i+1:]...)
			add(strings.Join(dup, " "))
			if i+1 < len(vals) {
				sw := append([]string{}, vals...)
				sw[i], sw[i+1] = sw[i+1], sw[i]
				add(strings.Join(sw, " "))
			}
		}
	}
	return out
}

// ---------- variable programs ----------

// varAtoms: pipeline steps that mention variables in every syntactic position a statement can
// take: bare, as function arguments, inside conditions, inside object values.
func varAtoms() []string {
	out := []string{"?", ".Individuals", ".Nodes", ".Name", "X", "Y", "Length", "First(1)", ".Nope"}
	for _, a := range []string{"X", "Y", ".Name", ".Pointer", "?"} {
		out = append(out, "Only("+a+` = "x")`)
	}
	out = append(out, "Only(X)", "Only(?)", "Only(.Pointer)")
	for _, a := range []string{"X", "Y", ".", ".Individuals"} {
		for _, b := range []string{"X", "Y", ".", ".Individuals"} {
			out = append(out, "Combine("+a+", "+b+")")
		}
	}
	for _, a := range []string{"X", "Y", ".Name"} {
		out = append(out, "{ k: "+a+" }")
	}
	out = append(out, "NodesWithTagPath(X)", "First(X)", "MergeDocumentsAndIndividuals(X, Y)", "MergeDocumentsAndIndividuals(Document1, X)")
	// comparisons with variables on one and on both sides, bare and as conditions
	out = append(out, "X = X", "X = Y", "Y != X", "X > 1", "1 < X", "Only(X = X)", "Only(X != Y)", "Only(Y >= X)")
	return out
}

func varPrograms() []string {
	at := varAtoms()
	var es []string
	es = append(es, at...)
	for _, a := range at {
		for _, b := range at {
			es = append(es, a+" | "+b)
		}
	}
	var out []string
	for _, e := range es {
		out = append(out, "X is "+e+"; X", "X is "+e+"; X | Length")
	}
	for _, a := range at {
		for _, b := range at {
			for _, f := range []string{"X", "Y", "Combine(X, Y)", "X | Only(Y)"} {
				out = append(out, "X is "+a+"; Y is "+b+"; "+f)
			}
		}
	}
	return out
}

var byteAlphabet = []byte{'.', '"', 'a', '1', '|', '(', ' ', 0xFF}

// ---------- running ----------

var docSets = [][]string{{"empty"}, {"bare"}, {"family"}, {"faulted"}, {"family", "faulted"}, {"empty", "family"}, {"all-absent"}, {"nameless-couple"}}

func runQuery(r *vlib.Rec, query string, sets [][]string, after *string) {
	for _, ds := range sets {
		k := kase{Query: query, Docs: ds}
		if *after != "" {
			if vlib.JSON(k) == *after {
				*after = ""
			}
			continue
		}
		r.Begin(k)
		r.Eval()
		sigs, outcome := judge(k)
		r.Count("outcome:" + outcome)
		if outcome == "value" || outcome == "evaluate-error" {
			r.Nontrivial(query + "|" + strings.Join(ds, ","))
			if outcome == "value" && r.WantSample() && strings.Count(query, "|") >= 2 {
				r.Sample(k)
			}
		}
		for _, s := range sigs {
			r.Fail(s[0], s[1], k)
		}
	}
}

func run(tier, unit string, r *vlib.Rec) {
	name, lo, hi := vlib.ParseChunk(unit)
	after := vlib.After(unit)
	p := strings.Split(name, ":")
	switch p[0] {
	case "tokens":
		n, _ := strconv.Atoi(p[1])
		for idx := lo; idx < hi; idx++ {
			ds := gen.Digits(idx, len(tokens), n)
			parts := make([]string, n)
			for i, d := range ds {
				parts[i] = tokens[d]
				r.Count("token:" + tokens[d])
			}
			runQuery(r, strings.Join(parts, " "), docSets, &after)
		}
	case "chains":
		cs := chains()
		for idx := lo; idx < hi; idx++ {
			for _, sfx := range suffixes {
				if strings.Count(cs[idx], "|") >= 2 && sfx != "" && sfx != " | ?" && tier != "thorough" {
					continue
				}
				r.Count("chain")
				runQuery(r, cs[idx]+sfx, [][]string{{"family"}, {"faulted"}, {"all-absent"}, {"nameless-couple"}}, &after)
			}
		}
	case "mutations":
		ms := mutations()
		for idx := lo; idx < hi; idx++ {
			r.Count("mutation")
			runQuery(r, ms[idx], docSets, &after)
		}
	case "vars":
		vp := varPrograms()
		for idx := lo; idx < hi; idx++ {
			r.Count("vars")
			runQuery(r, vp[idx], [][]string{{"empty"}, {"family"}, {"family", "faulted"}}, &after)
		}
	case "big": // results with more entries than any internal buffer: documents of 1001 and 2500 bare individuals
		for _, q := range []string{"MergeDocumentsAndIndividuals(Document1, Document2)", ".Individuals | Length", ".Individuals | .String | Length", "Combine(.Individuals, .Individuals) | Length"} {
			r.Count("big")
			runQuery(r, q, [][]string{{"big-1001", "empty"}, {"empty", "big-1001"}, {"big-1001", "big-2500"}}, &after)
		}
	case "bytes":
		n, _ := strconv.Atoi(p[1])
		buf := make([]byte, n)
		for idx := lo; idx < hi; idx++ {
			for i, d := range gen.Digits(idx, len(byteAlphabet), n) {
				buf[i] = byteAlphabet[d]
			}
			r.Count("bytes")
			runQuery(r, string(buf), [][]string{{"family"}}, &after)
		}
	}
}

func maxTokens(tier string) int {
	if tier == "thorough" {
		return 4
	}
	return 3
}

func plan(tier string) []string {
	var out []string
	for n := 1; n <= maxTokens(tier); n++ {
		out = append(out, vlib.Chunks(fmt.Sprintf("tokens:%d", n), gen.Pow(len(tokens), n), 1500)...)
	}
	out = append(out, vlib.Chunks("chains", int64(len(chains())), 300)...)
	out = append(out, vlib.Chunks("mutations", int64(len(mutations())), 100)...)
	out = append(out, vlib.Chunks("vars", int64(len(varPrograms())), 400)...)
	out = append(out, "big:0:1")
	for n := 0; n <= 4; n++ {
		out = append(out, vlib.Chunks(fmt.Sprintf("bytes:%d", n), gen.Pow(len(byteAlphabet), n), 2000)...)
	}
	return out
}

func replay(c json.RawMessage) (string, string) {
	var k kase
	json.Unmarshal(c, &k)
	sigs, outcome := judge(k)
	var ss []string
	obs := fmt.Sprintf("query %q docs %v -> %s\n", k.Query, k.Docs, outcome)
	for _, s := range sigs {
		ss = append(ss, s[0])
		obs += s[0] + ": " + s[1] + "\n"
	}
	return strings.Join(ss, "\x1f"), obs
}

func main() {
	vlib.Main(&vlib.Check{
		ID:    "C15",
		Level: "exploration",
		Rule: "cases: (a) every sequence of <=k tokens (k=3 quick, 4 thorough) over a 36-token alphabet joined by spaces; (b) every accessor chain of length <=3 over all exported zero-argument methods and fields reachable by reflection from *Document (computed at run time), each followed by each of 15 function suffixes (depth-3 chains: plain and '?' only in the quick tier); (c) 14 documented / adversarial examples with every single-token deletion, duplication and adjacent swap; (c2) every program 'X is E; X [| Length]' with E a pipeline of <=2 steps over 40 steps that mention variables in every position (bare, function argument, condition, object value), and every 'X is A; Y is B; F' with single steps A, B and four final forms; (d) every byte string of length <=4 over {. \" a 1 | ( space 0xFF}; evaluated on {empty, bare individual, family, faulted} documents singly and in pairs; every value goes through the json, pretty-json, csv, gedcom and html formatters. " +
			"Non-trivial = queries that parse (evaluate to a value or an error); distinct by (query, documents).",
		Assumptions: []string{
			"a fresh engine and freshly decoded documents per case; panics are recovered in-process, a process death (stack overflow, out of memory) is attributed to the case announced just before it",
			"evaluate-panic signatures carry the innermost repository frame, the message class and the token-level shape of the query",
		},
		Plan:   plan,
		Run:    run,
		Replay: replay,
		DiedSig: func(c json.RawMessage, stderr string) (string, string) {
			var k kase
			json.Unmarshal(c, &k)
			cls := vlib.MsgClass(stderr)
			if strings.Contains(stderr, "stack overflow") || strings.Contains(stderr, "goroutine stack exceeds") {
				cls = "stack overflow"
			}
			return "process-died:" + cls + ":" + shape(k.Query), fmt.Sprintf("evaluating %q on %v killed the process: %s", k.Query, k.Docs, firstLines(stderr, 3))
		},
		WorkerInit: func() {},
		Required: func(string) []string {
			req := []string{"outcome:value", "outcome:syntax-error", "outcome:evaluate-error", "chain", "mutation", "bytes", "vars"}
			for _, t := range tokens {
				req = append(req, "token:"+t)
			}
			return req
		},
		Deadline: func(tier string) time.Duration {
			if tier == "thorough" {
				return 25 * time.Minute
			}
			return 10 * time.Minute
		},
	})
}

func firstLines(s string, n int) string {
	l := strings.Split(s, "\n")
	if len(l) > n {
		l = l[:n]
	}
	return strings.Join(l, " / ")
}
