package main

import (
	"bytes"

	gedcom "github.com/elliotchance/gedcom/v39"
	"verif/harness/gen"
	"verif/harness/gx"
)

// Route "rewrite": a document that has already been written (so whatever the encoder remembers is warm) is
// changed through the public API - in-place setters included - and written again. The text of the second
// writing must decode to the document as it is now. Every sequence of <=3 steps over the alphabet below.

const rewriteBase = "0 HEAD\n1 CHAR UTF-8\n0 @I1@ INDI\n1 NAME Ann /Ash/\n1 SEX M\n1 BIRT\n2 DATE 1 Jan 1850\n1 FAMS @F1@\n0 @I2@ INDI\n1 NAME Bob /Birch/\n1 FAMS @F1@\n0 @I3@ INDI\n1 NAME Cy /Cole/\n1 SEX M\n1 FAMC @F1@\n" +
	"0 @F1@ FAM\n1 HUSB @I1@\n1 WIFE @I2@\n1 CHIL @I3@\n0 TRLR\n"

type rewriteStep struct {
	Name string
	Do   func(d *gedcom.Document)
}

func rwIndi(d *gedcom.Document, p string) *gedcom.IndividualNode {
	n, _ := d.NodeByPointer(p).(*gedcom.IndividualNode)
	return n
}

func rwFam(d *gedcom.Document) *gedcom.FamilyNode {
	n, _ := d.NodeByPointer("F1").(*gedcom.FamilyNode)
	return n
}

// writeAll renders the document in every way the library offers.
func writeAll(d *gedcom.Document) {
	_ = d.String()
	var buf bytes.Buffer
	_ = gedcom.NewEncoder(&buf, d).Encode()
	var walk func(ns gedcom.Nodes, depth int)
	walk = func(ns gedcom.Nodes, depth int) {
		for _, n := range ns {
			_ = gedcom.GEDCOMLine(n, depth)
			_ = gedcom.GEDCOMString(n, depth)
			_ = n.String()
			walk(n.Nodes(), depth+1)
		}
	}
	walk(d.Nodes(), 0)
}

var rewriteSteps = []rewriteStep{
	{"write", writeAll},
	{"I1.SetSex(F)", func(d *gedcom.Document) { rwIndi(d, "I1").SetSex(gedcom.SexFemale) }},
	{"I1.SetSex(M)", func(d *gedcom.Document) { rwIndi(d, "I1").SetSex(gedcom.SexMale) }},
	{"I2.SetSex(F)", func(d *gedcom.Document) { rwIndi(d, "I2").SetSex(gedcom.SexFemale) }},
	{"F1.SetHusband(I3)", func(d *gedcom.Document) { rwFam(d).SetHusband(rwIndi(d, "I3")) }},
	{"F1.SetWife(I3)", func(d *gedcom.Document) { rwFam(d).SetWife(rwIndi(d, "I3")) }},
	{"F1.SetHusbandPointer(I2)", func(d *gedcom.Document) { rwFam(d).SetHusbandPointer("I2") }},
	{"F1.SetWifePointer(I1)", func(d *gedcom.Document) { rwFam(d).SetWifePointer("I1") }},
	{"F1.SetHusband(nil)", func(d *gedcom.Document) { rwFam(d).SetHusband(nil) }},
	{"I1.AddName", func(d *gedcom.Document) { rwIndi(d, "I1").AddName("Other /Name/") }},
	{"I1.AddBirthDate", func(d *gedcom.Document) { rwIndi(d, "I1").AddBirthDate("2 Feb 1851") }},
	{"I1.DeleteNode(first)", func(d *gedcom.Document) {
		if i := rwIndi(d, "I1"); len(i.Nodes()) > 0 {
			i.DeleteNode(i.Nodes()[0])
		}
	}},
	{"I1.SetNodes(tail)", func(d *gedcom.Document) {
		if i := rwIndi(d, "I1"); len(i.Nodes()) > 0 {
			i.SetNodes(append(gedcom.Nodes{}, i.Nodes()[1:]...))
		}
	}},
	{"F1.AddChild(I2)", func(d *gedcom.Document) { rwFam(d).AddChild(rwIndi(d, "I2")) }},
	{"doc.AddIndividual(I9)", func(d *gedcom.Document) {
		if d.NodeByPointer("I9") == nil {
			d.AddIndividual("I9", gedcom.NewNameNode("New /Nine/"))
		}
	}},
	{"doc.DeleteNode(I3)", func(d *gedcom.Document) {
		if n := d.NodeByPointer("I3"); n != nil {
			d.DeleteNode(n)
		}
	}},
}

func rewriteCount(maxLen int) int64 {
	var n int64
	for l := 1; l <= maxLen; l++ {
		n += gen.Pow(len(rewriteSteps), l)
	}
	return n
}

// rewriteSeq: the idx-th step sequence (all of length 1, then all of length 2, ...).
func rewriteSeq(idx int64) []int {
	for l := 1; ; l++ {
		t := gen.Pow(len(rewriteSteps), l)
		if idx < t {
			return gen.Digits(idx, len(rewriteSteps), l)
		}
		idx -= t
	}
}

func buildRewrite(k kase) (*gedcom.Document, string) {
	r := gx.Decode(rewriteBase, false, false)
	if r.Panicked || r.Err != nil {
		return nil, "text-rejected"
	}
	r.Doc.HasBOM = k.BOM
	writeAll(r.Doc)
	for _, s := range k.Steps {
		rewriteSteps[s].Do(r.Doc)
	}
	return r.Doc, "built"
}
