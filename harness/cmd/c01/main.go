// C01 — encode then decode returns the same document.
// Bounded-exhaustive: every ordered forest with <=N nodes, default labels with
// <=2 deviating nodes over the label alphabet, built through the public API;
// role-node forests built from text; every depth 0..99; x HasBOM.
package main

import (
	"bytes"
	"encoding/json"
	"fmt"
	"strconv"
	"strings"
	"time"

	"github.com/elliotchance/gedcom/v39"
	"verif/harness/gen"
	"verif/harness/gx"
	"verif/harness/ref"
	"verif/harness/vlib"
)

type Label struct {
	Tag     string `json:"t"`
	Value   string `json:"v"`
	Pointer string `json:"p,omitempty"`
}

var def = Label{"NOTE", "v", ""}

var devTags = []string{"BAPM", "BIRT", "BURI", "DATE", "DEAT", "EVEN", "_FID", "_FSFTID", "FORM", "LATI", "LONG", "MAP",
	"NAME", "NICK", "FONE", "PLAC", "RESI", "ROMN", "SEX", "SOUR", "TYPE", "_UID", "INDI", "FAM", "OCCU", "HEAD", "TRLR", "CONT",
	"_X", "X1", "1", "a_b", "note", "ABCDEFGHIJKLMNOPQRSTUVWXYZ01234"}
var devValues = []string{"", "@I1@", "1 NAME x", "@", "a  b", "10", "@P1@ x", "\xc3\xa9\xff", "a@@b", "@@"}
var devPointers = []string{"P1", "1", "P 1"}

// single-field deviations (used for pairs) and the full deviation alphabet
var singleDevs, allDevs []Label

func init() {
	for _, t := range devTags {
		singleDevs = append(singleDevs, Label{t, def.Value, ""})
	}
	for _, v := range devValues {
		singleDevs = append(singleDevs, Label{def.Tag, v, ""})
	}
	for _, p := range devPointers {
		singleDevs = append(singleDevs, Label{def.Tag, def.Value, p})
	}
	allDevs = append(allDevs, singleDevs...)
	for _, t := range devTags {
		for _, v := range devValues {
			allDevs = append(allDevs, Label{t, v, ""})
		}
		for _, p := range devPointers {
			allDevs = append(allDevs, Label{t, def.Value, p})
		}
	}
}

type kase struct {
	Route  string  `json:"route"` // api | text | depth
	Levels []int   `json:"levels,omitempty"`
	Labels []Label `json:"labels,omitempty"`
	Text   string  `json:"text,omitempty"`
	Depth  int     `json:"depth,omitempty"`
	Dedent int     `json:"dedent,omitempty"`
	BOM    bool    `json:"bom"`
	Steps  []int   `json:"steps,omitempty"` // route rewrite
}

// buildAPI builds the forest through the public API. ok=false when the API
// cannot express it (nested INDI/FAM, role nodes).
func buildAPI(levels []int, labels []Label, bom bool) (doc *gedcom.Document, ok bool) {
	doc = gedcom.NewDocument()
	doc.HasBOM = bom
	var open []gedcom.Node
	for i, l := range levels {
		lb := labels[i]
		var n gedcom.Node
		switch {
		case lb.Tag == "INDI" || lb.Tag == "FAM":
			if l != 0 {
				return nil, false
			}
			if lb.Tag == "INDI" {
				n = doc.AddIndividual(lb.Pointer)
			} else {
				n = doc.AddFamily(lb.Pointer)
			}
		default:
			n = gedcom.NewNode(gedcom.TagFromString(lb.Tag), lb.Value, lb.Pointer)
			if l == 0 {
				doc.AddNode(n)
			} else {
				open[l-1].AddNode(n)
			}
		}
		open = append(open[:l], n)
	}
	return doc, true
}

func renderText(levels []int, labels []Label) string {
	var sb strings.Builder
	for i, l := range levels {
		lb := labels[i]
		sb.WriteString(strconv.Itoa(l))
		if lb.Pointer != "" {
			sb.WriteString(" @" + lb.Pointer + "@")
		}
		sb.WriteString(" " + lb.Tag)
		if lb.Value != "" {
			sb.WriteString(" " + lb.Value)
		}
		sb.WriteString("\n")
	}
	return sb.String()
}

func maxDepth(nodes gedcom.Nodes) int {
	d := 0
	for _, n := range nodes {
		if x := 1 + maxDepth(n.Nodes()); x > d {
			d = x
		}
	}
	return d
}

// judge: the round trip oracle on a built document.
func judge(doc *gedcom.Document) (sig, what string) {
	src := gx.Dump(doc.Nodes(), true)
	enc := doc.String()
	var buf bytes.Buffer
	if err := gedcom.NewEncoder(&buf, doc).Encode(); err != nil || buf.String() != enc {
		return "encoder-disagrees-with-String", fmt.Sprintf("Encoder.Encode wrote %q, String() is %q (err %v)", buf.String(), enc, err)
	}
	if doc.HasBOM != strings.HasPrefix(enc, "\xef\xbb\xbf") {
		return "bom-not-written", "HasBOM and the encoded prefix disagree"
	}
	r := gx.Decode(enc, false, false)
	if r.Panicked || r.Err != nil {
		sig := "encoded-text-not-accepted"
		if maxDepth(doc.Nodes()) > 10 {
			sig = "level>=10-unparsable"
		}
		return sig, fmt.Sprintf("the decoder does not accept the encoder's text %q: err=%v panic=%q", clip(enc), r.Err, r.PanicMsg)
	}
	if sh := gx.Shared(r.Doc.Nodes()); sh != "" {
		return "node-object-shared", sh
	}
	got := gx.Dump(r.Doc.Nodes(), true)
	if got != src {
		sig := "tree-differs"
		a, b := gx.Dump(doc.Nodes(), false), gx.Dump(r.Doc.Nodes(), false)
		switch {
		case a == b:
			sig = "node-kind-differs"
		case strings.Count(a, "\n") != strings.Count(b, "\n"):
			sig = "tree-differs:node-count"
		}
		return sig, fmt.Sprintf("decoded document differs from the source\n source:\n%s decoded:\n%s", clip(src), clip(got))
	}
	if s := gx.CheckTypes(r.Doc.Nodes()); s != "" {
		return "node-kind-wrong", s
	}
	if r.Doc.HasBOM != doc.HasBOM {
		return "bom-flag-lost", fmt.Sprintf("HasBOM %v became %v", doc.HasBOM, r.Doc.HasBOM)
	}
	if enc2 := r.Doc.String(); enc2 != enc {
		return "reencode-differs", fmt.Sprintf("%q vs %q", clip(enc), clip(enc2))
	}
	return "", ""
}

func clip(s string) string {
	if len(s) > 600 {
		return s[:300] + " ... " + s[len(s)-200:]
	}
	return s
}

func runCase(r *vlib.Rec, k kase) {
	r.Eval()
	r.EnterF(func() interface{} { return k })
	doc, class := buildCase(k)
	r.Count("route:" + k.Route + ":" + class)
	if doc == nil {
		// A text-route case is written in the encoder's own normal form. When
		// the reference decoder reads it as a forest, a document with exactly
		// that text exists (role nodes can be attached anywhere with AddNode),
		// so the decoder must accept it.
		if class == "text-rejected" && ref.Decode(k.Text, false, false).Outcome == ref.Accept {
			r.Fail("normal-form-text-rejected", fmt.Sprintf("the decoder rejects text in the encoder's normal form: %q", k.Text), k)
		}
		return
	}
	sig, what := judge(doc)
	if sig != "" {
		r.Fail(sig, what, k)
	}
	n := gx.CountNodes(doc.Nodes())
	if n >= 2 && (k.Route != "api" || hasDeviation(k.Labels)) {
		r.Nontrivial(doc.String())
		if r.WantSample() && n >= 4 {
			r.Sample(k)
		}
	}
}

func hasDeviation(ls []Label) bool {
	for _, l := range ls {
		if l != def {
			return true
		}
	}
	return false
}

func buildCase(k kase) (*gedcom.Document, string) {
	switch k.Route {
	case "api":
		var doc *gedcom.Document
		var ok bool
		p, msg, _ := vlib.Try(func() { doc, ok = buildAPI(k.Levels, k.Labels, k.BOM) })
		if p {
			return nil, "api-panics:" + vlib.MsgClass(msg) // e.g. role nodes need a family: not buildable through the API
		}
		if !ok {
			return nil, "not-expressible"
		}
		return doc, "built"
	case "rewrite":
		var doc *gedcom.Document
		var class string
		p, msg, _ := vlib.Try(func() { doc, class = buildRewrite(k) })
		if p {
			return nil, "api-panics:" + vlib.MsgClass(msg)
		}
		return doc, class
	case "text":
		r := gx.Decode(k.Text, false, false)
		if r.Panicked || r.Err != nil {
			return nil, "text-rejected"
		}
		r.Doc.HasBOM = k.BOM
		return r.Doc, "built"
	case "depth":
		doc := gedcom.NewDocument()
		doc.HasBOM = k.BOM
		path := make([]gedcom.Node, k.Depth+1)
		for d := 0; d <= k.Depth; d++ {
			path[d] = gedcom.NewNode(gedcom.TagFromString("NOTE"), "d"+strconv.Itoa(d), "")
			if d == 0 {
				doc.AddNode(path[d])
			} else {
				path[d-1].AddNode(path[d])
			}
		}
		// sibling after the deepest node
		sib := gedcom.NewNode(gedcom.TagFromString("NOTE"), "sib", "")
		if k.Depth == 0 {
			doc.AddNode(sib)
		} else {
			path[k.Depth-1].AddNode(sib)
		}
		// dedent to level k.Dedent
		dd := gedcom.NewNode(gedcom.TagFromString("NAME"), "dedent", "")
		if k.Dedent == 0 {
			doc.AddNode(dd)
		} else {
			path[k.Dedent-1].AddNode(dd)
		}
		return doc, "built"
	}
	return nil, "?"
}

// text-route label alphabet
var textLabels = []Label{
	{"NOTE", "v", ""}, {"FAM", "", "F1"}, {"INDI", "", "I1"}, {"HUSB", "@I1@", ""}, {"WIFE", "@I2@", ""}, {"CHIL", "@I1@", ""}, {"FAM", "", ""}, {"CHIL", "", "C1"},
}

func run(tier, unit string, r *vlib.Rec) {
	name, lo, hi := vlib.ParseChunk(unit)
	p := strings.Split(name, ":")
	switch p[0] {
	case "api": // api:<N>:<mode>   mode 0: default + one deviation (allDevs); mode 2: two deviations (singleDevs)
		N, _ := strconv.Atoi(p[1])
		forests := gen.AllForests(N)
		for fi := lo; fi < hi; fi++ {
			levels := forests[fi]
			base := make([]Label, N)
			for i := range base {
				base[i] = def
			}
			for _, bom := range []bool{false, true} {
				if p[2] == "0" {
					runCase(r, kase{Route: "api", Levels: levels, Labels: base, BOM: bom})
					for i := 0; i < N; i++ {
						for _, d := range allDevs {
							ls := append([]Label{}, base...)
							ls[i] = d
							r.Count("tag:" + d.Tag)
							runCase(r, kase{Route: "api", Levels: levels, Labels: ls, BOM: bom})
						}
					}
				} else {
					if bom {
						continue
					}
					for i := 0; i < N; i++ {
						for j := i + 1; j < N; j++ {
							for _, d1 := range singleDevs {
								for _, d2 := range singleDevs {
									ls := append([]Label{}, base...)
									ls[i], ls[j] = d1, d2
									r.Count("pairs")
									runCase(r, kase{Route: "api", Levels: levels, Labels: ls, BOM: false})
								}
							}
						}
					}
				}
			}
		}
	case "text": // text:<N>  full product of the text label alphabet over every forest
		N, _ := strconv.Atoi(p[1])
		forests := gen.AllForests(N)
		A := len(textLabels)
		per := gen.Pow(A, N)
		for idx := lo; idx < hi; idx++ {
			levels := forests[idx/per]
			ds := gen.Digits(idx%per, A, N)
			ls := make([]Label, N)
			for i, d := range ds {
				ls[i] = textLabels[d]
				r.Count("textlabel:" + ls[i].Tag)
			}
			runCase(r, kase{Route: "text", Text: renderText(levels, ls), BOM: idx%2 == 1})
		}
	case "empty": // the empty forest and single-node documents of every node kind x HasBOM
		for _, bom := range []bool{false, true} {
			r.Count("empty-forest")
			runCase(r, kase{Route: "api", BOM: bom})
			for _, t := range devTags {
				runCase(r, kase{Route: "api", Levels: []int{0}, Labels: []Label{{t, "", ""}}, BOM: bom})
			}
		}
	case "chars": // every printable ASCII character (and a 2-byte rune) at every position of a value, single and doubled; legal ones in tags and pointers
		for c := lo + 0x20; c < hi+0x20; c++ {
			ch := string(rune(c))
			if c == 0x7f {
				ch = "\u00e9"
			}
			var vals []string
			for _, v := range []string{ch, ch + ch, "a" + ch + "b", "a" + ch + ch + "b", ch + "b", "a" + ch, ch + "a" + ch, ch + ch + ch, "@" + ch + "@", "1 " + ch} {
				if strings.TrimSpace(v) == v {
					vals = append(vals, v)
				}
			}
			for _, tg := range []string{"NOTE", "NAME", "DATE", "SEX", "_UID", "PLAC"} {
				for _, v := range vals {
					for _, shape := range [][]int{{0}, {0, 1}, {0, 1, 1}} {
						ls := make([]Label, len(shape))
						for i := range ls {
							ls[i] = Label{tg, v, ""}
						}
						ls[0] = def
						if len(shape) == 1 {
							ls[0] = Label{tg, v, ""}
						}
						r.Count("chars")
						runCase(r, kase{Route: "api", Levels: shape, Labels: ls, BOM: false})
					}
				}
			}
			legalTag := c >= '0' && c <= '9' || c >= 'A' && c <= 'Z' || c >= 'a' && c <= 'z' || c == '_'
			if legalTag {
				for _, tg := range []string{ch, ch + ch, "A" + ch, ch + "A", "A" + ch + "B"} {
					runCase(r, kase{Route: "api", Levels: []int{0, 1}, Labels: []Label{def, {tg, "v", ""}}, BOM: false})
					runCase(r, kase{Route: "api", Levels: []int{0}, Labels: []Label{{tg, "", ""}}, BOM: true})
				}
			}
			if c != '@' && c != ' ' {
				for _, ptr := range []string{ch, ch + ch, "A" + ch, ch + "A", "A" + ch + "1"} {
					runCase(r, kase{Route: "api", Levels: []int{0, 1}, Labels: []Label{{"INDI", "", ptr}, {"NOTE", "v", ptr}}, BOM: false})
					runCase(r, kase{Route: "api", Levels: []int{0}, Labels: []Label{{"NOTE", "@" + ptr + "@", ptr}}, BOM: false})
				}
			}
		}
	case "rewrite": // rewrite:<maxlen>
		for idx := lo; idx < hi; idx++ {
			seq := rewriteSeq(idx)
			for _, st := range seq {
				r.Count("rewrite:" + rewriteSteps[st].Name)
			}
			runCase(r, kase{Route: "rewrite", Steps: seq, BOM: idx%2 == 1})
		}
	case "depth":
		for d := lo; d < hi; d++ {
			for dd := 0; dd <= int(d); dd++ {
				for _, bom := range []bool{false, true} {
					r.Count("depth")
					if d >= 10 {
						r.Count("depth>=10")
					}
					runCase(r, kase{Route: "depth", Depth: int(d), Dedent: dd, BOM: bom})
				}
			}
		}
	}
}

func plan(tier string) []string {
	var out []string
	N, N2, NT := 6, 5, 5
	if tier == "thorough" {
		N, N2, NT = 8, 6, 6
	}
	for n := 1; n <= N; n++ {
		out = append(out, vlib.Chunks(fmt.Sprintf("api:%d:0", n), int64(len(gen.AllForests(n))), 2)...)
	}
	for n := 2; n <= N2; n++ {
		out = append(out, vlib.Chunks(fmt.Sprintf("api:%d:2", n), int64(len(gen.AllForests(n))), 1)...)
	}
	for n := 1; n <= NT; n++ {
		out = append(out, vlib.Chunks(fmt.Sprintf("text:%d", n), int64(len(gen.AllForests(n)))*gen.Pow(len(textLabels), n), 20000)...)
	}
	out = append(out, vlib.Chunks("depth", 100, 10)...)
	rw := 3
	if tier == "thorough" {
		rw = 4
	}
	out = append(out, vlib.Chunks(fmt.Sprintf("rewrite:%d", rw), rewriteCount(rw), 500)...)
	out = append(out, "empty:0:1")
	out = append(out, vlib.Chunks("chars", 0x60, 8)...)
	return out
}

func replay(c json.RawMessage) (string, string) {
	var k kase
	json.Unmarshal(c, &k)
	doc, class := buildCase(k)
	if doc == nil {
		if class == "text-rejected" && ref.Decode(k.Text, false, false).Outcome == ref.Accept {
			return "normal-form-text-rejected", "the decoder rejects " + k.Text
		}
		return "", "case could not be built: " + class
	}
	sig, what := judge(doc)
	return sig, fmt.Sprintf("encoded: %q\n%s", clip(doc.String()), what)
}

func main() {
	vlib.Main(&vlib.Check{
		ID:    "C01",
		Level: "exploration",
		Rule: "cases: (api) every ordered forest with <=N nodes, all nodes default (NOTE v) except <=1 node taking any of the " + strconv.Itoa(len(allDevs)) + " deviating labels (tag, value, pointer, tag x value, tag x pointer) or 2 nodes taking single-field deviations, built with NewDocument/AddIndividual/AddFamily/NewNode/AddNode, x HasBOM; " +
			"(text) every forest with <=NT nodes x every labelling over {NOTE, FAM, INDI, HUSB, WIFE, CHIL, ...} decoded from text and taken as the document under test; (depth) single-path forests of every depth 0..99 with a sibling after the deepest node and a dedent to every shallower level. " +
			"Non-trivial = >=2 nodes and (for api) >=1 deviating label; distinct by encoded text.",
		Assumptions: []string{
			"values with surrounding white space or line breaks and pointers containing '@' are outside the property's legal alphabet and are not generated",
			"nested INDI/FAM and HUSB/WIFE/CHIL cannot be created through the public constructors; those forests are obtained by decoding text first (route text)",
			"expected Go type per tag comes from the harness's own table (gx.ExpectedType)",
		},
		Plan:   plan,
		Run:    run,
		Replay: replay,
		Required: func(string) []string {
			req := []string{"route:api:built", "route:text:built", "route:depth:built", "depth>=10", "pairs", "chars", "empty-forest", "route:rewrite:built"}
			for _, st := range rewriteSteps {
				req = append(req, "rewrite:"+st.Name)
			}
			for _, t := range devTags {
				req = append(req, "tag:"+t)
			}
			for _, t := range []string{"HUSB", "WIFE", "CHIL", "FAM", "INDI"} {
				req = append(req, "textlabel:"+t)
			}
			return req
		},
		Deadline: func(tier string) time.Duration {
			if tier == "thorough" {
				return 25 * time.Minute
			}
			return 8 * time.Minute
		},
		Bounds: func(tier string) interface{} {
			if tier == "thorough" {
				return map[string]interface{}{"N_one_deviation": 8, "N_two_deviations": 6, "N_text": 6, "depths": "0..99", "tags": devTags, "values": devValues, "pointers": devPointers}
			}
			return map[string]interface{}{"N_one_deviation": 6, "N_two_deviations": 5, "N_text": 5, "depths": "0..99", "tags": devTags, "values": devValues, "pointers": devPointers}
		},
	})
}
