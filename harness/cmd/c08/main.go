// C08 — a node diff accounts for every node and leaves its inputs alone.
// All ordered pairs of trees with <=N nodes and equal root tag over the
// matcher's shortcut alphabet; permuted copies; copies with unique leaves
// inserted/removed; on each diff all sequences of <=4 diff operations.
package main

import (
	"encoding/json"
	"fmt"
	"sort"
	"strconv"
	"strings"
	"time"

	"github.com/elliotchance/gedcom/v39"
	"verif/harness/gen"
	"verif/harness/gx"
	"verif/harness/vlib"
)

type Label struct{ Tag, Value, Pointer string }

var alphabet = []Label{
	{"NOTE", "a", ""}, {"NOTE", "b", ""}, {"BIRT", "", ""}, {"RESI", "", ""},
	{"DATE", "1 Jan 1900", ""}, {"DATE", "2 Feb 1901", ""}, {"OCCU", "a", "P1"},
	{"FAM", "", "F1"}, {"CHIL", "@P3@", ""}, {"HUSB", "@P1@", ""},
}

// labels of the reduced alphabet used for one node more
var reduced = []int{0, 1, 2}

func legal(t Tree) bool {
	for i, l := range t.Levels {
		switch alphabet[t.Labels[i]].Tag {
		case "FAM":
			if l != 0 {
				return false
			}
		case "HUSB", "CHIL":
			if l != 1 || alphabet[t.Labels[0]].Tag != "FAM" {
				return false
			}
		}
	}
	return true
}

type Tree struct {
	Levels []int    `json:"levels"`
	Labels []int    `json:"labels"`
	Extra  []string `json:"extra,omitempty"` // explicit lines (for inserted unique leaves); when set it is the whole text
}

func (t Tree) text() string {
	if t.Extra != nil {
		return strings.Join(t.Extra, "\n") + "\n"
	}
	var sb strings.Builder
	for i, l := range t.Levels {
		lb := alphabet[t.Labels[i]]
		sb.WriteString(strconv.Itoa(l))
		if lb.Pointer != "" {
			sb.WriteString(" @" + lb.Pointer + "@")
		}
		sb.WriteString(" " + lb.Tag)
		if lb.Value != "" {
			sb.WriteString(" " + lb.Value)
		}
		sb.WriteByte('\n')
	}
	return sb.String()
}

func (t Tree) build() gedcom.Node {
	doc, err := gedcom.NewDocumentFromString(t.text())
	if err != nil || len(doc.Nodes()) != 1 {
		panic(fmt.Sprintf("cannot build %q: %v", t.text(), err))
	}
	return doc.Nodes()[0]
}

func allTrees(maxN int) []Tree {
	var out []Tree
	for n := 1; n <= maxN; n++ {
		shapes := gen.AllTrees(n)
		per := gen.Pow(len(alphabet), n)
		for si := range shapes {
			for idx := int64(0); idx < per; idx++ {
				if t := (Tree{Levels: shapes[si], Labels: gen.Digits(idx, len(alphabet), n)}); legal(t) {
					out = append(out, t)
				}
			}
		}
	}
	// one node more over the reduced alphabet {NOTE a, NOTE b, BIRT}: equal siblings below the first level
	n := maxN + 1
	shapes := gen.AllTrees(n)
	per := gen.Pow(len(reduced), n)
	for si := range shapes {
		for idx := int64(0); idx < per; idx++ {
			ds := gen.Digits(idx, len(reduced), n)
			for i := range ds {
				ds[i] = reduced[ds[i]]
			}
			out = append(out, Tree{Levels: shapes[si], Labels: ds})
		}
	}
	return out
}

var ops = []string{"String", "IsDeepEqual", "Sort", "Tag"}

// judgeAliased: NewNode(..., shared[:k]...) and NewNode(..., shared[:m]...) hand the library two views of
// one array (Go passes the slice itself for a spread argument); a diff and every operation on it must
// leave both trees and the caller's array as they were.
func judgeAliased(k, m int) (sig, what string) {
	mk := func() (gedcom.Node, gedcom.Node, gedcom.Nodes) {
		shared := make(gedcom.Nodes, 3, 8)
		for i := range shared {
			shared[i] = gedcom.NewNode(gedcom.TagNote, fmt.Sprintf("n%d", i), "")
		}
		sub := func(n int) gedcom.Node {
			// an entry below the root that has child entries of its own and a sibling
			return gedcom.NewNode(gedcom.TagFromString("_ROOT"), "", "", gedcom.NewNode(gedcom.TagFromString("EVEN"), "x", "", shared[:n]...), gedcom.NewNode(gedcom.TagNote, "sibling", ""))
		}
		return sub(k), sub(m), shared
	}
	snap := func(l, r gedcom.Node, sh gedcom.Nodes) string {
		s := gedcom.GEDCOMString(l, 0) + "|" + gedcom.GEDCOMString(r, 0) + "|"
		for _, n := range sh[:cap(sh)] {
			s += gedcom.GEDCOMString(n, 0) + ","
		}
		return s
	}
	for _, seq := range [][]int{{}, {2}, {2, 2}, {0, 2, 1, 3}, {1, 2, 0}} {
		L, R, sh := mk()
		before := snap(L, R, sh)
		var d *gedcom.NodeDiff
		if p, msg, frame := vlib.Try(func() { d = gedcom.CompareNodes(L, R) }); p {
			return "panic:CompareNodes:" + frame + ":" + vlib.MsgClass(msg), msg
		}
		for _, o := range seq {
			var p bool
			var msg, frame string
			switch ops[o] {
			case "String":
				p, msg, frame = vlib.Try(func() { _ = d.String() })
			case "IsDeepEqual":
				p, msg, frame = vlib.Try(func() { _ = d.IsDeepEqual() })
			case "Sort":
				p, msg, frame = vlib.Try(func() { d.Sort() })
			case "Tag":
				p, msg, frame = vlib.Try(func() { _ = d.Tag() })
			}
			if p {
				return "panic:" + ops[o] + ":" + frame + ":" + vlib.MsgClass(msg), msg
			}
			if after := snap(L, R, sh); after != before {
				return "inputs-modified-by:" + ops[o] + ":shared-child-array", fmt.Sprintf("children %d and %d of one array with spare capacity: after %s (sequence %v) the trees or the caller's array changed:\nbefore: %s\nafter:  %s", k, m, ops[o], seq, before, after)
			}
		}
	}
	return "", ""
}

// permutations of up to three items
func perms3(n int) [][]int {
	switch n {
	case 1:
		return [][]int{{0}}
	case 2:
		return [][]int{{0, 1}, {1, 0}}
	}
	return [][]int{{0, 1, 2}, {0, 2, 1}, {1, 0, 2}, {1, 2, 0}, {2, 0, 1}, {2, 1, 0}}
}

func opSequences(maxLen int) [][]int {
	var out [][]int
	for l := 1; l <= maxLen; l++ {
		tot := gen.Pow(len(ops), l)
		for i := int64(0); i < tot; i++ {
			out = append(out, gen.Digits(i, len(ops), l))
		}
	}
	return out
}

type kase struct {
	L, R Tree
	Ops  []int  `json:"ops,omitempty"`
	Sub  string `json:"sub"`
}

// depthNodes lists nodes by depth.
func byDepth(root gedcom.Node) map[int][]gedcom.Node {
	m := map[int][]gedcom.Node{}
	var rec func(n gedcom.Node, d int)
	rec = func(n gedcom.Node, d int) {
		m[d] = append(m[d], n)
		for _, c := range n.Nodes() {
			rec(c, d+1)
		}
	}
	rec(root, 0)
	return m
}

func containsNode(ns []gedcom.Node, n gedcom.Node) bool {
	for _, x := range ns {
		if x == n {
			return true
		}
	}
	return false
}

// represents: entry e can stand for input node x on the given side.
func represents(e *gedcom.NodeDiff, x gedcom.Node, left bool) bool {
	mine, other := e.Left, e.Right
	if !left {
		mine, other = e.Right, e.Left
	}
	if !gedcom.IsNil(mine) && (mine == x || mine.Equals(x) || x.Equals(mine)) {
		return true
	}
	// a node that was merged into an entry created from the other side
	if !gedcom.IsNil(other) && (other.Equals(x) || x.Equals(other)) {
		return true
	}
	return false
}

// covers: e represents x and recursively some child entry covers each child of x.
func covers(e *gedcom.NodeDiff, x gedcom.Node, left bool) bool {
	if !represents(e, x, left) {
		return false
	}
	for _, c := range x.Nodes() {
		ok := false
		for _, ce := range e.Children {
			if covers(ce, c, left) {
				ok = true
				break
			}
		}
		if !ok {
			return false
		}
	}
	return true
}

func checkStructure(d *gedcom.NodeDiff, L, R gedcom.Node) (sig, what string) {
	ld, rd := byDepth(L), byDepth(R)
	if d.Left != L || d.Right != R {
		return "root-entry-wrong", "the root entry does not hold the two inputs"
	}
	var rec func(e *gedcom.NodeDiff, depth int, isRoot bool) (string, string)
	rec = func(e *gedcom.NodeDiff, depth int, isRoot bool) (string, string) {
		ln, rn := gedcom.IsNil(e.Left), gedcom.IsNil(e.Right)
		if ln && rn {
			return "entry-empty-on-both-sides", fmt.Sprintf("entry at depth %d has neither Left nor Right", depth)
		}
		if !ln && !containsNode(ld[depth], e.Left) {
			return "provenance:left-not-an-input-node", fmt.Sprintf("Left %q at depth %d is not a node of the left input at that depth", e.Left.GEDCOMLine(depth), depth)
		}
		if !rn && !containsNode(rd[depth], e.Right) {
			return "provenance:right-not-an-input-node", fmt.Sprintf("Right %q at depth %d is not a node of the right input at that depth", e.Right.GEDCOMLine(depth), depth)
		}
		if !isRoot && !ln && !rn && !e.Left.Equals(e.Right) && !e.Right.Equals(e.Left) {
			return "two-sided-entry-of-unequal-nodes", fmt.Sprintf("entry pairs %q with %q which are not Equals", e.Left.GEDCOMLine(depth), e.Right.GEDCOMLine(depth))
		}
		for _, c := range e.Children {
			if s, w := rec(c, depth+1, false); s != "" {
				return s, w
			}
		}
		return "", ""
	}
	if s, w := rec(d, 0, true); s != "" {
		return s, w
	}
	// coverage (the root entry holds the roots by identity; cover their children)
	for _, side := range []bool{true, false} {
		root := L
		if !side {
			root = R
		}
		for _, c := range root.Nodes() {
			ok := false
			for _, ce := range d.Children {
				if covers(ce, c, side) {
					ok = true
					break
				}
			}
			if !ok {
				name := "left"
				if !side {
					name = "right"
				}
				return "coverage:" + name + "-node-not-represented", fmt.Sprintf("%s child %q (with its subtree) is not represented by any entry", name, c.GEDCOMLine(1))
			}
		}
	}
	return "", ""
}

// one-sidedness: a child of the root with no Equals partner among the other
// root's children, and which holds its own entry, must be one-sided.
func checkOneSided(d *gedcom.NodeDiff, L, R gedcom.Node) (sig, what string) {
	for _, e := range d.Children {
		if !gedcom.IsNil(e.Left) && !gedcom.IsNil(e.Right) {
			continue
		}
		// fine: one-sided. Now the converse: every two-sided entry was checked by checkStructure.
	}
	for _, side := range []bool{true, false} {
		mine, other := L, R
		if !side {
			mine, other = R, L
		}
		for _, x := range mine.Nodes() {
			partner := false
			for _, y := range other.Nodes() {
				if x.Equals(y) || y.Equals(x) {
					partner = true
				}
			}
			if partner {
				continue
			}
			for _, e := range d.Children {
				held := e.Left
				opp := e.Right
				if !side {
					held, opp = e.Right, e.Left
				}
				if held == x && !gedcom.IsNil(opp) {
					return "one-sided-node-in-two-sided-entry", fmt.Sprintf("%q has no equal node on the other side but its entry is two-sided", x.GEDCOMLine(1))
				}
			}
		}
	}
	return "", ""
}

func sortedLines(s string) string {
	l := strings.Split(s, "\n")
	for i := range l {
		l[i] = strings.TrimLeft(l[i], "LR ")
		// drop the level digit so that a line is comparable regardless of position
	}
	sort.Strings(l)
	return strings.Join(l, "\n")
}

// judgePair checks structure on a fresh diff and purity under one op sequence.
func judgePair(lt, rt Tree, seq []int, sub string) (sig, what string) {
	L, R := lt.build(), rt.build()
	l0, r0 := L.GEDCOMString(0), R.GEDCOMString(0)
	var d *gedcom.NodeDiff
	if p, msg, frame := vlib.Try(func() { d = gedcom.CompareNodes(L, R) }); p {
		return "panic:CompareNodes:" + frame + ":" + vlib.MsgClass(msg), msg
	}
	if L.GEDCOMString(0) != l0 || R.GEDCOMString(0) != r0 {
		return "inputs-modified-by:CompareNodes", "CompareNodes changed an input"
	}
	if seq == nil {
		if s, w := checkStructure(d, L, R); s != "" {
			return s, w
		}
		if s, w := checkOneSided(d, L, R); s != "" {
			return s, w
		}
		if sub == "perm" || sub == "self" {
			// deep-equal inputs must give an all-two-sided diff
			if gedcom.DeepEqual(L, R) && gedcom.DeepEqual(R, L) && !d.IsDeepEqual() {
				sig := "deep-equal-inputs-not-all-two-sided"
				if dateSharingTriple(L) {
					sig += ":non-transitive-date-sharing-siblings"
				}
				return sig, "inputs are DeepEqual but the diff has a one-sided entry:\n" + d.String()
			}
			// a tree and its re-ordered copy are deep-equal by construction (C07), whatever the implementation's
			// DeepEqual says about them
			if !d.IsDeepEqual() && !(gedcom.DeepEqual(L, R) && gedcom.DeepEqual(R, L)) {
				sig := "reordered-copy-not-all-two-sided"
				if dateSharingTriple(L) {
					sig += ":non-transitive-date-sharing-siblings"
				}
				return sig, "the right input is a re-ordered copy of the left one but the diff has a one-sided entry (and DeepEqual denies that they are equal):\n" + d.String()
			}
		}
		return "", ""
	}
	s0 := d.String()
	for i, o := range seq {
		var p bool
		var msg, frame string
		switch ops[o] {
		case "String":
			p, msg, frame = vlib.Try(func() { _ = d.String() })
		case "IsDeepEqual":
			p, msg, frame = vlib.Try(func() { _ = d.IsDeepEqual() })
		case "Sort":
			p, msg, frame = vlib.Try(func() { d.Sort() })
		case "Tag":
			p, msg, frame = vlib.Try(func() { _ = d.Tag() })
		}
		if p {
			return "panic:" + ops[o] + ":" + frame + ":" + vlib.MsgClass(msg), msg
		}
		if L.GEDCOMString(0) != l0 || R.GEDCOMString(0) != r0 {
			return "inputs-modified-by:" + ops[o], fmt.Sprintf("after operation %d (%s) of %v an input changed:\nleft before:\n%sleft after:\n%sright before:\n%sright after:\n%s", i, ops[o], seq, l0, L.GEDCOMString(0), r0, R.GEDCOMString(0))
		}
	}
	s1 := d.String()
	hasSort := false
	for _, o := range seq {
		if ops[o] == "Sort" {
			hasSort = true
		}
	}
	if !hasSort && s1 != s0 {
		return "diff-changed-by-read-operation", fmt.Sprintf("diff text changed by %v", seq)
	}
	if hasSort && sortedLines(s1) != sortedLines(s0) {
		return "sort-changes-diff-content", fmt.Sprintf("Sort changed the multiset of diff lines:\nbefore:\n%s\nafter:\n%s", s0, s1)
	}
	return "", ""
}

// dateSharingTriple: some sibling list holds EVEN (or RESI) nodes x, y, z with x.Equals(y),
// y.Equals(z) and !x.Equals(z) under the "any shared date" rule of those kinds — the root cause
// of the known finding (entries are matched greedily by that non-transitive rule).
func dateSharingTriple(n gedcom.Node) bool {
	kids := n.Nodes()
	for _, x := range kids {
		for _, y := range kids {
			for _, z := range kids {
				if x == y || y == z || x == z {
					continue
				}
				t := x.Tag().Tag()
				if (t != "EVEN" && t != "RESI") || y.Tag().Tag() != t || z.Tag().Tag() != t {
					continue
				}
				if x.Equals(y) && y.Equals(z) && !x.Equals(z) && !z.Equals(x) {
					return true
				}
			}
		}
	}
	for _, c := range kids {
		if dateSharingTriple(c) {
			return true
		}
	}
	return false
}

// permuted copies and insert/remove variants of a tree
func variants(t Tree) (perms []Tree, edits []Tree) {
	// permutations of the root's children subtrees and reversal at every level (trees are tiny)
	n := len(t.Levels)
	par := gen.Parents(t.Levels)
	kids := map[int][]int{}
	for i := 1; i < n; i++ {
		kids[par[i]] = append(kids[par[i]], i)
	}
	var emit func(order func(k []int) []int) Tree
	emit = func(order func(k []int) []int) Tree {
		var out Tree
		var rec func(i, level int)
		rec = func(i, level int) {
			out.Levels = append(out.Levels, level)
			out.Labels = append(out.Labels, t.Labels[i])
			for _, k := range order(kids[i]) {
				rec(k, level+1)
			}
		}
		rec(0, 0)
		return out
	}
	perms = append(perms, emit(func(k []int) []int { return k }))
	perms = append(perms, emit(func(k []int) []int {
		r := append([]int{}, k...)
		for i, j := 0, len(r)-1; i < j; i, j = i+1, j-1 {
			r[i], r[j] = r[j], r[i]
		}
		return r
	}))
	perms = append(perms, emit(func(k []int) []int {
		if len(k) < 2 {
			return k
		}
		return append(append([]int{}, k[1:]...), k[0])
	}))
	// insert uniquely tagged leaves under plain parents (NOTE/OCCU) at every position: k = 1, 2
	lines := strings.Split(strings.TrimRight(t.text(), "\n"), "\n")
	for i := 0; i < n; i++ {
		tag := alphabet[t.Labels[i]].Tag
		if tag != "NOTE" && tag != "OCCU" {
			continue
		}
		// position directly after node i (first child) and after its subtree (last child)
		end := i + 1
		for end < n && t.Levels[end] > t.Levels[i] {
			end++
		}
		for _, pos := range []int{i + 1, end} {
			for k := 1; k <= 2; k++ {
				var nl []string
				nl = append(nl, lines[:pos]...)
				for j := 0; j < k; j++ {
					nl = append(nl, fmt.Sprintf("%d _U%d%d u", t.Levels[i]+1, i, j))
				}
				nl = append(nl, lines[pos:]...)
				edits = append(edits, Tree{Extra: nl})
			}
		}
	}
	return
}

func run(tier, unit string, r *vlib.Rec) {
	name, lo, hi := vlib.ParseChunk(unit)
	N := 3
	if tier == "thorough" {
		N = 4
	}
	trees := allTrees(N)
	switch name {
	case "pairs":
		seqs := opSequences(4)
		for i := lo; i < hi; i++ {
			lt := trees[i]
			for _, rt := range trees {
				if alphabet[lt.Labels[0]].Tag != alphabet[rt.Labels[0]].Tag {
					continue
				}
				r.Eval()
				r.Count("pairs")
				if len(lt.Levels)+len(rt.Levels) >= 3 {
					r.Nontrivial(lt.text() + "|" + rt.text())
				}
				if s, w := judgePair(lt, rt, nil, "pair"); s != "" {
					r.Fail(s, w, kase{L: lt, R: rt, Sub: "pair"})
				}
				// purity under every operation order: on pairs small enough to keep the product in budget
				if len(lt.Levels)+len(rt.Levels) <= 4 || tier == "thorough" && len(lt.Levels)+len(rt.Levels) <= 5 {
					for _, seq := range seqs {
						r.Add("op-sequences", 1)
						if s, w := judgePair(lt, rt, seq, "pair"); s != "" {
							r.Fail(s, w, kase{L: lt, R: rt, Ops: seq, Sub: "pair"})
						}
					}
				} else {
					for _, seq := range [][]int{{2}, {2, 2}, {0, 2, 1, 3}} {
						r.Add("op-sequences", 1)
						if s, w := judgePair(lt, rt, seq, "pair"); s != "" {
							r.Fail(s, w, kase{L: lt, R: rt, Ops: seq, Sub: "pair"})
						}
					}
				}
			}
		}
	case "recompare":
		runRecompare(r, lo, hi)
	case "classes": // sibling multisets around every specialised Equals rule (gen.EqualityClassPool)
		pool := gen.EqualityClassPool
		mk := func(parts ...string) Tree {
			return Tree{Extra: append([]string{"0 @I1@ INDI"}, parts...)}
		}
		var small []Tree // multisets of <=2
		for a := range pool {
			small = append(small, mk(pool[a]))
			for b := a; b < len(pool); b++ {
				small = append(small, mk(pool[a], pool[b]))
			}
		}
		for i := lo; i < hi; i++ {
			// (1) every re-ordering of every multiset of 2..3 containing pool[i] as its first element
			for j := int(i); j < len(pool); j++ {
				for k := j - 1; k < len(pool); k++ {
					parts := []string{pool[i], pool[j]}
					if k >= j {
						parts = append(parts, pool[k])
					}
					lt := mk(parts...)
					for _, pm := range perms3(len(parts)) {
						q := make([]string, len(parts))
						for x, y := range pm {
							q[x] = parts[y]
						}
						rt := mk(q...)
						r.Eval()
						r.Count("classes:perm")
						r.Nontrivial(lt.text() + "|" + rt.text())
						if s, w := judgePair(lt, rt, nil, "perm"); s != "" {
							r.Fail(s, w, kase{L: lt, R: rt, Sub: "perm"})
						}
						for _, seq := range [][]int{{2}, {0, 2, 1, 3}} {
							if s, w := judgePair(lt, rt, seq, "perm"); s != "" {
								r.Fail(s, w, kase{L: lt, R: rt, Ops: seq, Sub: "perm"})
							}
						}
					}
				}
			}
			// (3) pool[i] against itself with its own sub-lines re-ordered (the re-ordering is made here, so the two
			// trees are deep-equal by construction), alone and next to every other pool member
			if lines := strings.Split(pool[i], "\n"); len(lines) >= 3 {
				subs := lines[1:]
				for _, pm := range perms3(len(subs)) {
					q := []string{lines[0]}
					for _, y := range pm {
						q = append(q, subs[y])
					}
					inner := strings.Join(q, "\n")
					for o := -1; o < len(pool); o++ {
						lt, rt := mk(pool[i]), mk(inner)
						if o >= 0 {
							lt, rt = mk(pool[i], pool[o]), mk(pool[o], inner)
						}
						r.Eval()
						r.Count("classes:inner-perm")
						for _, seq := range [][]int{nil, {2}, {0, 2, 1, 3}} {
							if s, w := judgePair(lt, rt, seq, "perm"); s != "" {
								r.Fail(s, w, kase{L: lt, R: rt, Ops: seq, Sub: "perm"})
							}
						}
					}
				}
			}
			// (2) the single sibling pool[i] against every multiset of <=2, both directions
			one := mk(pool[i])
			for _, o := range small {
				for _, pr := range [][2]Tree{{one, o}, {o, one}} {
					r.Eval()
					r.Count("classes:pair")
					if s, w := judgePair(pr[0], pr[1], nil, "pair"); s != "" {
						r.Fail(s, w, kase{L: pr[0], R: pr[1], Sub: "pair"})
					}
					if s, w := judgePair(pr[0], pr[1], []int{0, 2, 1, 3}, "pair"); s != "" {
						r.Fail(s, w, kase{L: pr[0], R: pr[1], Ops: []int{0, 2, 1, 3}, Sub: "pair"})
					}
				}
			}
		}
	case "aliased": // trees built through the API whose child slices share one backing array with spare capacity
		for k := lo; k < hi; k++ {
			for m := int64(0); m <= 3; m++ {
				r.Eval()
				r.Count("aliased")
				if s, w := judgeAliased(int(k), int(m)); s != "" {
					r.Fail(s, w, kase{Sub: "aliased", Ops: []int{int(k), int(m)}})
				}
			}
		}
	case "variants":
		for i := lo; i < hi; i++ {
			t := trees[i]
			perms, edits := variants(t)
			for _, p := range perms {
				r.Eval()
				r.Count("perm")
				if s, w := judgePair(t, p, nil, "perm"); s != "" {
					r.Fail(s, w, kase{L: t, R: p, Sub: "perm"})
				}
			}
			for _, e := range edits {
				for _, dir := range []bool{true, false} {
					a, b := t, e
					if !dir {
						a, b = e, t
					}
					r.Eval()
					r.Count("edit")
					if s, w := judgePair(a, b, nil, "edit"); s != "" {
						r.Fail(s, w, kase{L: a, R: b, Sub: "edit"})
						continue
					}
					// the inserted unique leaves must come out one-sided
					d := gedcom.CompareNodes(a.build(), b.build())
					str := d.String()
					want := strings.Count(e.text(), " _U")
					got := 0
					for _, line := range strings.Split(str, "\n") {
						if strings.Contains(line, " _U") {
							if (dir && strings.HasPrefix(line, " R ")) || (!dir && strings.HasPrefix(line, "L  ")) {
								got++
							}
						}
					}
					if got != want {
						r.Fail("inserted-leaf-not-one-sided", fmt.Sprintf("%d uniquely tagged leaves inserted on one side, %d one-sided entries for them:\n%s", want, got, str), kase{L: a, R: b, Sub: "edit"})
					}
				}
			}
			if r.WantSample() && len(t.Levels) == 3 {
				r.Sample(map[string]string{"left": t.text(), "right": perms[1].text(), "diff": gedcom.CompareNodes(t.build(), perms[1].build()).String()})
			}
		}
	}
}

func plan(tier string) []string {
	N := 3
	if tier == "thorough" {
		N = 4
	}
	n := int64(len(allTrees(N)))
	size := int64(8)
	if tier == "thorough" {
		size = 40
	}
	out := vlib.Chunks("pairs", n, size)
	out = append(out, vlib.Chunks("variants", n, 200)...)
	out = append(out, vlib.Chunks("classes", int64(len(gen.EqualityClassPool)), 2)...)
	out = append(out, vlib.Chunks("recompare", int64(len(recomparePool())), 4)...)
	out = append(out, "aliased:0:4")
	return out
}

func replay(c json.RawMessage) (string, string) {
	var k kase
	json.Unmarshal(c, &k)
	if k.Sub == "recompare" && len(k.Ops) == 2 {
		return judgeRecompare(k.L, k.R, k.Ops[0], []string{"DeleteNode", "SetNodes"}[k.Ops[1]])
	}
	if k.Sub == "aliased" && len(k.Ops) == 2 {
		return judgeAliased(k.Ops[0], k.Ops[1])
	}
	s, w := judgePair(k.L, k.R, k.Ops, k.Sub)
	d := gedcom.CompareNodes(k.L.build(), k.R.build())
	return s, fmt.Sprintf("left:\n%sright:\n%sops=%v\ndiff:\n%s\n%s", k.L.text(), k.R.text(), k.Ops, d.String(), w)
}

var _ = gx.Dump

// recomparePool: the subtrees of the equality-class pool that have children (only those can be edited below).
func recomparePool() []string {
	var out []string
	for _, p := range gen.EqualityClassPool {
		if strings.Contains(p, "\n") {
			out = append(out, p)
		}
	}
	return out
}

func main() {
	vlib.Main(&vlib.Check{
		ID:    "C08",
		Level: "exploration",
		Rule: "cases: every ordered pair of trees with <=N nodes and equal root tag over {NOTE a, NOTE b, BIRT, RESI, DATE x2, pointered OCCU}; every tree against its permuted copies and against copies with 1-2 uniquely tagged leaves inserted under plain parents (both directions); on each small pair every sequence of <=4 operations over {String, IsDeepEqual, Sort, Tag} with the inputs' text compared after every operation. " +
			"Non-trivial = pairs with >=3 nodes in total; distinct by the two texts.",
		Assumptions: []string{
			"an entry represents an input node when its node on that side is that node or Equals it (either direction), or its other-side node Equals it",
			"Sort may permute entries; the multiset of diff lines must be unchanged",
		},
		Plan:     plan,
		Run:      run,
		Replay:   replay,
		Required: func(string) []string { return []string{"pairs", "perm", "edit", "op-sequences", "classes:perm", "classes:inner-perm", "classes:pair"} },
		Deadline: func(tier string) time.Duration {
			if tier == "thorough" {
				return 25 * time.Minute
			}
			return 8 * time.Minute
		},
	})
}
