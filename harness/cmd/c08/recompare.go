package main

import (
	"fmt"
	"strings"

	"github.com/elliotchance/gedcom/v39"
	"verif/harness/vlib"
)

// recompare: a diff is a function of the two trees as they are NOW. Two trees are compared (twice, so that
// whatever the node kinds remember about their children is remembered), one child below the first record of
// the left tree is removed through the API (DeleteNode, or SetNodes with the remaining children), and the
// trees are compared again: the diff must be the one that freshly decoded trees of the same text give.
// The other units compare trees that nobody has looked at before.

func judgeRecompare(lt, rt Tree, kid int, how string) (sig, what string) {
	L, R := lt.build(), rt.build()
	for i := 0; i < 2; i++ {
		if p, msg, frame := vlib.Try(func() { _ = gedcom.CompareNodes(L, R).String() }); p {
			return "panic:CompareNodes:" + frame + ":" + vlib.MsgClass(msg), msg
		}
	}
	if len(L.Nodes()) == 0 {
		return "", ""
	}
	X := L.Nodes()[0]
	kids := X.Nodes()
	if kid >= len(kids) {
		return "", ""
	}
	switch how {
	case "DeleteNode":
		X.DeleteNode(kids[kid])
	case "SetNodes":
		rest := gedcom.Nodes{}
		for i, c := range kids {
			if i != kid {
				rest = append(rest, c)
			}
		}
		X.SetNodes(rest)
	}
	var got, want string
	if p, msg, frame := vlib.Try(func() { got = gedcom.CompareNodes(L, R).String() }); p {
		return "panic:CompareNodes-after-edit:" + frame + ":" + vlib.MsgClass(msg), msg
	}
	fl := Tree{Extra: strings.Split(strings.TrimSuffix(L.GEDCOMString(0), "\n"), "\n")}
	want = gedcom.CompareNodes(fl.build(), rt.build()).String()
	if sortedLines(got) != sortedLines(want) {
		return "diff-after-edit-differs-from-diff-of-fresh-trees:" + how, fmt.Sprintf("after %s of child %d below the first record of the left tree the diff is\n%s\nbut freshly decoded trees of the same text give\n%s\nleft now:\n%s", how, kid, got, want, L.GEDCOMString(0))
	}
	return "", ""
}

func runRecompare(r *vlib.Rec, lo, hi int64) {
	pool := recomparePool()
	mk := func(parts ...string) Tree {
		return Tree{Extra: append([]string{"0 @I1@ INDI"}, parts...)}
	}
	for i := lo; i < hi; i++ {
		for j := range pool {
			lt, rt := mk(pool[i]), mk(pool[j])
			for kid := 0; kid < 3; kid++ {
				for _, how := range []string{"DeleteNode", "SetNodes"} {
					r.Eval()
					r.Count("recompare")
					r.Nontrivial(fmt.Sprint(lt.text(), "|", rt.text(), "|", kid, how))
					if s, w := judgeRecompare(lt, rt, kid, how); s != "" {
						r.Fail(s, w, kase{L: lt, R: rt, Ops: []int{kid, map[string]int{"DeleteNode": 0, "SetNodes": 1}[how]}, Sub: "recompare"})
					}
				}
			}
		}
	}
}
