// C14 — no command crashes on a file the decoder accepts.
// The real gedcom binary (built from the working tree) is run on a base family
// graph perturbed by every subset of <=k structural faults, under every command
// configuration; it must end with exit status 0 or an ERROR message, never in a
// panic, a runtime fatal error or a hang.
package main

import (
	"bytes"
	"context"
	"encoding/json"
	"fmt"
	"os"
	"os/exec"
	"path/filepath"
	"regexp"
	"sort"
	"strings"
	"time"

	"github.com/elliotchance/gedcom/v39"
	"verif/harness/vlib"
)

// ---------- documents ----------

var baseLines = []string{
	"0 HEAD",
	"1 CHAR UTF-8",
	"0 @I1@ INDI",
	"1 NAME Adam /Ash/",
	"1 SEX M",
	"1 BIRT",
	"2 DATE 1 Jan 1800",
	"2 PLAC Oldtown, England",
	"1 DEAT",
	"2 DATE 1 Jan 1870",
	"1 FAMS @F1@",
	"0 @I2@ INDI",
	"1 NAME Beth /Birch/",
	"1 SEX F",
	"1 BIRT",
	"2 DATE 1 Jan 1802",
	"2 SOUR @S1@",
	"1 DEAT",
	"2 DATE 1 Jan 1872",
	"1 FAMS @F1@",
	"0 @I3@ INDI",
	"1 NAME Cy /Ash/",
	"1 SEX M",
	"1 BIRT",
	"2 DATE 1 Mar 1827",
	"1 DEAT Y",
	"1 FAMC @F1@",
	"0 @F1@ FAM",
	"1 HUSB @I1@",
	"1 WIFE @I2@",
	"1 CHIL @I3@",
	"1 MARR",
	"2 DATE 1 Jun 1825",
	"0 @S1@ SOUR",
	"1 TITL Parish register",
	"0 TRLR",
}

type fault struct {
	Name  string
	Apply func(lines []string) []string
}

func replaceLine(from, to string) func([]string) []string {
	return func(l []string) []string {
		out := append([]string{}, l...)
		for i, x := range out {
			if x == from {
				out[i] = to
				return out
			}
		}
		return out
	}
}
func dropLine(which string) func([]string) []string {
	return func(l []string) []string {
		var out []string
		done := false
		for _, x := range l {
			if x == which && !done {
				done = true
				continue
			}
			out = append(out, x)
		}
		return out
	}
}
func insertAfter(after string, add ...string) func([]string) []string {
	return func(l []string) []string {
		var out []string
		done := false
		for _, x := range l {
			out = append(out, x)
			if x == after && !done {
				done = true
				out = append(out, add...)
			}
		}
		return out
	}
}

var faults = []fault{
	{"husb-missing-record", replaceLine("1 HUSB @I1@", "1 HUSB @I9@")},
	{"chil-missing-record", replaceLine("1 CHIL @I3@", "1 CHIL @I9@")},
	{"husb-wrong-kind", replaceLine("1 HUSB @I1@", "1 HUSB @F1@")},
	{"chil-wrong-kind", replaceLine("1 CHIL @I3@", "1 CHIL @S1@")},
	{"husb-empty", replaceLine("1 HUSB @I1@", "1 HUSB")},
	{"wife-empty", replaceLine("1 WIFE @I2@", "1 WIFE")},
	{"chil-empty", replaceLine("1 CHIL @I3@", "1 CHIL")},
	{"wife-at", replaceLine("1 WIFE @I2@", "1 WIFE @")},
	{"chil-atat", replaceLine("1 CHIL @I3@", "1 CHIL @@")},
	{"no-name", dropLine("1 NAME Cy /Ash/")},
	{"name-no-surname", replaceLine("1 NAME Beth /Birch/", "1 NAME Beth")},
	{"name-slashes-only", replaceLine("1 NAME Adam /Ash/", "1 NAME //")},
	{"own-parent", insertAfter("1 CHIL @I3@", "1 CHIL @I1@")},
	{"own-spouse", replaceLine("1 WIFE @I2@", "1 WIFE @I1@")},
	{"duplicate-pointer", insertAfter("1 FAMC @F1@", "0 @I3@ INDI", "1 NAME Dup /Ash/")},
	{"family-no-members", insertAfter("2 DATE 1 Jun 1825", "0 @F2@ FAM")},
	{"source-no-title", dropLine("1 TITL Parish register")},
	{"date-phrase", replaceLine("2 DATE 1 Jan 1800", "2 DATE (about then)")},
	{"date-unparsable", replaceLine("2 DATE 1 Jan 1802", "2 DATE sometime")},
	{"date-impossible-day", replaceLine("2 DATE 1 Mar 1827", "2 DATE 31 Feb 1827")},
	{"date-range-reversed", replaceLine("2 DATE 1 Jun 1825", "2 DATE Bet. 1830 and 1820")},
	{"surname-digit", replaceLine("1 NAME Adam /Ash/", "1 NAME Adam /1st/")},
	{"surname-symbol", replaceLine("1 NAME Beth /Birch/", "1 NAME Beth /#hash/")},
	{"surname-multibyte", replaceLine("1 NAME Cy /Ash/", "1 NAME Cy /Éclair/")},
	{"fams-nowhere", replaceLine("1 FAMS @F1@", "1 FAMS @F9@")},
	{"famc-nowhere", replaceLine("1 FAMC @F1@", "1 FAMC @F9@")},
	{"living-person", insertAfter("1 FAMC @F1@", "0 @I4@ INDI", "1 NAME Liv /Ing/", "1 BIRT", "2 DATE 1 Jan 1990")},
	{"name-equals-place", replaceLine("1 NAME Cy /Ash/", "1 NAME Oldtown /England/")},
	{"place-only-commas", replaceLine("2 PLAC Oldtown, England", "2 PLAC , ,")},
	{"date-empty", replaceLine("2 DATE 1 Jan 1872", "2 DATE")},
	// the husband has neither a birth date nor a death (alive or not is then decided from his relatives, if at all)
	{"husb-no-dates", func(l []string) []string {
		return dropLine("2 DATE 1 Jan 1870")(dropLine("1 DEAT")(dropLine("2 DATE 1 Jan 1800")(l)))
	}},
	{"only-child-is-own-parent", replaceLine("1 CHIL @I3@", "1 CHIL @I1@")},
	{"second-name-no-surname", insertAfter("1 NAME Adam /Ash/", "1 NAME Addy")},
	{"husb-no-name", dropLine("1 NAME Adam /Ash/")},
	{"wife-no-name", dropLine("1 NAME Beth /Birch/")},
	{"head-bad-date", insertAfter("0 HEAD", "1 DATE 2026-09-26", "1 SOUR x", "2 DATE sometime")},
	// tags with a specialised node type written in lower or mixed case: unregistered tags to the decoder (plain nodes),
	// which code that folds case anywhere must keep treating as plain
	{"tag-lower-case-date", replaceLine("2 DATE 1 Jan 1870", "2 date 1 Jan 1870")},
	{"tag-mixed-case-name", replaceLine("1 NAME Beth /Birch/", "1 Name Beth /Birch/")},
	{"tag-lower-case-sex-plac", func(l []string) []string {
		return replaceLine("1 SEX M", "1 sex M")(replaceLine("2 PLAC Oldtown, England", "2 plac Oldtown, England")(l))
	}},
	{"tag-mixed-case-birt-fams", func(l []string) []string {
		return replaceLine("1 BIRT", "1 Birt")(replaceLine("1 FAMS @F1@", "1 Fams @F1@")(l))
	}},
	// a second marriage of the husband whose partner reference does not resolve
	{"second-family-dangling-wife", func(l []string) []string {
		return insertAfter("2 DATE 1 Jun 1825", "0 @F2@ FAM", "1 HUSB @I1@", "1 WIFE @I9@")(insertAfter("1 FAMS @F1@", "1 FAMS @F2@")(l))
	}},
}

func document(set []int) string {
	l := append([]string{}, baseLines...)
	for _, f := range set {
		l = faults[f].Apply(l)
	}
	return strings.Join(l, "\n") + "\n"
}

func subsets(k int) [][]int {
	out := [][]int{{}}
	n := len(faults)
	for i := 0; i < n; i++ {
		out = append(out, []int{i})
	}
	if k >= 2 {
		for i := 0; i < n; i++ {
			for j := i + 1; j < n; j++ {
				out = append(out, []int{i, j})
			}
		}
	}
	if k >= 3 {
		for i := 0; i < n; i++ {
			for j := i + 1; j < n; j++ {
				for l := j + 1; l < n; l++ {
					out = append(out, []int{i, j, l})
				}
			}
		}
	}
	return out
}

// ---------- commands ----------

var queries = []string{
	`.Individuals | NodesWithTagPath("DEAT")`, `.Individuals | NodesWithTagPath("BIRT", "DATE")`, `Births are .Individuals | NodesWithTagPath("BIRT"); Deaths are .Individuals | NodesWithTagPath("DEAT"); Combine(Births, Deaths)`,
	`.Individuals | Only(.Age > 100)`, `.Individuals | ?`, `.Individuals | .Name | .String`, `Indi is .Individuals; Names are Indi | .Name; Names | .String`,
	`.Individuals | { name: .Name | .String, born: .Birth | .String }`, `.Individuals | {}`, `.Individuals | Length`,
	`.Individuals | First(3) | { name: .Name | .String, born: .Birth | .String, died: .Death | .String}`, `.Individuals | .Name | Only(.GivenName = "John") | .String`,
	`.Individuals | Only(.IsLiving) | { name: .Name | .String, age: .Age | .String}`, `.Families | .Husband`, `.Families | .Children`, `.Individuals | .Spouses`, `.Individuals | .Parents`, `.Warnings`, `.Places`, `.Sources`,
}
var formats = []string{"json", "pretty-json", "csv", "gedcom", "html"}

type command struct {
	Kind string   `json:"kind"`
	Args []string `json:"args"` // {FILE}, {BASE}, {OUT} are substituted
}

func commands(tier string) []command {
	var out []command
	out = append(out, command{"warnings", []string{"warnings", "{FILE}"}})
	groups := []string{"-no-individuals", "-no-places", "-no-families", "-no-surnames", "-no-sources", "-no-statistics"}
	var groupSets [][]string
	if tier == "thorough" {
		for m := 0; m < 64; m++ {
			var s []string
			for i, g := range groups {
				if m&(1<<i) != 0 {
					s = append(s, g)
				}
			}
			groupSets = append(groupSets, s)
		}
	} else {
		groupSets = append(groupSets, nil, groups)
		for _, g := range groups {
			groupSets = append(groupSets, []string{g})
		}
	}
	for _, living := range []string{"show", "hide", "placeholder"} {
		for _, gs := range groupSets {
			for _, jobs := range []string{"1", "2"} {
				args := append([]string{"publish", "-gedcom", "{FILE}", "-output-dir", "{OUT}", "-living", living, "-jobs", jobs}, gs...)
				out = append(out, command{"publish-" + living, args})
			}
		}
	}
	for _, right := range []string{"{FILE}", "{BASE}"} {
		for _, show := range []string{"all", "subset", "only-matches"} {
			for _, srt := range []string{"written-name", "highest-similarity"} {
				for _, jobs := range []string{"1", "2"} {
					out = append(out, command{"diff", []string{"diff", "-left-gedcom", "{FILE}", "-right-gedcom", right, "-output", "{OUT}/diff.html", "-show", show, "-sort", srt, "-jobs", jobs}})
				}
			}
		}
	}
	// more workers than individuals (3 or 4 people in the file) and odd numbers of them
	for _, jobs := range []string{"3", "4", "8", "16"} {
		for _, right := range []string{"{FILE}", "{BASE}"} {
			out = append(out, command{"diff", []string{"diff", "-left-gedcom", "{FILE}", "-right-gedcom", right, "-output", "{OUT}/diff.html", "-show", "all", "-sort", "written-name", "-jobs", jobs}})
		}
		out = append(out, command{"publish-show", []string{"publish", "-gedcom", "{FILE}", "-output-dir", "{OUT}", "-living", "show", "-jobs", jobs}})
	}
	for _, qs := range queries {
		for _, f := range formats {
			out = append(out, command{"query-" + f, []string{"query", "-gedcom", "{FILE}", "-format", f, qs}})
		}
	}
	return out
}

// ---------- running ----------

var binary = filepath.Join(vlib.VerifDir, ".build", "gedcom-bin")
var frameRe = regexp.MustCompile(`(?m)^github\.com/elliotchance/gedcom/v39[./]([^\s(]+(?:\([^)]*\)\.[^\s(]+)?)`)

type outcome struct {
	class  string // ok | error | crash | hang | bad-exit
	sig    string
	detail string
}

func runCommand(c command, file, base, scratch string) outcome {
	out := filepath.Join(scratch, "out")
	os.RemoveAll(out)
	os.MkdirAll(out, 0o755)
	args := make([]string, len(c.Args))
	for i, a := range c.Args {
		a = strings.ReplaceAll(a, "{FILE}", file)
		a = strings.ReplaceAll(a, "{BASE}", base)
		a = strings.ReplaceAll(a, "{OUT}", out)
		args[i] = a
	}
	ctx, cancel := context.WithTimeout(context.Background(), 20*time.Second)
	defer cancel()
	cmd := exec.CommandContext(ctx, binary, args...)
	var stdout, stderr bytes.Buffer
	cmd.Stdout = &limitWriter{w: &stdout, n: 1 << 16}
	cmd.Stderr = &limitWriter{w: &stderr, n: 1 << 18}
	cmd.Env = append(os.Environ(), "GOMAXPROCS=2", "GOTRACEBACK=all")
	err := cmd.Run()
	se := stderr.String()
	if ctx.Err() != nil {
		return outcome{"hang", "hang:" + c.Kind, "no exit within 20 s"}
	}
	crashed := strings.Contains(se, "panic:") || strings.Contains(se, "fatal error:") || strings.Contains(se, "\ngoroutine ")
	if crashed {
		msg := ""
		for _, l := range strings.Split(se, "\n") {
			if strings.HasPrefix(l, "panic:") || strings.HasPrefix(l, "fatal error:") {
				msg = l
				break
			}
		}
		frame := "?"
		// first repository frame after the panic line
		if i := strings.Index(se, msg); i >= 0 {
			if m := frameRe.FindStringSubmatch(se[i:]); m != nil {
				frame = m[1]
			}
		}
		return outcome{"crash", "crash:" + c.Kind + ":" + frame + ":" + vlib.MsgClass(msg), msg + " in " + frame}
	}
	code := 0
	if err != nil {
		if ee, ok := err.(*exec.ExitError); ok {
			code = ee.ExitCode()
		} else {
			return outcome{"bad-exit", "cannot-run:" + c.Kind, err.Error()}
		}
	}
	switch {
	case code == 0:
		return outcome{"ok", "", ""}
	case code == 1 && strings.Contains(se, "ERROR:"):
		return outcome{"error", "", ""}
	}
	tail := se
	if len(tail) > 300 {
		tail = tail[len(tail)-300:]
	}
	return outcome{"bad-exit", fmt.Sprintf("exit-%d-without-error-message:%s", code, c.Kind), "stderr: " + tail}
}

type limitWriter struct {
	w *bytes.Buffer
	n int
}

func (l *limitWriter) Write(p []byte) (int, error) {
	if l.w.Len() < l.n {
		l.w.Write(p)
	}
	return len(p), nil
}

type kase struct {
	Faults  []string `json:"faults"`
	Command command  `json:"command"`
	Special string   `json:"special,omitempty"` // a file that needs decoder options (unit "flags")
}

// files that the decoder accepts only with options, and the diff command's flags for those options
var specialFiles = map[string]string{
	"over-indented": "0 HEAD\n0 @I1@ INDI\n1 NAME Ann /Ash/\n3 GIVN Ann\n1 BIRT\n2 DATE 1 Jan 1850\n1 DEAT Y\n0 TRLR\n",
	"multi-line":    "0 HEAD\n0 @I1@ INDI\n1 NAME Ann /Ash/\n1 NOTE first line\nsecond line without a level\n1 DEAT Y\n0 TRLR\n",
	"both":          "0 HEAD\n0 @I1@ INDI\n1 NAME Ann /Ash/\n4 GIVN Ann\n1 NOTE first line\nsecond line without a level\n1 DEAT Y\n0 TRLR\n",
	"plain":         "0 HEAD\n0 @I1@ INDI\n1 NAME Ann /Ash/\n1 DEAT Y\n0 TRLR\n",
}
var specialNames = []string{"over-indented", "multi-line", "both", "plain"}

func acceptedWith(text string, ml, ii bool) (ok bool) {
	defer func() {
		if recover() != nil {
			ok = false
		}
	}()
	d := gedcom.NewDecoder(strings.NewReader(text))
	d.AllowMultiLine, d.AllowInvalidIndents = ml, ii
	_, err := d.Decode()
	return err == nil
}

// runFlags: every special file x every combination of the two decoder flags x both sides of diff;
// whenever the flags given make the decoder accept both files, the command must succeed.
func runFlags(r *vlib.Rec, scratch, base string) {
	for _, name := range specialNames {
		text := specialFiles[name]
		file := filepath.Join(scratch, "special.ged")
		os.WriteFile(file, []byte(text), 0o644)
		for _, ml := range []bool{false, true} {
			for _, ii := range []bool{false, true} {
				for _, side := range []string{"left", "right", "both"} {
					args := []string{"diff", "-output", "{OUT}/diff.html"}
					switch side {
					case "left":
						args = append(args, "-left-gedcom", "{FILE}", "-right-gedcom", "{BASE}")
					case "right":
						args = append(args, "-left-gedcom", "{BASE}", "-right-gedcom", "{FILE}")
					default:
						args = append(args, "-left-gedcom", "{FILE}", "-right-gedcom", "{FILE}")
					}
					if ml {
						args = append(args, "-allow-multi-line")
					}
					if ii {
						args = append(args, "-allow-invalid-indents")
					}
					c := command{"diff-decoder-flags", args}
					r.Eval()
					r.Count("flags")
					o := runCommand(c, file, base, scratch)
					r.Count("outcome:" + o.class)
					if !acceptedWith(text, ml, ii) {
						r.Count("flags:not-accepted-with-these-flags")
						continue // not a file the decoder accepts under these options
					}
					r.Nontrivial(name + "|" + strings.Join(args, " "))
					sig := o.sig
					if sig == "" && o.class != "ok" {
						sig = "accepted-file-refused:diff-decoder-flags"
					}
					if sig != "" {
						r.Fail(sig, fmt.Sprintf("gedcom %s on the file %q, which the decoder accepts with AllowMultiLine=%v AllowInvalidIndents=%v: %s %s", strings.Join(args, " "), name, ml, ii, o.class, o.detail), kase{Special: name, Command: c})
					}
				}
			}
		}
	}
}

func faultNames(set []int) []string {
	var n []string
	for _, f := range set {
		n = append(n, faults[f].Name)
	}
	return n
}

func setOf(names []string) []int {
	var s []int
	for _, n := range names {
		for i, f := range faults {
			if f.Name == n {
				s = append(s, i)
			}
		}
	}
	return s
}

// minimal finds the smallest sub-subset of faults that reproduces the same crash signature.
func minimal(set []int, c command, sig, base, scratch string) []int {
	n := len(set)
	var best []int = set
	for mask := 0; mask < 1<<n; mask++ {
		var sub []int
		for i := 0; i < n; i++ {
			if mask&(1<<i) != 0 {
				sub = append(sub, set[i])
			}
		}
		if len(sub) >= len(best) {
			continue
		}
		f := filepath.Join(scratch, "min.ged")
		os.WriteFile(f, []byte(document(sub)), 0o644)
		if o := runCommand(c, f, base, scratch); o.sig == sig {
			best = sub
		}
	}
	return best
}

func k(tier string) int {
	if tier == "thorough" {
		return 3
	}
	return 2
}

func run(tier, unit string, r *vlib.Rec) {
	uname, lo, hi := vlib.ParseChunk(unit)
	scratch, err := os.MkdirTemp("/dev/shm", "c14-")
	if err != nil {
		scratch, _ = os.MkdirTemp("", "c14-")
	}
	defer os.RemoveAll(scratch)
	base := filepath.Join(scratch, "base.ged")
	os.WriteFile(base, []byte(document(nil)), 0o644)
	if uname == "flags" {
		runFlags(r, scratch, base)
		return
	}
	sets := subsets(k(tier))
	cmds := commands(tier)
	for i := lo; i < hi; i++ {
		set := sets[i]
		text := document(set)
		if _, err := gedcom.NewDocumentFromString(text); err != nil {
			r.Count("not-accepted-by-decoder")
			continue
		}
		file := filepath.Join(scratch, "in.ged")
		os.WriteFile(file, []byte(text), 0o644)
		for _, f := range set {
			r.Count("fault:" + faults[f].Name)
		}
		minimalDone := map[string][]int{}
		hung := map[string]bool{}
		for _, c := range cmds {
			// files with two or more faults: the reduced command set (every command and option value, but
			// query results in the json and csv formats only and publishing with one job; the full set
			// runs on the base document and on every single fault)
			if len(set) >= 2 && tier != "thorough" && reducedOut(c) {
				continue
			}
			if hung[c.Kind] {
				r.Count("skipped-after-hang")
				continue // this command kind already hung on this file; do not wait for every variant
			}
			if r.Expired() {
				r.Cap()
				return
			}
			r.Eval()
			o := runCommand(c, file, base, scratch)
			r.Count("outcome:" + o.class)
			r.Count("command:" + c.Kind)
			if len(set) > 0 {
				r.Nontrivial(strings.Join(faultNames(set), "+") + "|" + strings.Join(c.Args, " "))
			}
			if o.class == "hang" {
				hung[c.Kind] = true
			}
			if o.sig != "" {
				sig := o.sig
				if o.class == "crash" {
					m, ok := minimalDone[o.sig]
					if !ok {
						m = minimal(set, c, o.sig, base, scratch)
						minimalDone[o.sig] = m
					}
					names := faultNames(m)
					sort.Strings(names)
					sig += ":" + strings.Join(names, "+")
				}
				r.Fail(sig, fmt.Sprintf("gedcom %s on the base document with faults %v: %s", strings.Join(c.Args, " "), faultNames(set), o.detail), kase{Faults: faultNames(set), Command: c})
			} else if r.WantSample() && len(set) == 2 && c.Kind == "publish-placeholder" {
				r.Sample(kase{Faults: faultNames(set), Command: c})
			}
		}
	}
}

func reducedOut(c command) bool {
	if strings.HasPrefix(c.Kind, "query-") && c.Kind != "query-json" && c.Kind != "query-csv" {
		return true
	}
	if strings.HasPrefix(c.Kind, "publish-") {
		for i, a := range c.Args {
			if a == "-jobs" && i+1 < len(c.Args) && c.Args[i+1] == "2" {
				return true
			}
		}
	}
	return false
}

func plan(tier string) []string {
	return append(vlib.Chunks("files", int64(len(subsets(k(tier)))), 4), "flags:0:1")
}

func replay(cs json.RawMessage) (string, string) {
	var c kase
	json.Unmarshal(cs, &c)
	scratch, _ := os.MkdirTemp("/dev/shm", "c14r-")
	defer os.RemoveAll(scratch)
	base := filepath.Join(scratch, "base.ged")
	os.WriteFile(base, []byte(document(nil)), 0o644)
	file := filepath.Join(scratch, "in.ged")
	set := setOf(c.Faults)
	os.WriteFile(file, []byte(document(set)), 0o644)
	if c.Special != "" {
		os.WriteFile(file, []byte(specialFiles[c.Special]), 0o644)
		o := runCommand(c.Command, file, base, scratch)
		sig := o.sig
		if sig == "" && o.class != "ok" {
			sig = "accepted-file-refused:diff-decoder-flags"
		}
		return sig, fmt.Sprintf("file %q; gedcom %s -> %s %s", c.Special, strings.Join(c.Command.Args, " "), o.class, o.detail)
	}
	o := runCommand(c.Command, file, base, scratch)
	sig := o.sig
	if o.class == "crash" {
		names := faultNames(minimal(set, c.Command, o.sig, base, scratch))
		sort.Strings(names)
		sig += ":" + strings.Join(names, "+")
	}
	return sig, fmt.Sprintf("faults %v; gedcom %s -> %s %s\n%s", c.Faults, strings.Join(c.Command.Args, " "), o.class, o.detail, document(set))
}

func main() {
	vlib.Main(&vlib.Check{
		ID:    "C14",
		Level: "exploration",
		Rule: "cases: the base document (couple with child, a source, a place) with every subset of <=k structural faults (k=2 quick, 3 thorough) out of " + fmt.Sprint(len(faults)) + " (references to missing / wrong-kind records, empty and '@' role values, missing / partial names, own parent / own spouse, duplicate pointers, empty family, untitled source, four classes of bad dates, odd surnames, FAMS/FAMC nowhere, a living person, a place of commas), each accepted by the decoder, x every command configuration: warnings; publish x living {show,hide,placeholder} x page-group switch sets x jobs {1,2}; diff against itself and the clean base x show(3) x sort(2) x jobs {1,2}; 20 queries x 5 formats. The built binary is executed. " +
			"Non-trivial = runs on a document with >=1 fault; distinct by (faults, command line).",
		Assumptions: []string{
			"exit status 0, or 1 with an ERROR: line, is a proper end; 'panic:', 'fatal error:' or a goroutine dump on stderr is a crash; 20 s without exit is a hang (the commands take ~10 ms)",
			"quick tier uses 8 of the 64 page-group switch sets (none, all, each single one); thorough uses all 64",
			"quick tier: files with two faults run the reduced command set (query results in json and csv only, publishing with one job); the full set runs on the base document and every single fault, and on everything in the thorough tier",
			"crash signatures carry the command kind, the innermost repository frame, the message class and the minimal fault subset that reproduces it",
		},
		Plan:       plan,
		Run:        run,
		Replay:     replay,
		MaxWorkers: 16,
		// which page crashes first depends on map order and goroutine timing: a replay that crashes in the same command kind confirms the finding
		SameFinding: func(found, replayed string) bool {
			cut := func(s string) string {
				p := strings.SplitN(s, ":", 3)
				if len(p) >= 2 {
					return p[0] + ":" + p[1]
				}
				return s
			}
			return cut(found) == cut(replayed)
		},
		MinRepro: 1,
		Required: func(string) []string {
			req := []string{"outcome:ok", "command:warnings", "command:diff", "command:publish-hide", "command:query-html"}
			for _, f := range faults {
				req = append(req, "fault:"+f.Name)
			}
			return req
		},
		Deadline: func(tier string) time.Duration {
			if tier == "thorough" {
				return 25 * time.Minute
			}
			return 12 * time.Minute
		},
	})
}
