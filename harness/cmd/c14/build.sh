#!/bin/bash
set -eu
export GOFLAGS=-mod=mod GOPROXY=off GOSUMDB=off GOTOOLCHAIN=local
V="${VERIF_DIR:-/verif}"
R="${VERIF_REPO:-/repo}"
(cd "$R" && go build -o "$V/.build/gedcom-bin" ./cmd/gedcom)
(cd "$V/harness" && go build -o "$1" ./cmd/c14)
