#!/bin/bash
set -eu
export GOFLAGS=-mod=mod GOPROXY=off GOSUMDB=off GOTOOLCHAIN=local
V="${VERIF_DIR:-/verif}"
R="${VERIF_REPO:-/repo}"
mkdir -p "$V/.build"
# the real command-line binary (uninstrumented) for the cli cases
(cd "$R" && go build -o "$V/.build/gedcom-bin-c19" ./cmd/gedcom)
exec "$(dirname "$0")/../../e1/build.sh" c19 "$1"
