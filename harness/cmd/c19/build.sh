#!/bin/bash
exec "$(dirname "$0")/../../e1/build.sh" c19 "$1"
