// C19 — publishing yields a closed, confined, deterministic set of files.
//
//	names:     documents (incl. hostile pointers and colliding keys) x all 64 page-group subsets x 3 visibilities: plain unique names, closed links, DirectoryFileWriter confinement
//	schedules: the real, instrumented Publisher.Publish under the vsched scheduler: every schedule with <=d deviations, x jobs, compared with the sequential reference; race monitor
//	histories: every sequence of <=3 publishes in one process must equal the document published alone in a fresh process
//	faults:    the writer fails at the k-th file for every k, x jobs (and x schedules on the tiny document)
package main

import (
	"crypto/sha256"
	"encoding/hex"
	"encoding/json"
	"flag"
	"fmt"
	"os"
	"os/exec"
	"path/filepath"
	"sort"
	"strconv"
	"strings"
	"time"

	"github.com/elliotchance/gedcom/v39"
	ghtml "github.com/elliotchance/gedcom/v39/html"
	"github.com/elliotchance/gedcom/v39/html/core"
	"github.com/elliotchance/gedcom/v39/vsched"
	"verif/harness/pub"
	"verif/harness/vlib"
)

func dead(ptr, name, birth, place string, extra ...string) string {
	s := fmt.Sprintf("0 @%s@ INDI\n1 NAME %s\n1 SEX M\n1 BIRT\n2 DATE %s\n", ptr, name, birth)
	if place != "" {
		s += "2 PLAC " + place + "\n"
	}
	s += "1 DEAT\n2 DATE 1 Jan 1890\n"
	for _, e := range extra {
		s += e + "\n"
	}
	return s
}

var docs = map[string]string{
	"empty": "",
	"D1":    dead("I1", "Adam /Ash/", "1 Jan 1800", "Oldtown, England", "2 SOUR @S1@") + "0 @S1@ SOUR\n1 TITL Register\n",
	"D2": dead("I1", "Adam /Ash/", "1 Jan 1800", "Sharedtown, England", "1 FAMS @F1@") + dead("I2", "Beth /Birch/", "2 Feb 1802", "Sharedtown, England", "1 FAMS @F1@") +
		"0 @F1@ FAM\n1 HUSB @I1@\n1 WIFE @I2@\n1 MARR\n2 DATE 1 Jun 1825\n0 @S1@ SOUR\n1 TITL Register\n",
	// the pointers of D2 reused for other people
	"D4": dead("I1", "Carl /Cole/", "3 Mar 1810", "Elsewhere, Wales", "1 FAMS @F1@") + dead("I2", "Dora /Dunn/", "4 Apr 1812", "Elsewhere, Wales", "1 FAMS @F1@") +
		"0 @F1@ FAM\n1 HUSB @I1@\n1 WIFE @I2@\n0 @S1@ SOUR\n1 TITL Other register\n",
	// hostile: source pointers that are paths, people whose names collapse to one key, a person whose key equals a place key, a place named like a list page, odd surnames
	"D3": dead("I1", "John /Smith/", "1 Jan 1800", "Individuals A", "2 SOUR @../x@") + dead("I2", "John! /Smith?/", "2 Feb 1802", "John Smith", "2 SOUR @a/b@") +
		dead("I3", "Places", "3 Mar 1803", "places", "2 SOUR @places@") + dead("I4", "Num /1st/", "4 Apr 1804", "", "2 SOUR @x y@") + dead("I5", "Hash /#tag/", "5 May 1805", "") + dead("I6", "Acc /Éclair/", "6 Jun 1806", "") +
		"0 @../x@ SOUR\n1 TITL Dotdot\n0 @a/b@ SOUR\n1 TITL Slash\n0 @places@ SOUR\n1 TITL Places\n0 @x y@ SOUR\n1 TITL Space\n0 @.@ SOUR\n1 TITL Dot\n0 @..@ SOUR\n1 TITL DotDot\n",
	// hostile places and names: path characters in places and given names, dots, non-ASCII initials
	"D5": dead("I1", "Élise /Éluard/", "1 Jan 1800", "../escaped") + dead("I2", "Ōta /Ōta/", "2 Feb 1802", "N/A, Nowhere") + dead("I3", "Иван /Жуков/", "3 Mar 1803", "Paris/Île-de-France") +
		dead("I4", ".. /../", "4 Apr 1804", "a\\b") + dead("I5", ". /./", "5 May 1805", ".") + dead("I6", "Dot.Name /St. Ives/", "6 Jun 1806", "..") + dead("I7", "C:\\Temp /x:y/", "7 Jul 1807", "C:\\Temp, x?y=z&w") +
		dead("I8", "Per%2Fcent /%2e%2e/", "8 Aug 1808", "%2e%2e%2fup"),
	// first and last letters of the index; several events of one kind at one place in one year (orderings that tie easily)
	"D6": dead("I1", "Aaron /Abbott/", "1 Jan 1800", "Tietown, England", "1 RESI", "2 DATE 3 Mar 1841", "2 PLAC Tietown, England", "1 RESI", "2 DATE 9 Sep 1841", "2 PLAC Tietown, England", "1 RESI", "2 DATE 1841", "2 PLAC Tietown, England", "1 FAMS @F1@", "1 FAMS @F2@") +
		dead("I2", "Zoe /Zimmer/", "2 Feb 1802", "Tietown, England", "1 FAMS @F1@") + dead("I3", "Zelda /zola/", "3 Mar 1803", "Tietown, England", "1 FAMS @F2@") + dead("I4", "Yan /Young/", "4 Apr 1830", "Tietown, England", "1 FAMC @F1@") +
		dead("I5", "John /Smith/ Jr.", "5 May 1840", "") + dead("I6", "John /Smith/ Jr", "6 Jun 1841", "") + dead("I7", "-John /Smith/-", "7 Jul 1842", "") +
		"0 @F1@ FAM\n1 HUSB @I1@\n1 WIFE @I2@\n1 CHIL @I4@\n1 MARR\n2 DATE 5 May 1825\n2 PLAC Tietown, England\n0 @F2@ FAM\n1 HUSB @I1@\n1 WIFE @I3@\n1 MARR\n2 DATE 6 Jun 1825\n2 PLAC Tietown, England\n",
}

func init() {
	// a family with one living member (born thirty years ago) who has a surname and a place of her own: the
	// only document on which the three visibilities give three different sites
	y := time.Now().Year() - 30
	docs["D7"] = dead("I1", "Adam /Ash/", "1 Jan 1800", "Sharedtown, England", "1 FAMS @F1@", "1 FAMS @F2@") + dead("I2", "Beth /Birch/", "2 Feb 1802", "Sharedtown, England", "1 FAMS @F1@", "1 FAMS @F3@") +
		fmt.Sprintf("0 @I3@ INDI\n1 NAME Liv /Lively/\n1 SEX F\n1 BIRT\n2 DATE 1 Jan %d\n2 PLAC Livtown, Norway\n1 FAMC @F1@\n", y) +
		"0 @F1@ FAM\n1 HUSB @I1@\n1 WIFE @I2@\n1 CHIL @I3@\n1 MARR\n2 DATE 1 Jun 1825\n" +
		// incomplete families: the "nobody there" branches of the cached Husband() and Wife()
		"0 @F2@ FAM\n1 HUSB @I1@\n0 @F3@ FAM\n1 WIFE @I2@\n0 @S1@ SOUR\n1 TITL Register\n"
}

// hostile: name collisions and their dangling links are a known weakness on the documents built to
// provoke them; the same finding on an ordinary document is another matter, so the document class
// is part of the signature.
func hostile(doc string) string {
	if doc == "D3" || doc == "D5" {
		return ":hostile-document-" + doc
	}
	return ""
}

func tail(s string, n int) string {
	if len(s) > n {
		return s[len(s)-n:]
	}
	return s
}

func decode(name string) *gedcom.Document {
	text, ok := docs[name]
	if strings.HasPrefix(name, "text:") { // a document given by its text (the state of an edited document)
		text, ok = name[5:], true
	}
	_ = ok
	d, err := gedcom.NewDocumentFromString(text)
	if err != nil {
		panic(err)
	}
	return d
}

func vis(s string) ghtml.LivingVisibility {
	switch s {
	case "hide":
		return ghtml.LivingVisibilityHide
	case "placeholder":
		return ghtml.LivingVisibilityPlaceholder
	}
	return ghtml.LivingVisibilityShow
}

type site map[string]string // name -> sha256(body) ("PANIC:" + message for crashed pages)

func siteOf(w *pub.MemWriter) (site, []string) {
	s := site{}
	var dups []string
	for _, p := range w.Pages {
		v := p.Body
		if p.Panic != "" {
			v = "PANIC:" + p.Panic
		}
		h := sha256.Sum256([]byte(v))
		if _, dup := s[p.Name]; dup {
			dups = append(dups, p.Name)
		}
		s[p.Name] = hex.EncodeToString(h[:8])
	}
	return s, dups
}

func (s site) key() string {
	var n []string
	for k, v := range s {
		n = append(n, k+"="+v)
	}
	sort.Strings(n)
	return strings.Join(n, ";")
}

func diffSites(a, b site) string {
	var out []string
	for k, v := range a {
		if w, ok := b[k]; !ok {
			out = append(out, "only in first: "+k)
		} else if v != w {
			out = append(out, "content differs: "+k)
		}
	}
	for k := range b {
		if _, ok := a[k]; !ok {
			out = append(out, "only in second: "+k)
		}
	}
	sort.Strings(out)
	if len(out) > 6 {
		out = append(out[:6], "...")
	}
	return strings.Join(out, "; ")
}

type kase struct {
	Part   string       `json:"part"`
	Doc    string       `json:"doc,omitempty"`
	Seq    []string     `json:"sequence,omitempty"`
	Mask   int          `json:"mask"`
	Living string       `json:"living"`
	Jobs   int          `json:"jobs"`
	FailAt int          `json:"fail_at,omitempty"`
	Keeps  bool         `json:"keeps_failing,omitempty"` // every call from the FailAt-th on fails
	Devs   []vsched.Dev `json:"schedule,omitempty"`
	MapRev bool         `json:"map_reverse,omitempty"`
	Bound  int          `json:"bound,omitempty"`
	CLI    bool         `json:"cli,omitempty"`            // names: through the built `gedcom publish` command
	Shared bool         `json:"shared_options,omitempty"` // histories: one options struct for all publishings
	RealDir bool        `json:"real_directory,omitempty"` // schedules: the real DirectoryFileWriter into a scratch directory (file-system operations are scheduling points)
	Edit   string       `json:"edit,omitempty"`           // histories: publish Seq[0], edit that document object through the API, publish it again with a new Publisher
	Twin   string       `json:"twin,omitempty"`           // histories: two publishers of ONE document object, both constructed before either publishes; the other one's visibility
}

var cliBinary = filepath.Join(vlib.VerifDir, ".build", "gedcom-bin-c19")

type finding struct{ sig, what string }

func pageClass(name string) string {
	switch {
	case strings.HasPrefix(name, "individuals-"):
		return "individual-list"
	case name == "surnames.html", name == "places.html", name == "families.html", name == "sources.html", name == "statistics.html":
		return strings.TrimSuffix(name, ".html")
	}
	return "detail-page"
}

// ---------- names and closure ----------

var fullNames = map[string]map[string]bool{}

// fullSiteNames: the file names of the same document with every page group on.
func fullSiteNames(k kase) map[string]bool {
	key := k.Doc + "|" + k.Living
	if m, ok := fullNames[key]; ok {
		return m
	}
	ghtml.VerifResetSurnames()
	w, _ := pub.Publish(decode(k.Doc), pub.Options(63, vis(k.Living)), 1, 0)
	m := map[string]bool{}
	for _, p := range w.Pages {
		m[p.Name] = true
	}
	fullNames[key] = m
	return m
}

var groupNames = map[string]map[string]string{}

// groupOf: the page group (individuals, places, ...) that generates the file, found by publishing the
// document with each group switched on alone.
func groupOf(k kase, target string) string {
	key := k.Doc + "|" + k.Living
	m, ok := groupNames[key]
	if !ok {
		m = map[string]string{}
		for g, name := range pub.Groups {
			ghtml.VerifResetSurnames()
			w, _ := pub.Publish(decode(k.Doc), pub.Options(1<<uint(g), vis(k.Living)), 1, 0)
			for _, p := range w.Pages {
				if _, dup := m[p.Name]; !dup {
					m[p.Name] = name
				}
			}
		}
		groupNames[key] = m
	}
	if g, ok := m[target]; ok {
		return g
	}
	return "unknown-group"
}

func judgeNames(k kase) (fs []finding) {
	add := func(sig, what string) {
		for _, f := range fs {
			if f.sig == sig {
				return
			}
		}
		fs = append(fs, finding{sig, what})
	}
	ghtml.VerifResetSurnames() // every names case starts from the state of a fresh process
	var w *pub.MemWriter
	var err error
	if k.CLI {
		var refused bool
		var msg string
		w, refused, msg = pub.CLIPublish(cliBinary, docs[k.Doc], k.Living, k.Mask, k.Jobs)
		if refused {
			add("cli:publish-fails", msg)
			return
		}
	} else {
		w, err = pub.Publish(decode(k.Doc), pub.Options(k.Mask, vis(k.Living)), k.Jobs, 0)
	}
	if err != nil {
		add("publish-returns-error", err.Error())
	}
	names := map[string]int{}
	for _, p := range w.Pages {
		names[p.Name]++
		switch {
		case p.Name == "" || p.Name == "." || p.Name == "..":
			add("file-name-not-plain:dot-or-empty", fmt.Sprintf("file name %q", p.Name))
		case strings.ContainsAny(p.Name, "/\\"):
			add("file-name-not-plain:path-separator", fmt.Sprintf("file name %q leaves the output directory or names a sub-directory", p.Name))
		case strings.ContainsAny(p.Name, "\x00"):
			add("file-name-not-plain:nul", p.Name)
		}
	}
	for n, c := range names {
		if c > 1 {
			add("two-pages-share-a-name:"+pageClass(n)+hostile(k.Doc), fmt.Sprintf("%d files are named %q (doc %s)", c, n, k.Doc))
		}
	}
	for _, p := range w.Pages {
		if p.Panic != "" {
			add("page-panics:"+pageClass(p.Name)+":"+vlib.MsgClass(p.Panic), fmt.Sprintf("%s: %s", p.Name, p.Panic))
			continue
		}
		toks, terr := pub.Tokenize(p.Body)
		if terr != nil {
			continue // C18
		}
		for _, l := range pub.Links(toks) {
			target := l
			if i := strings.Index(target, "#"); i >= 0 {
				target = target[:i]
			}
			if target == "" || strings.HasPrefix(target, "http://") || strings.HasPrefix(target, "https://") || strings.HasPrefix(target, "//") {
				continue
			}
			if _, ok := names[target]; !ok {
				if k.Mask != 63 && fullSiteNames(k)[target] {
					add("dangling-link:to-page-of-a-disabled-group:"+pageClass(p.Name)+"->"+groupOf(k, target), fmt.Sprintf("%s links to %q, a page of a group that is switched off (doc %s, mask %d, %s)", p.Name, l, k.Doc, k.Mask, k.Living))
					continue
				}
				kind := "other"
				switch {
				case strings.HasPrefix(target, "individuals-"):
					kind = "individual-list"
				case strings.HasSuffix(target, ".html"):
					kind = "page"
				}
				add("dangling-link:"+pageClass(p.Name)+"->"+kind+hostile(k.Doc), fmt.Sprintf("%s links to %q which is not a generated file (doc %s, mask %d, %s)", p.Name, l, k.Doc, k.Mask, k.Living))
			}
		}
	}
	// confinement through the real DirectoryFileWriter, once per configuration of the full site
	if k.Mask == 63 && !k.CLI {
		root, _ := os.MkdirTemp("/dev/shm", "c19-")
		defer os.RemoveAll(root)
		out := filepath.Join(root, "site", "out")
		os.MkdirAll(out, 0o755)
		dw := core.NewDirectoryFileWriter(out)
		func() {
			defer func() { recover() }()
			ghtml.NewPublisher(decode(k.Doc), pub.Options(k.Mask, vis(k.Living))).Publish(dw, 1)
		}()
		filepath.Walk(root, func(path string, fi os.FileInfo, err error) error {
			if err != nil || fi.IsDir() {
				return nil
			}
			if rel, _ := filepath.Rel(out, path); strings.HasPrefix(rel, "..") || strings.Contains(rel, string(filepath.Separator)) {
				add("file-written-outside-output-directory", fmt.Sprintf("DirectoryFileWriter created %s (output directory %s)", path, out))
			}
			return nil
		})
		// earlier publishing into the same directory: another site is published first, then this
		// document over it; every file of this document must hold exactly this document's page
		// (not on the hostile documents: with colliding place keys which place gets the page follows map
		// order - the known collision findings - and the comparison would alarm at random)
		if k.Living == "show" && len(w.Pages) > 0 && hostile(k.Doc) == "" {
			other := "D2"
			if k.Doc == "D2" {
				other = "D6"
			}
			dir2 := filepath.Join(root, "again")
			os.MkdirAll(dir2, 0o755)
			func() {
				defer func() { recover() }()
				ghtml.NewPublisher(decode(other), pub.Options(k.Mask, vis(k.Living))).Publish(core.NewDirectoryFileWriter(dir2), 1)
				ghtml.NewPublisher(decode(k.Doc), pub.Options(k.Mask, vis(k.Living))).Publish(core.NewDirectoryFileWriter(dir2), 1)
			}()
			for _, p := range w.Pages {
				if p.Panic != "" || strings.ContainsAny(p.Name, "/\\") || names[p.Name] > 1 {
					continue
				}
				b, err := os.ReadFile(filepath.Join(dir2, p.Name))
				if err == nil && string(b) != p.Body {
					add("file-content-depends-on-earlier-publishing-into-the-directory:"+pageClass(p.Name), fmt.Sprintf("%s published over a directory that held the site of %s: file %s has %d bytes, the page has %d (tail: %q)", k.Doc, other, p.Name, len(b), len(p.Body), tail(string(b), 60)))
					break
				}
			}
		}
	}
	return
}

// ---------- schedules (E1) ----------

func execPublish(k kase, devs []vsched.Dev) (*vsched.Outcome, *pub.MemWriter, error, bool) {
	doc := decode(k.Doc)
	opt := pub.Options(k.Mask, vis(k.Living))
	w := &pub.MemWriter{FailAt: k.FailAt, KeepsFailing: k.Keeps}
	var err error
	returned := false
	ghtml.VerifResetSurnames() // every execution starts from the state of a fresh process
	if k.RealDir {
		// the writer the command line uses, into a fresh scratch directory; what is on disk afterwards is the site
		dir, derr := os.MkdirTemp(scratchRoot(), "c19-sched-")
		if derr != nil {
			panic(derr)
		}
		defer os.RemoveAll(dir)
		fw := core.NewDirectoryFileWriter(dir)
		out := vsched.Run(vsched.Config{Prefix: vsched.PrefixOf(devs), MapOrderReverse: k.MapRev, Horizon: 200000}, func() {
			err = ghtml.NewPublisher(doc, opt).Publish(fw, k.Jobs)
			returned = true
		})
		entries, _ := os.ReadDir(dir)
		for i, e := range entries {
			b, _ := os.ReadFile(filepath.Join(dir, e.Name()))
			w.Pages = append(w.Pages, pub.Page{Name: e.Name(), Body: string(b), Seq: i + 1})
		}
		return out, w, err, returned
	}
	out := vsched.Run(vsched.Config{Prefix: vsched.PrefixOf(devs), MapOrderReverse: k.MapRev, Horizon: 200000}, func() {
		err = ghtml.NewPublisher(doc, opt).Publish(w, k.Jobs)
		returned = true
	})
	return out, w, err, returned
}

func scratchRoot() string {
	if st, err := os.Stat("/dev/shm"); err == nil && st.IsDir() {
		return "/dev/shm"
	}
	return os.TempDir()
}

func judgeExecution(k kase, ref site, out *vsched.Outcome, w *pub.MemWriter, err error, returned bool) (fs []finding) {
	add := func(sig, what string) { fs = append(fs, finding{sig, what}) }
	switch {
	case out.Diverged != "":
		add("INTERNAL:replay-diverged", out.Diverged)
		return
	case out.Horizon:
		add("INTERNAL:horizon", "")
		return
	case out.Deadlock:
		add("deadlock", "Publish does not return: "+strings.Join(out.Leaked, "; "))
	case out.Livelock:
		add("livelock", strings.Join(out.Leaked, "; "))
	case out.DriverPanic != "":
		add("panic:driver:"+vlib.MsgClass(out.DriverPanic), out.DriverPanic)
	}
	for _, p := range out.ThreadPanics {
		add("panic:goroutine:"+vlib.MsgClass(p), p)
	}
	for _, r := range out.Races {
		add("race:"+r.Var, r.String())
	}
	if !returned {
		return
	}
	if k.FailAt > 0 {
		total := pageCount(k)
		if k.FailAt <= total {
			if err == nil {
				add("writer-failure-not-reported", fmt.Sprintf("the writer failed at file %d of %d but Publish returned nil (jobs %d)", k.FailAt, total, k.Jobs))
			}
		} else if err != nil {
			add("error-without-failure", err.Error())
		}
		return
	}
	if err != nil {
		add("publish-returns-error", err.Error())
	}
	got, dups := siteOf(w)
	if len(dups) > 0 {
		add("file-written-twice", strings.Join(dups, ","))
	}
	if got.key() != ref.key() {
		add("site-differs-from-sequential:"+firstClass(diffSites(ref, got)), fmt.Sprintf("jobs %d: %s", k.Jobs, diffSites(ref, got)))
	}
	if len(out.Leaked) > 0 {
		add("goroutine-left-behind", strings.Join(out.Leaked, "; "))
	}
	return
}

// diffClasses names the page classes whose content or presence differs.
func diffClasses(a, b site) string {
	set := map[string]bool{}
	for k, v := range a {
		if w, ok := b[k]; !ok || v != w {
			set[pageClass(k)] = true
		}
	}
	for k := range b {
		if _, ok := a[k]; !ok {
			set[pageClass(k)] = true
		}
	}
	var out []string
	for c := range set {
		out = append(out, c)
	}
	sort.Strings(out)
	return strings.Join(out, "+")
}

func firstClass(diff string) string {
	parts := strings.Split(diff, "; ")
	if len(parts) == 0 || parts[0] == "" {
		return "?"
	}
	p := strings.SplitN(parts[0], ": ", 2)
	if len(p) < 2 {
		return "?"
	}
	return strings.ReplaceAll(p[0], " ", "-") + ":" + pageClass(p[1])
}

var pageCounts = map[string]int{}

// pageCount: number of files the fault-free sequential run hands to the writer.
func pageCount(k kase) int {
	key := fmt.Sprintf("%s|%d|%s", k.Doc, k.Mask, k.Living)
	if n, ok := pageCounts[key]; ok {
		return n
	}
	w, _ := pub.Publish(decode(k.Doc), pub.Options(k.Mask, vis(k.Living)), 1, 0)
	pageCounts[key] = len(w.Pages)
	return len(w.Pages)
}

func reference(k kase) site {
	rk := k
	rk.Jobs, rk.FailAt = 1, 0
	ghtml.VerifResetSurnames()
	w, _ := pub.Publish(decode(rk.Doc), pub.Options(rk.Mask, vis(rk.Living)), 1, 0)
	s, _ := siteOf(w)
	return s
}

// ---------- histories ----------

// alone publishes one document in a fresh process and returns its site.
var aloneCache = map[string]site{}

func alone(doc string, mask int, living string) site {
	key := fmt.Sprintf("%s|%d|%s", doc, mask, living)
	if s, ok := aloneCache[key]; ok {
		return s
	}
	out, err := exec.Command(os.Args[0], "--alone", key).Output()
	if err != nil {
		panic(fmt.Sprintf("alone %s: %v", key, err))
	}
	s := site{}
	if e := json.Unmarshal(out, &s); e != nil {
		panic(e)
	}
	aloneCache[key] = s
	return s
}

// judgeHistory runs the sequence in a fresh process (process-wide state left by
// other cases of this worker must not leak into it).
func judgeHistory(k kase) (fs []finding) {
	b, _ := json.Marshal(k)
	out, err := exec.Command(os.Args[0], "--history", string(b)).Output()
	if err != nil {
		return []finding{{"history-process-died:" + vlib.MsgClass(err.Error()), fmt.Sprintf("%v: %s", err, out)}}
	}
	var raw [][2]string
	json.Unmarshal(out, &raw)
	for _, f := range raw {
		fs = append(fs, finding{f[0], f[1]})
	}
	return
}

// docEdits: changes made through the API to a document that has already been published once.
var docEdits = map[string]func(d *gedcom.Document){
	"add-individual-with-place": func(d *gedcom.Document) {
		i := d.AddIndividual("I77", gedcom.NewNameNode("Nova /Newcomer/"))
		i.AddNode(gedcom.NewNode(gedcom.TagBirth, "", "", gedcom.NewDateNode("4 Apr 1844"), gedcom.NewNode(gedcom.TagPlace, "Newplace, Nowhere", "")))
	},
	"add-living-individual-with-place": func(d *gedcom.Document) {
		i := d.AddIndividual("I78", gedcom.NewNameNode("Liv /Lately/"))
		i.AddNode(gedcom.NewNode(gedcom.TagBirth, "", "", gedcom.NewDateNode("4 Apr 2015"), gedcom.NewNode(gedcom.TagPlace, "Secretplace, Nowhere", "")))
	},
	"add-event-with-place": func(d *gedcom.Document) {
		if is := d.Individuals(); len(is) > 0 {
			is[0].AddNode(gedcom.NewNode(gedcom.TagResidence, "", "", gedcom.NewDateNode("5 May 1855"), gedcom.NewNode(gedcom.TagPlace, "Otherplace, Nowhere", "")))
		}
	},
	"rename-first": func(d *gedcom.Document) {
		if is := d.Individuals(); len(is) > 0 {
			for _, n := range is[0].Names() {
				is[0].DeleteNode(n)
			}
			is[0].AddName("Renamed /Person/")
		}
	},
	"delete-first-individual": func(d *gedcom.Document) {
		if is := d.Individuals(); len(is) > 0 {
			d.DeleteNode(is[0])
		}
	},
	"delete-death-of-first": func(d *gedcom.Document) {
		if is := d.Individuals(); len(is) > 0 {
			gedcom.DeleteNodesWithTag(is[0], gedcom.TagDeath)
			gedcom.DeleteNodesWithTag(is[0], gedcom.TagBurial)
		}
	},
	"add-family": func(d *gedcom.Document) {
		if is := d.Individuals(); len(is) > 1 {
			d.AddFamilyWithHusbandAndWife("F77", is[len(is)-1], is[0])
		}
	},
}
var docEditNames = []string{"add-individual-with-place", "add-living-individual-with-place", "add-event-with-place", "rename-first", "delete-first-individual", "delete-death-of-first", "add-family"}

func judgeHistoryHere(k kase) (fs []finding) {
	if k.Edit != "" {
		d := k.Seq[0]
		doc := decode(d)
		for step := 0; step < 2; step++ {
			if step == 1 {
				docEdits[k.Edit](doc)
			}
			text := doc.String()
			w, err := pub.Publish(doc, pub.Options(k.Mask, vis(k.Living)), k.Jobs, 0)
			if err != nil {
				fs = append(fs, finding{"publish-returns-error", err.Error()})
			}
			if doc.String() != text {
				fs = append(fs, finding{"publish-modifies-document", d})
			}
			got, _ := siteOf(w)
			want := alone("text:"+text, k.Mask, k.Living)
			if got.key() != want.key() {
				when := "before the edit"
				if step == 1 {
					when = "published, then edited through the API (" + k.Edit + ") and published again with a new Publisher"
				}
				fs = append(fs, finding{"site-depends-on-earlier-publishing:edited-document:" + diffClasses(want, got), fmt.Sprintf("%s (-living %s) %s differs from its present text published alone in a fresh process: %s", d, k.Living, when, diffSites(want, got))})
				return
			}
		}
		return
	}
	if k.Twin != "" {
		// a private and a public site of the same document object (the way a program that keeps a document in
		// memory publishes it twice): both publishers exist before the first one publishes
		d := k.Seq[0]
		doc := decode(d)
		livings := []string{k.Twin, k.Living}
		var ps []*ghtml.Publisher
		for _, l := range livings {
			ps = append(ps, ghtml.NewPublisher(doc, pub.Options(k.Mask, vis(l))))
		}
		for i, p := range ps {
			w := &pub.MemWriter{}
			if err := p.Publish(w, k.Jobs); err != nil {
				fs = append(fs, finding{"publish-returns-error", err.Error()})
			}
			got, _ := siteOf(w)
			want := alone(d, k.Mask, livings[i])
			if got.key() != want.key() {
				fs = append(fs, finding{"site-depends-on-earlier-publishing:publishers-constructed-first:" + diffClasses(want, got), fmt.Sprintf("%s (-living %s) published by the %d. of two publishers constructed together (the other: -living %s) differs from publishing it alone in a fresh process: %s", d, livings[i], i+1, livings[1-i], diffSites(want, got))})
				return
			}
		}
		return
	}
	shared := pub.Options(k.Mask, vis(k.Living))
	for i, d := range k.Seq {
		doc := decode(d)
		before := doc.String()
		opt := pub.Options(k.Mask, vis(k.Living))
		if k.Shared {
			opt = shared // the caller's one options value, used for every publishing
		}
		w, err := pub.Publish(doc, opt, k.Jobs, 0)
		if err != nil {
			fs = append(fs, finding{"publish-returns-error", err.Error()})
		}
		if doc.String() != before {
			fs = append(fs, finding{"publish-modifies-document", d})
		}
		got, _ := siteOf(w)
		want := alone(d, k.Mask, k.Living)
		if got.key() != want.key() {
			prev := "nothing"
			if i > 0 {
				prev = strings.Join(k.Seq[:i], ",")
			}
			fs = append(fs, finding{"site-depends-on-earlier-publishing:" + diffClasses(want, got), fmt.Sprintf("%s published after %s differs from %s published alone in a fresh process: %s", d, prev, d, diffSites(want, got))})
			return
		}
	}
	return
}

// ---------- plan ----------

func bound(tier string) int {
	if tier == "thorough" {
		return 3
	}
	return 2
}

func units(tier string) []kase {
	var out []kase
	// names and closure
	for _, d := range []string{"D1", "D2", "D3", "D5", "D6", "D7", "empty"} {
		for _, living := range []string{"show", "hide", "placeholder"} {
			for mask := 0; mask < 64; mask++ {
				out = append(out, kase{Part: "names", Doc: d, Mask: mask, Living: living, Jobs: 1})
			}
		}
	}
	// schedules
	for _, d := range []string{"D1", "D2"} {
		for _, jobs := range []int{1, 2, 3} {
			b := bound(tier)
			if jobs == 3 || d == "D2" {
				b--
			}
			out = append(out, kase{Part: "schedules", Doc: d, Mask: 63, Living: "show", Jobs: jobs, Bound: b})
		}
		out = append(out, kase{Part: "schedules", Doc: d, Mask: 63, Living: "show", Jobs: 2, Bound: bound(tier) - 1, MapRev: true})
		out = append(out, kase{Part: "schedules", Doc: d, Mask: 9, Living: "placeholder", Jobs: 2, Bound: bound(tier) - 1})
		// the real directory writer: two and three workers creating, writing and closing files next to each other
		out = append(out, kase{Part: "schedules", Doc: d, Mask: 63, Living: "show", Jobs: 2, Bound: bound(tier) - 1, RealDir: true})
		out = append(out, kase{Part: "schedules", Doc: d, Mask: 63, Living: "show", Jobs: 3, Bound: bound(tier) - 1, RealDir: true})
		if tier == "thorough" {
			out = append(out, kase{Part: "schedules", Doc: d, Mask: 63, Living: "show", Jobs: 8, Bound: 1}, kase{Part: "schedules", Doc: d, Mask: 63, Living: "show", Jobs: 16, Bound: 1})
		}
	}
	// the document with a living member and incomplete families, all visibilities
	for _, living := range []string{"show", "hide", "placeholder"} {
		out = append(out, kase{Part: "schedules", Doc: "D7", Mask: 63, Living: living, Jobs: 2, Bound: bound(tier) - 1})
	}
	// Documents with a family are explored to one deviation in both tiers. With two deviations on D2 the explorer
	// stops with its hard error "replay-diverged" (a level-1 execution, run again as the prefix of a level-2
	// schedule, offers fewer alternatives at the second position): executions of the same schedule are not
	// reproducible point for point there, so nothing explored below them could be trusted. Found when the
	// thorough tier was run again at the end of the second session; the source is not identified yet (candidates: state that
	// survives between executions in one worker; the accessor mutexes became scheduling points with 87958ab).
	for i := range out {
		if out[i].Part == "schedules" && out[i].Doc != "D1" && out[i].Bound > 1 {
			out[i].Bound = 1
		}
	}
	// histories
	seqDocs := []string{"D1", "D2", "D4", "D6", "empty"}
	var seqs [][]string
	for _, a := range seqDocs {
		seqs = append(seqs, []string{a})
		for _, b := range seqDocs {
			seqs = append(seqs, []string{a, b})
			for _, c := range seqDocs {
				seqs = append(seqs, []string{a, b, c})
			}
		}
	}
	for _, s := range seqs {
		for _, jobs := range []int{1, 2} {
			out = append(out, kase{Part: "histories", Seq: s, Mask: 63, Living: "show", Jobs: jobs})
		}
		if len(s) == 2 {
			out = append(out, kase{Part: "histories", Seq: s, Mask: 63, Living: "show", Jobs: 1, Shared: true}, kase{Part: "histories", Seq: s, Mask: 63, Living: "hide", Jobs: 1, Shared: true})
		}
	}
	for _, d := range []string{"D2", "D6", "D7"} {
		for _, pair := range [][2]string{{"show", "hide"}, {"show", "placeholder"}, {"hide", "show"}, {"placeholder", "hide"}, {"show", "show"}} {
			for _, mask := range []int{63, 9} {
				out = append(out, kase{Part: "histories", Seq: []string{d}, Mask: mask, Living: pair[1], Jobs: 1, Twin: pair[0]})
			}
		}
	}
	// the same document object published, edited through the API and published again
	for _, d := range []string{"D2", "D6", "D7"} {
		for _, e := range docEditNames {
			for _, living := range []string{"show", "hide", "placeholder"} {
				out = append(out, kase{Part: "histories", Seq: []string{d}, Mask: 63, Living: living, Jobs: 1, Edit: e})
			}
			out = append(out, kase{Part: "histories", Seq: []string{d}, Mask: 63, Living: "hide", Jobs: 2, Edit: e})
			if tier == "thorough" {
				for _, mask := range []int{9, 62, 1} {
					for _, living := range []string{"show", "hide", "placeholder"} {
						out = append(out, kase{Part: "histories", Seq: []string{d}, Mask: mask, Living: living, Jobs: 3, Edit: e})
					}
				}
			}
		}
	}
	// names and closure through the command line
	for _, d := range []string{"D1", "D2", "D6"} {
		for _, living := range []string{"show", "hide", "placeholder"} {
			for _, mask := range []int{63, 62, 61, 59, 55, 1, 2, 4} {
				out = append(out, kase{Part: "names", Doc: d, Mask: mask, Living: living, Jobs: 1, CLI: true})
			}
		}
	}
	// faults: default schedule for every k and jobs; every schedule within the bound on D1
	for _, d := range []string{"D1", "D2", "D3"} {
		n := pageCount(kase{Doc: d, Mask: 63, Living: "show"})
		for _, jobs := range []int{1, 2, 3, 8} {
			for fa := 1; fa <= n+1; fa++ {
				b := 0
				if d == "D1" && jobs <= 2 {
					b = bound(tier) - 1
				}
				out = append(out, kase{Part: "faults", Doc: d, Mask: 63, Living: "show", Jobs: jobs, FailAt: fa, Bound: b})
				// the same with a writer that keeps failing from there on (several workers fail)
				if fa <= n {
					out = append(out, kase{Part: "faults", Doc: d, Mask: 63, Living: "show", Jobs: jobs, FailAt: fa, Keeps: true, Bound: b})
				}
			}
		}
	}
	return out
}

func plan(tier string) []string {
	var out []string
	for i, k := range units(tier) {
		n := 1
		if k.Part == "schedules" && k.Bound >= 2 {
			n = 8
		}
		for s := 0; s < n; s++ {
			out = append(out, fmt.Sprintf("u:%d:%d:%d", i, s, n))
		}
	}
	return out
}

func run(tier, unit string, r *vlib.Rec) {
	p := strings.Split(unit, ":")
	ui, _ := strconv.Atoi(p[1])
	shard, _ := strconv.Atoi(p[2])
	nsh, _ := strconv.Atoi(p[3])
	k := units(tier)[ui]
	r.Count("part:" + k.Part)
	report := func(fs []finding, c kase) {
		for _, f := range fs {
			if strings.HasPrefix(f.sig, "INTERNAL:") {
				r.Err = f.sig + " " + f.what + " case " + vlib.JSON(c)
				continue
			}
			r.Fail(f.sig, f.what, c)
		}
	}
	switch k.Part {
	case "names":
		r.Eval()
		r.Add("transitions", 1)
		if k.Mask != 0 && k.Doc != "empty" {
			r.Nontrivial(vlib.JSON(k))
		}
		report(judgeNames(k), k)
	case "histories":
		r.Eval()
		r.Add("transitions", int64(len(k.Seq)))
		if len(k.Seq) > 1 || k.Twin != "" || k.Edit != "" {
			r.Nontrivial(vlib.JSON(k))
		}
		report(judgeHistory(k), k)
	case "schedules", "faults":
		ref := reference(k)
		a, wa, _, _ := execPublish(k, nil)
		b, wb, _, _ := execPublish(k, nil)
		sa, _ := siteOf(wa)
		sb, _ := siteOf(wb)
		if a.TraceHash != b.TraceHash || sa.key() != sb.key() {
			r.Err = fmt.Sprintf("replay of the default schedule diverged for %+v (%d vs %d points)", k, len(a.Points), len(b.Points))
			return
		}
		var lw *pub.MemWriter
		var lerr error
		var lret bool
		states := map[uint64]bool{}
		st := vsched.Explore(vsched.ExploreOpts{Bound: k.Bound, Shard: shard, Shards: nsh, Deadline: r.DeadlineTime()},
			func(devs []vsched.Dev) *vsched.Outcome {
				out, w, err, ret := execPublish(k, devs)
				lw, lerr, lret = w, err, ret
				return out
			},
			func(devs []vsched.Dev, out *vsched.Outcome) bool {
				r.Eval()
				states[out.TraceHash] = true
				r.Add("accesses-monitored", out.Accesses)
				c := k
				c.Devs = append([]vsched.Dev{}, devs...)
				report(judgeExecution(k, ref, out, lw, lerr, lret), c)
				if r.WantSample() && len(devs) == k.Bound && k.Bound > 0 {
					r.Sample(map[string]interface{}{"case": c, "points": len(out.Points), "threads": out.Threads, "files": len(lw.Pages)})
				}
				return r.Err == ""
			})
		if st.Capped && r.Err == "" {
			r.Cap()
		}
		for h := range states {
			r.NontrivialHash(h)
		}
		r.Add("transitions", st.Transitions)
		r.Max("max-scheduling-points", int64(st.MaxPoints))
		r.Max("max-threads", int64(st.MaxThreads))
		for c, n := range st.ByCost {
			r.Add(fmt.Sprintf("executions-with-%d-deviations", c), n)
		}
		if len(vsched.QuietViolations) > 0 {
			r.Err = "quiet-map side condition broken: " + strings.Join(vsched.QuietViolations, "; ")
		}
	}
}

func replay(c json.RawMessage) (string, string) {
	var k kase
	json.Unmarshal(c, &k)
	var fs []finding
	switch k.Part {
	case "names":
		fs = judgeNames(k)
	case "histories":
		fs = judgeHistory(k)
	default:
		out, w, err, ret := execPublish(k, k.Devs)
		fs = judgeExecution(k, reference(k), out, w, err, ret)
	}
	var ss []string
	obs := fmt.Sprintf("case %+v\n", k)
	for _, f := range fs {
		ss = append(ss, f.sig)
		obs += f.sig + ": " + f.what + "\n"
	}
	return strings.Join(ss, "\x1f"), obs
}

func main() {
	// --alone <doc|mask|living>: publish one document in this (fresh) process and print its site
	for i, a := range os.Args {
		if a == "--alone" && i+1 < len(os.Args) {
			p := strings.Split(os.Args[i+1], "|")
			mask, _ := strconv.Atoi(p[1])
			w, _ := pub.Publish(decode(p[0]), pub.Options(mask, vis(p[2])), 1, 0)
			s, _ := siteOf(w)
			b, _ := json.Marshal(s)
			os.Stdout.Write(b)
			return
		}
	}
	for i, a := range os.Args {
		if a == "--history" && i+1 < len(os.Args) {
			var k kase
			json.Unmarshal([]byte(os.Args[i+1]), &k)
			var raw [][2]string
			for _, f := range judgeHistoryHere(k) {
				raw = append(raw, [2]string{f.sig, f.what})
			}
			b, _ := json.Marshal(raw)
			os.Stdout.Write(b)
			return
		}
	}
	_ = flag.CommandLine
	vlib.MaxCounter("max-scheduling-points")
	vlib.MaxCounter("max-threads")
	vlib.Main(&vlib.Check{
		ID:    "C19",
		Level: "model_checking",
		Rule: "four parts. names: documents D1 (one person, place, source), D2 (two people with different surnames, a shared place, a family, a source), D3 (hostile: source pointers '../x', 'a/b', 'places', 'x y', '.', '..'; two people whose names collapse to one file key; a person whose key equals a place key; a place named like a list page; surnames starting with a digit, '#', a multi-byte letter) and the empty document x all 64 page-group subsets x 3 visibilities: plain unique file names, every link resolves, DirectoryFileWriter confinement. " +
			"schedules: the real instrumented Publisher.Publish on D1/D2 under the vsched scheduler, jobs {1,2,3,(8,16)}, every schedule with <=d deviations, set of (name, bytes) equal to the sequential reference, race monitor, termination. histories: every sequence of <=3 publishes over {D1, D2, D4 (D2's pointers reused for other people), empty} in one process against the same document published alone in a fresh process. faults: the writer fails at the k-th file - once, and from there on (several workers fail) - for every k and jobs {1,2,3,8} (and under every schedule within the bound on D1): Publish must return an error and terminate. also: D7 (a family with one living member) in the names part; two publishers of one document object constructed before either publishes (visibility pairs); one document object published, edited through the API (7 edits: people, events with places, names, deaths, families added or removed) and published again with a new Publisher, against its present text published alone; the real DirectoryFileWriter into a scratch directory under the scheduler with file-system operations as scheduling points (jobs 2 and 3). " +
			"states = distinct global operation traces (schedules part) ; distinct_nontrivial counts those plus the distinct names/history cases.",
		Assumptions: []string{
			"Go map iteration inside the instrumented packages is replaced by sorted (or reverse-sorted, as a configuration) key order under exploration, so replay is deterministic; outside exploration Go's own order applies",
			"the order in which files reach the writer is not part of the oracle; the memory writer renders every page under recover",
			"goroutines left parked after a writer failure are reported as leaked, not as a hang of Publish",
		},
		// "identical across runs ... and earlier publishing": a difference between two publishings that comes
		// back in some replays and not in others is what these oracles forbid, not a reason to doubt them
		MinReproFor: func(sig string) int {
			if strings.HasPrefix(sig, "site-depends-on-earlier-publishing") || strings.HasPrefix(sig, "file-content-depends-on-earlier-publishing") {
				return 1
			}
			return 0
		},
		Plan:       plan,
		Run:        run,
		Replay:     replay,
		MaxWorkers: 16,
		Required: func(string) []string {
			return []string{"part:names", "part:schedules", "part:histories", "part:faults", "transitions", "accesses-monitored"}
		},
		Deadline: func(tier string) time.Duration {
			if tier == "thorough" {
				return 25 * time.Minute
			}
			return 12 * time.Minute
		},
		Finish: func(tier string, cov map[string]interface{}, c map[string]int64) {
			cov["states"] = cov["distinct_nontrivial"]
			cov["transitions"] = c["transitions"]
			cov["traces_validated_against_impl"] = cov["evaluations"]
		},
	})
}
