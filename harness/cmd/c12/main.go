// C12 — similarity scores are bounded, symmetric and maximal on identity.
package main

import (
	"encoding/json"
	"fmt"
	"math"
	"sort"
	"strconv"
	"strings"
	"time"

	"github.com/elliotchance/gedcom/v39"
	"verif/harness/gen"
	"verif/harness/ref"
	"verif/harness/vlib"
)

const symTol = 1e-12

type kase struct {
	Space string   `json:"space"`
	A     string   `json:"a"`
	B     string   `json:"b"`
	Args  []string `json:"args,omitempty"`
}

func stringsOver(alpha string, maxLen int) []string {
	out := []string{""}
	rs := []rune(alpha)
	for l := 1; l <= maxLen; l++ {
		tot := gen.Pow(len(rs), l)
		for i := int64(0); i < tot; i++ {
			ds := gen.Digits(i, len(rs), l)
			var sb strings.Builder
			for _, d := range ds {
				sb.WriteRune(rs[d])
			}
			out = append(out, sb.String())
		}
	}
	return out
}

func inRange(v float64) bool { return v >= 0 && v <= 1 && !math.IsNaN(v) }

// ---------- strings ----------

var prefixSizes = []int{0, 4, 8, 10}
var boosts = []float64{0, 0.7}

func judgeString(fn string, a, b string, boost float64, prefix int) (sig, what string) {
	f := gedcom.JaroWinkler
	if fn == "StringSimilarity" {
		f = gedcom.StringSimilarity
	}
	var x, y float64
	if p, msg, frame := vlib.Try(func() { x, y = f(a, b, boost, prefix), f(b, a, boost, prefix) }); p {
		return "panic:" + fn + ":" + frame + ":" + vlib.MsgClass(msg), fmt.Sprintf("%s(%q,%q,%v,%d): %s", fn, a, b, boost, prefix, msg)
	}
	d := fmt.Sprintf("%s(%q,%q,boost=%v,prefix=%d)=%v, swapped=%v", fn, a, b, boost, prefix, x, y)
	if !inRange(x) {
		return fn + ":out-of-range", d
	}
	if math.Abs(x-y) > symTol {
		return fn + ":asymmetric", d
	}
	if a == b && a != "" {
		norm := a
		if fn == "StringSimilarity" {
			norm = normName(a)
		}
		if norm != "" && x != 1 {
			return fn + ":identical-not-1", d
		}
	}
	return "", ""
}

// normName mirrors the documented cleaning (lower-case, letters/digits/spaces only, spaces collapsed).
func normName(s string) string {
	var sb strings.Builder
	for _, r := range strings.ToLower(s) {
		if (r >= 'a' && r <= 'z') || (r >= '0' && r <= '9') || r == ' ' {
			sb.WriteRune(r)
		}
	}
	return strings.Join(strings.Fields(sb.String()), " ")
}

// ---------- dates ----------

func dateValues() []string {
	var out []string
	for n := ref.DayNumber(2000, 1, 1); n <= ref.DayNumber(2000, 12, 31); n += 1 {
		y, m, d := ref.FromDayNumber(n)
		out = append(out, fmt.Sprintf("%d %s %d", d, ref.MonthAbbr[m], y))
	}
	for y := 1999; y <= 2001; y++ {
		out = append(out, strconv.Itoa(y))
		for m := 1; m <= 12; m++ {
			out = append(out, fmt.Sprintf("%s %d", ref.MonthAbbr[m], y))
		}
	}
	out = append(out, "1 Jan 1990", "1 Jan 1997", "31 Dec 2002", "1 Jan 2010", "1900",
		"Bet. 1 Jan 2000 and 2 Jan 2000", "Bet. 1 Jan 2000 and 1 Feb 2000", "Bet. 1999 and 2001", "Bet. Mar 2000 and 1 Jan 2010", "Bet. 1990 and 2010",
		"Abt. 2000", "Bef. Mar 2000", "Aft. 5 Jun 2000", "garbage", "")
	return out
}

var maxYearsGrid = []float64{0.5, 3, 10}

func judgeDates(a, b string, maxYears float64) (sig, what string) {
	A, B := gedcom.NewDateNode(a), gedcom.NewDateNode(b)
	x, y := A.Similarity(B, maxYears), B.Similarity(A, maxYears)
	d := fmt.Sprintf("DateNode(%q).Similarity(%q, %v)=%v swapped=%v", a, b, maxYears, x, y)
	if !inRange(x) {
		return "date:out-of-range", d
	}
	if math.Abs(x-y) > symTol {
		return "date:asymmetric", d
	}
	if a == b && A.IsValid() && x != 1 {
		return "date:identical-not-1", d
	}
	dist := math.Abs(A.Years() - B.Years())
	if dist > maxYears && x != 0 {
		return "date:nonzero-beyond-max-years", d + fmt.Sprintf(" distance=%v", dist)
	}
	if dr := A.DateRange().Similarity(B.DateRange(), maxYears); dr != x {
		return "date:node-and-range-disagree", d
	}
	return "", ""
}

// ---------- individuals ----------

type indiSpec struct {
	Names []string
	Birth string // "" none; "BAPM:..." baptism only
	Death string // "" none; "BURI:..." burial only
}

func (s indiSpec) text(ptr string) string {
	var sb strings.Builder
	fmt.Fprintf(&sb, "0 @%s@ INDI\n", ptr)
	for _, n := range s.Names {
		fmt.Fprintf(&sb, "1 NAME %s\n", n)
	}
	ev := func(tagDefault, v string) {
		if v == "" {
			return
		}
		tag := tagDefault
		if i := strings.Index(v, ":"); i > 0 {
			tag, v = v[:i], v[i+1:]
		}
		fmt.Fprintf(&sb, "1 %s\n2 DATE %s\n", tag, v)
	}
	ev("BIRT", s.Birth)
	ev("DEAT", s.Death)
	return sb.String()
}

func (s indiSpec) key() string { return strings.Join(s.Names, ";") + "|" + s.Birth + "|" + s.Death }

func indiUniverse() []indiSpec {
	nameSets := [][]string{nil, {"John /Smith/"}, {"Mary /Jones/"}, {"John /Smith/", "Mary /Jones/"}, {"Jon /Smyth/"}, {"Mary /Jones/", "John /Smith/"}, {"Mary /Jones/", "Mary /Smith/", "Jon /Smyth/"}}
	births := []string{"", "3 Mar 1850", "3 Mar 1851", "3 Mar 1855", "BAPM:10 Mar 1850"}
	deaths := []string{"", "9 Sep 1910", "BURI:12 Sep 1910"}
	var out []indiSpec
	for _, n := range nameSets {
		for _, b := range births {
			for _, d := range deaths {
				out = append(out, indiSpec{n, b, d})
			}
		}
	}
	return out
}

func buildIndi(s indiSpec) *gedcom.IndividualNode {
	doc, err := gedcom.NewDocumentFromString(s.text("I1"))
	if err != nil {
		panic(err)
	}
	return doc.Individuals()[0]
}

type optSpec struct {
	Name       string
	W          [4]float64 // individual, parents, spouses, children
	Ratio      float64
	Default    bool
	MinSim     float64
	MaxYears   float64
	JaroPrefix int
}

func (o optSpec) options() gedcom.SimilarityOptions {
	so := gedcom.NewSimilarityOptions()
	if o.Default {
		return so
	}
	so.IndividualWeight, so.ParentsWeight, so.SpousesWeight, so.ChildrenWeight = o.W[0], o.W[1], o.W[2], o.W[3]
	so.NameToDateRatio = o.Ratio
	return so
}

func optionGrid() []optSpec {
	out := []optSpec{{Name: "default", Default: true}}
	steps := []float64{0, 0.25, 0.5, 0.75, 1}
	for _, a := range steps {
		for _, b := range steps {
			for _, c := range steps {
				d := 1 - a - b - c
				if d < -1e-9 || d > 1+1e-9 {
					continue
				}
				if d < 0 {
					d = 0
				}
				for _, ratio := range []float64{0, 0.5, 1} {
					out = append(out, optSpec{Name: fmt.Sprintf("w=%v/%v/%v/%v r=%v", a, b, c, d, ratio), W: [4]float64{a, b, c, d}, Ratio: ratio})
				}
			}
		}
	}
	return out
}

func judgeIndividuals(a, b indiSpec, o optSpec) (sig, what string) {
	A, B := buildIndi(a), buildIndi(b)
	so := o.options()
	x, y := A.Similarity(B, so), B.Similarity(A, so)
	d := fmt.Sprintf("individuals %q vs %q options %s: Similarity=%v swapped=%v", a.key(), b.key(), o.Name, x, y)
	if !inRange(x) {
		return "individual:out-of-range", d
	}
	if math.Abs(x-y) > symTol {
		return "individual:asymmetric", d
	}
	if a.key() == b.key() && len(a.Names) > 0 && a.Birth != "" && a.Death != "" && x != 1 {
		return "individual:identical-not-1", d
	}
	for _, force := range []bool{true, false} {
		s1, s2 := A.SurroundingSimilarity(B, so, force), B.SurroundingSimilarity(A, so, force)
		for i, pr := range [][2]float64{{s1.ParentsSimilarity, s2.ParentsSimilarity}, {s1.IndividualSimilarity, s2.IndividualSimilarity}, {s1.SpousesSimilarity, s2.SpousesSimilarity}, {s1.ChildrenSimilarity, s2.ChildrenSimilarity}, {s1.WeightedSimilarity(), s2.WeightedSimilarity()}} {
			part := []string{"parents", "individual", "spouses", "children", "weighted"}[i]
			dd := fmt.Sprintf("%s; surrounding(force=%v).%s=%v swapped=%v", d, force, part, pr[0], pr[1])
			if !inRange(pr[0]) {
				return "surrounding:" + part + ":out-of-range", dd
			}
			if math.Abs(pr[0]-pr[1]) > symTol {
				return "surrounding:" + part + ":asymmetric", dd
			}
		}
		if force && s1.ParentsSimilarity != 0.5 {
			return "surrounding:missing-parents-not-0.5", d
		}
	}
	return "", ""
}

func judgeNil(o optSpec) (sig, what string) {
	A := buildIndi(indiUniverse()[20])
	so := o.options()
	var n *gedcom.IndividualNode
	if v := A.Similarity(n, so); v != 0.5 {
		return "individual:nil-not-0.5", fmt.Sprint(v)
	}
	if v := n.Similarity(A, so); v != 0.5 {
		return "individual:nil-not-0.5", fmt.Sprint(v)
	}
	var dn *gedcom.DateNode
	if v := dn.Similarity(gedcom.NewDateNode("1900"), 3); v != 0.5 {
		return "date:nil-not-0.5", fmt.Sprint(v)
	}
	if v := gedcom.NewDateNode("1900").Similarity(dn, 3); v != 0.5 {
		return "date:nil-not-0.5", fmt.Sprint(v)
	}
	return "", ""
}

// ---------- lists ----------

func poolIndis() []indiSpec {
	u := indiUniverse()
	pick := []indiSpec{}
	for _, s := range u {
		k := s.key()
		switch k {
		case "John /Smith/|3 Mar 1850|9 Sep 1910", "John /Smith/|3 Mar 1851|", "Mary /Jones/|3 Mar 1850|9 Sep 1910", "Jon /Smyth/|3 Mar 1850|9 Sep 1910", "||", "Mary /Jones/|3 Mar 1855|BURI:12 Sep 1910":
			pick = append(pick, s)
		}
	}
	if len(pick) != 6 {
		panic(fmt.Sprint("pool size ", len(pick)))
	}
	return pick
}

func listsOf(n, maxLen int) [][]int {
	out := [][]int{{}}
	for l := 1; l <= maxLen; l++ {
		tot := gen.Pow(n, l)
		for i := int64(0); i < tot; i++ {
			out = append(out, gen.Digits(i, n, l))
		}
	}
	return out
}

func buildList(idx []int) gedcom.IndividualNodes {
	pool := poolIndis()
	out := gedcom.IndividualNodes{}
	for _, i := range idx {
		out = append(out, buildIndi(pool[i]))
	}
	return out
}

func judgeLists(a, b []int, minSim float64) (sig, what string) {
	A, B := buildList(a), buildList(b)
	so := gedcom.NewSimilarityOptions()
	so.MinimumSimilarity = minSim
	x, y := A.Similarity(B, so), B.Similarity(A, so)
	d := fmt.Sprintf("lists %v vs %v MinimumSimilarity=%v: %v swapped=%v", a, b, minSim, x, y)
	if !inRange(x) {
		return "list:out-of-range", d
	}
	if math.Abs(x-y) > symTol {
		return "list:asymmetric", d
	}
	if len(a) == 0 && len(b) == 0 && x != 1 {
		return "list:both-empty-not-1", d
	}
	if (len(a) == 0) != (len(b) == 0) && x != 0.5 {
		return "list:one-empty-not-0.5", d
	}
	return "", ""
}

// ---------- families / surrounding ----------

func famGraph(name, suffix string) gen.Graph {
	names := [][2]string{{"Alice", "Archer"}, {"Boris", "Bellamy"}, {"Clara", "Coombes"}, {"Dmitri", "Dunmore"}}
	births := []string{"3 Mar 1801", "17 Jul 1805", "29 Nov 1830", "8 Jan 1832"}
	p := func(i int) gen.Person {
		sex := "M"
		if i%2 == 1 {
			sex = "F"
		}
		return gen.Person{Ptr: fmt.Sprintf("I%d", i+1), Given: names[i][0] + suffix, Surname: names[i][1], Sex: sex, Birth: births[i]}
	}
	var g gen.Graph
	switch name {
	case "single":
		g.People = []gen.Person{p(0)}
	case "couple":
		g.People = []gen.Person{p(0), p(1)}
		g.Families = []gen.Family{{Ptr: "F1", Husb: "I1", Wife: "I2"}}
	case "couple-child":
		g.People = []gen.Person{p(0), p(1), p(2)}
		g.Families = []gen.Family{{Ptr: "F1", Husb: "I1", Wife: "I2", Chil: []string{"I3"}}}
	case "couple-two-children":
		g.People = []gen.Person{p(0), p(1), p(2), p(3)}
		g.Families = []gen.Family{{Ptr: "F1", Husb: "I1", Wife: "I2", Chil: []string{"I3", "I4"}}}
	case "shared-spouse":
		g.People = []gen.Person{p(0), p(1), p(2)}
		g.Families = []gen.Family{{Ptr: "F1", Husb: "I1", Wife: "I2"}, {Ptr: "F2", Husb: "I1", Wife: "I3"}}
	case "child-is-spouse":
		g.People = []gen.Person{p(0), p(1), p(2)}
		g.Families = []gen.Family{{Ptr: "F1", Husb: "I1", Wife: "I2", Chil: []string{"I3"}}, {Ptr: "F2", Husb: "I3"}}
	case "wife-only":
		g.People = []gen.Person{p(1), p(2)}
		g.Families = []gen.Family{{Ptr: "F1", Wife: "I2", Chil: []string{"I3"}}}
	}
	g.Link()
	return g
}

var famNames = []string{"single", "couple", "couple-child", "couple-two-children", "shared-spouse", "child-is-spouse", "wife-only"}
var famSuffixes = []string{"", "x", "zzqq"}

func judgeFamilies(a, b string, sa, sb string) (sig, what string) {
	// fresh documents for each direction so that caches cannot couple the two evaluations
	build := func(n, s string) *gedcom.Document {
		d, err := gedcom.NewDocumentFromString(famGraph(n, s).Text())
		if err != nil {
			panic(err)
		}
		return d
	}
	so := gedcom.NewSimilarityOptions()
	A, B := build(a, sa), build(b, sb)
	A2, B2 := build(a, sa), build(b, sb)
	d := fmt.Sprintf("graphs %s%q vs %s%q", a, sa, b, sb)
	for i, fa := range A.Families() {
		for j, fb := range B.Families() {
			x, y := fa.Similarity(fb, 0, so), B2.Families()[j].Similarity(A2.Families()[i], 0, so)
			dd := fmt.Sprintf("%s family %d vs %d: %v swapped=%v", d, i, j, x, y)
			if !inRange(x) {
				return "family:out-of-range", dd
			}
			if math.Abs(x-y) > symTol {
				return "family:asymmetric", dd
			}
			if fa.Husband() == nil && fa.Wife() == nil && x != 0.5 {
				return "family:no-spouses-not-0.5", dd
			}
		}
	}
	// a score is a function of the data: an operand compared with ITSELF (the same object) must
	// score what it scores against an equal, separately decoded copy (so that missing information
	// stays at its neutral 0.5 there, too)
	if a == b && sa == sb {
		for i, fa := range A.Families() {
			if x, y := fa.Similarity(fa, 0, so), fa.Similarity(B.Families()[i], 0, so); math.Abs(x-y) > symTol {
				return "family:same-object-scores-differently-from-equal-copy", fmt.Sprintf("%s family %d: with itself %v, with an equal copy %v", d, i, x, y)
			}
		}
		for i, ia := range A.Individuals() {
			if x, y := ia.Similarity(ia, so), ia.Similarity(B.Individuals()[i], so); math.Abs(x-y) > symTol {
				return "individual:same-object-scores-differently-from-equal-copy", fmt.Sprintf("%s individual %d: with itself %v, with an equal copy %v", d, i, x, y)
			}
			s1, s2 := ia.SurroundingSimilarity(ia, so, true), ia.SurroundingSimilarity(B.Individuals()[i], so, true)
			if math.Abs(s1.WeightedSimilarity()-s2.WeightedSimilarity()) > symTol {
				return "surrounding:same-object-scores-differently-from-equal-copy", fmt.Sprintf("%s individual %d: with itself %v, with an equal copy %v", d, i, s1.WeightedSimilarity(), s2.WeightedSimilarity())
			}
		}
	}
	// a score is a function of the data AND the options: the objects that were just compared with the
	// default options, compared again with other options, must score what freshly decoded copies score
	for _, mod := range []func(o *gedcom.SimilarityOptions){
		func(o *gedcom.SimilarityOptions) { o.NameToDateRatio = 0 },
		func(o *gedcom.SimilarityOptions) { o.NameToDateRatio = 1 },
		func(o *gedcom.SimilarityOptions) { o.MaxYears = 1 },
	} {
		oo := gedcom.NewSimilarityOptions()
		mod(&oo)
		A3, B3 := build(a, sa), build(b, sb)
		for i, fa := range A.Families() {
			for j, fb := range B.Families() {
				x, y := fa.Similarity(fb, 0, oo), A3.Families()[i].Similarity(B3.Families()[j], 0, oo)
				if math.Abs(x-y) > symTol {
					return "family:score-depends-on-earlier-comparisons", fmt.Sprintf("%s family %d vs %d with options %+v: %v on objects that had been compared with the default options before, %v on fresh ones", d, i, j, oo, x, y)
				}
			}
		}
		for i, ia := range A.Individuals() {
			for j, ib := range B.Individuals() {
				x := ia.SurroundingSimilarity(ib, oo, true).WeightedSimilarity()
				y := A3.Individuals()[i].SurroundingSimilarity(B3.Individuals()[j], oo, true).WeightedSimilarity()
				if math.Abs(x-y) > symTol {
					return "surrounding:score-depends-on-earlier-comparisons", fmt.Sprintf("%s individual %d vs %d with options %+v: %v on used objects, %v on fresh ones", d, i, j, oo, x, y)
				}
			}
		}
	}
	// weights that differ from each other (the defaults are equal): the weighted score stays in [0,1] and symmetric
	for _, w := range [][4]float64{{0.5, 0.25, 0.125, 0.125}, {0.125, 0.125, 0.25, 0.5}, {0.1, 0.2, 0.3, 0.4}, {0.4, 0.3, 0.2, 0.1}, {0, 1, 0, 0}, {0, 0, 1, 0}, {0, 0, 0, 1}} {
		wo := gedcom.NewSimilarityOptions()
		wo.IndividualWeight, wo.ParentsWeight, wo.SpousesWeight, wo.ChildrenWeight = w[0], w[1], w[2], w[3]
		for i, ia := range A.Individuals() {
			for j, ib := range B.Individuals() {
				x := ia.SurroundingSimilarity(ib, wo, true).WeightedSimilarity()
				y := B2.Individuals()[j].SurroundingSimilarity(A2.Individuals()[i], wo, true).WeightedSimilarity()
				dd := fmt.Sprintf("%s individual %d vs %d weights %v: weighted=%v swapped=%v", d, i, j, w, x, y)
				if !inRange(x) {
					return "surrounding:weighted:out-of-range", dd
				}
				if math.Abs(x-y) > symTol {
					return "surrounding:weighted:asymmetric", dd
				}
			}
		}
	}
	for i, ia := range A.Individuals() {
		for j, ib := range B.Individuals() {
			for _, force := range []bool{true, false} {
				s1 := ia.SurroundingSimilarity(ib, so, force)
				s2 := B2.Individuals()[j].SurroundingSimilarity(A2.Individuals()[i], so, force)
				for k, pr := range [][2]float64{{s1.ParentsSimilarity, s2.ParentsSimilarity}, {s1.IndividualSimilarity, s2.IndividualSimilarity}, {s1.SpousesSimilarity, s2.SpousesSimilarity}, {s1.ChildrenSimilarity, s2.ChildrenSimilarity}, {s1.WeightedSimilarity(), s2.WeightedSimilarity()}} {
					part := []string{"parents", "individual", "spouses", "children", "weighted"}[k]
					dd := fmt.Sprintf("%s individual %d vs %d surrounding(force=%v).%s=%v swapped=%v", d, i, j, force, part, pr[0], pr[1])
					if !inRange(pr[0]) {
						return "surrounding:" + part + ":out-of-range", dd
					}
					if math.Abs(pr[0]-pr[1]) > symTol {
						return "surrounding:" + part + ":asymmetric", dd
					}
				}
				if force && a == b && sa == sb && i == j && s1.IndividualSimilarity != ia.Similarity(ib, so) {
					return "surrounding:individual-part-differs-from-Similarity", d
				}
			}
		}
	}
	return "", ""
}

// ---------- plan / run ----------

func run(tier, unit string, r *vlib.Rec) {
	name, lo, hi := vlib.ParseChunk(unit)
	p := strings.Split(name, ":")
	switch p[0] {
	case "jw", "ss":
		fn := "JaroWinkler"
		if p[0] == "ss" {
			fn = "StringSimilarity"
		}
		maxLen, _ := strconv.Atoi(p[2])
		ss := stringsOver(p[1], maxLen)
		for i := lo; i < hi; i++ {
			for j := range ss {
				for _, pf := range prefixSizes {
					for _, bo := range boosts {
						r.Eval()
						if s, w := judgeString(fn, ss[i], ss[j], bo, pf); s != "" {
							r.Fail(s, w, kase{Space: name, A: ss[i], B: ss[j], Args: []string{fmt.Sprint(bo), fmt.Sprint(pf)}})
						}
					}
				}
				if len(ss[i]) >= 2 && len(ss[j]) >= 2 && ss[i] != ss[j] {
					r.Nontrivial(name + "|" + ss[i] + "|" + ss[j])
				}
				r.Count("strings:" + fn)
			}
		}
	case "dates":
		vals := dateValues()
		nodes := make([]*gedcom.DateNode, len(vals))
		for i, v := range vals {
			nodes[i] = gedcom.NewDateNode(v)
		}
		for i := lo; i < hi; i++ {
			for _, my := range maxYearsGrid {
				// monotonicity: sort the partners by distance and require non-increasing similarity and equal similarity at equal distance
				type pr struct {
					dist, sim float64
					j         int
				}
				var prs []pr
				for j := range vals {
					r.Eval()
					if s, w := judgeDates(vals[i], vals[j], my); s != "" {
						r.Fail(s, w, kase{Space: "dates", A: vals[i], B: vals[j], Args: []string{fmt.Sprint(my)}})
					}
					if nodes[i].IsValid() && nodes[j].IsValid() {
						prs = append(prs, pr{math.Abs(nodes[i].Years() - nodes[j].Years()), nodes[i].Similarity(nodes[j], my), j})
						if i != int64(j) {
							r.Nontrivial(fmt.Sprintf("dates|%s|%s|%v", vals[i], vals[j], my))
						}
					}
				}
				sort.SliceStable(prs, func(a, b int) bool { return prs[a].dist < prs[b].dist })
				for k := 1; k < len(prs); k++ {
					if prs[k].dist == prs[k-1].dist && prs[k].sim != prs[k-1].sim {
						r.Fail("date:not-a-function-of-distance", fmt.Sprintf("%q: partners %q and %q are both %v years away but score %v and %v", vals[i], vals[prs[k-1].j], vals[prs[k].j], prs[k].dist, prs[k-1].sim, prs[k].sim), kase{Space: "dates-mono", A: vals[i], B: vals[prs[k].j], Args: []string{fmt.Sprint(my), vals[prs[k-1].j]}})
					}
					if prs[k].sim > prs[k-1].sim {
						r.Fail("date:increases-with-distance", fmt.Sprintf("%q: %q at distance %v scores %v, %q at larger distance %v scores %v", vals[i], vals[prs[k-1].j], prs[k-1].dist, prs[k-1].sim, vals[prs[k].j], prs[k].dist, prs[k].sim), kase{Space: "dates-mono", A: vals[i], B: vals[prs[k].j], Args: []string{fmt.Sprint(my), vals[prs[k-1].j]}})
					}
				}
				r.Count("dates")
			}
		}
	case "indis":
		u := indiUniverse()
		grid := optionGrid()
		for i := lo; i < hi; i++ {
			for j := range u {
				for _, o := range grid {
					r.Eval()
					if s, w := judgeIndividuals(u[i], u[j], o); s != "" {
						r.Fail(s, w, kase{Space: "indis", A: strconv.Itoa(int(i)), B: strconv.Itoa(j), Args: []string{o.Name}})
					}
				}
				if i != int64(j) {
					r.Nontrivial(fmt.Sprintf("indis|%d|%d", i, j))
				}
				r.Count("indis")
			}
		}
	case "edited":
		runEdited(r, lo, hi)
	case "nil":
		for _, o := range optionGrid() {
			r.Eval()
			r.Count("nil")
			if s, w := judgeNil(o); s != "" {
				r.Fail(s, w, kase{Space: "nil", Args: []string{o.Name}})
			}
		}
	case "lists":
		ls := listsOf(6, 3)
		for i := lo; i < hi; i++ {
			for j := range ls {
				for _, ms := range []float64{0, gedcom.DefaultMinimumSimilarity, 1} {
					r.Eval()
					if s, w := judgeLists(ls[i], ls[j], ms); s != "" {
						r.Fail(s, w, kase{Space: "lists", A: vlib.JSON(ls[i]), B: vlib.JSON(ls[j]), Args: []string{fmt.Sprint(ms)}})
					}
				}
				if len(ls[i]) > 0 && len(ls[j]) > 0 {
					r.Nontrivial(fmt.Sprintf("lists|%v|%v", ls[i], ls[j]))
				}
				r.Count("lists")
			}
		}
	case "long": // strings beyond every machine-word size (63..130 bytes), all ordered pairs
		var ls []string
		for _, n := range []int{31, 32, 33, 63, 64, 65, 66, 100, 127, 128, 129, 130} {
			ls = append(ls, strings.Repeat("x", n), strings.Repeat("ab", n/2)+strings.Repeat("c", n%2), strings.Repeat("y", n/2)+strings.Repeat("x", n-n/2), "john "+strings.Repeat("de la ", n/6)+"smith")
		}
		for _, a := range ls {
			for _, b := range ls {
				for _, fn := range []string{"JaroWinkler", "StringSimilarity"} {
					r.Eval()
					r.Count("long")
					if s, w := judgeString(fn, a, b, 0.7, 4); s != "" {
						r.Fail(s, w, kase{Space: map[string]string{"JaroWinkler": "jw", "StringSimilarity": "ss"}[fn] + ":long:0", A: a, B: b, Args: []string{"0.7", "4"}})
					}
				}
			}
		}
	case "fams":
		var all [][2]string
		for _, n := range famNames {
			for _, s := range famSuffixes {
				all = append(all, [2]string{n, s})
			}
		}
		for i := lo; i < hi; i++ {
			for j := range all {
				r.Eval()
				r.Count("fams")
				r.Nontrivial(fmt.Sprintf("fams|%v|%v", all[i], all[j]))
				if s, w := judgeFamilies(all[i][0], all[j][0], all[i][1], all[j][1]); s != "" {
					r.Fail(s, w, kase{Space: "fams", A: all[i][0], B: all[j][0], Args: []string{all[i][1], all[j][1]}})
				}
			}
		}
	}
}

func plan(tier string) []string {
	var out []string
	type sp struct {
		kind, alpha string
		n           int
	}
	spaces := []sp{{"jw", "ab", 8}, {"jw", "abc", 5}, {"ss", "aB -é", 4}}
	if tier == "thorough" {
		spaces = []sp{{"jw", "ab", 10}, {"jw", "abc", 6}, {"ss", "aB -é", 5}}
	}
	for _, s := range spaces {
		n := int64(len(stringsOver(s.alpha, s.n)))
		out = append(out, vlib.Chunks(fmt.Sprintf("%s:%s:%d", s.kind, s.alpha, s.n), n, 16)...)
	}
	out = append(out, "long:0:0:1")
	out = append(out, vlib.Chunks("dates", int64(len(dateValues())), 8)...)
	out = append(out, vlib.Chunks("indis", int64(len(indiUniverse())), 2)...)
	out = append(out, "nil:0:1")
	out = append(out, vlib.Chunks("edited", int64(len(indiUniverse())), 3)...)
	out = append(out, vlib.Chunks("lists", int64(len(listsOf(6, 3))), 8)...)
	out = append(out, vlib.Chunks("fams", int64(len(famNames)*len(famSuffixes)), 2)...)
	return out
}

func replay(c json.RawMessage) (string, string) {
	var k kase
	json.Unmarshal(c, &k)
	p := strings.Split(k.Space, ":")
	switch p[0] {
	case "jw", "ss":
		fn := "JaroWinkler"
		if p[0] == "ss" {
			fn = "StringSimilarity"
		}
		bo, _ := strconv.ParseFloat(k.Args[0], 64)
		pf, _ := strconv.Atoi(k.Args[1])
		return judgeString(fn, k.A, k.B, bo, pf)
	case "dates":
		my, _ := strconv.ParseFloat(k.Args[0], 64)
		return judgeDates(k.A, k.B, my)
	case "dates-mono":
		my, _ := strconv.ParseFloat(k.Args[0], 64)
		a, b, c2 := gedcom.NewDateNode(k.A), gedcom.NewDateNode(k.B), gedcom.NewDateNode(k.Args[1])
		d1, d2 := math.Abs(a.Years()-c2.Years()), math.Abs(a.Years()-b.Years())
		s1, s2 := a.Similarity(c2, my), a.Similarity(b, my)
		obs := fmt.Sprintf("%q: %q dist %v sim %v; %q dist %v sim %v", k.A, k.Args[1], d1, s1, k.B, d2, s2)
		if d1 == d2 && s1 != s2 {
			return "date:not-a-function-of-distance", obs
		}
		if d2 > d1 && s2 > s1 {
			return "date:increases-with-distance", obs
		}
		return "", obs
	case "indis":
		i, _ := strconv.Atoi(k.A)
		j, _ := strconv.Atoi(k.B)
		for _, o := range optionGrid() {
			if o.Name == k.Args[0] {
				return judgeIndividuals(indiUniverse()[i], indiUniverse()[j], o)
			}
		}
	case "edited":
		i, _ := strconv.Atoi(k.A)
		j, _ := strconv.Atoi(k.B)
		e1, _ := strconv.Atoi(k.Args[0])
		e2, _ := strconv.Atoi(k.Args[1])
		for _, o := range optionGrid() {
			if o.Name == k.Args[2] {
				sig, what, _ := judgeEdited(indiUniverse()[i], poolIndis()[j], e1, e2, o)
				return sig, what
			}
		}
	case "nil":
		for _, o := range optionGrid() {
			if o.Name == k.Args[0] {
				return judgeNil(o)
			}
		}
	case "lists":
		var a, b []int
		json.Unmarshal([]byte(k.A), &a)
		json.Unmarshal([]byte(k.B), &b)
		ms, _ := strconv.ParseFloat(k.Args[0], 64)
		return judgeLists(a, b, ms)
	case "fams":
		return judgeFamilies(k.A, k.B, k.Args[0], k.Args[1])
	}
	return "", "unknown case"
}

func main() {
	vlib.Main(&vlib.Check{
		ID:    "C12",
		Level: "exploration",
		Rule: "cases: JaroWinkler on all ordered pairs of strings over {a,b} (len<=8 quick / 10 thorough) and {a,b,c} (len<=5/6) x prefix {0,4,8,10} x boost {0,0.7}; StringSimilarity over {a,B,space,-,e-acute} (len<=4/5); all ordered pairs of ~420 DATE values (every day of 2000, month/year dates 1999-2001, ranges, constrained, invalid) x maxYears {0.5,3,10} incl. distance-monotonicity per row; all ordered pairs of a 75-individual universe x 106 option settings (default + all weight 4-tuples in quarters summing to 1 x NameToDateRatio {0,0.5,1}); all ordered pairs of lists of 0..3 over a 6-individual pool x MinimumSimilarity {0,default,1}; all ordered pairs of 21 family graphs (FamilyNode.Similarity, SurroundingSimilarity forced/unforced, WeightedSimilarity). " +
			"Non-trivial = pairs of distinct operands (strings of length >=2); distinct by (space, operands).",
		Assumptions: []string{
			"operand-order independence is judged with the fixed tolerance 1e-12; range [0,1] and identity = 1 exactly",
			"neutral 0.5 is demanded where the documentation promises it: nil individual, nil date, one empty list, missing parents, family without spouses",
			"maxYears = 0 (division by zero) is not a configuration",
		},
		Plan:   plan,
		Run:    run,
		Replay: replay,
		Required: func(string) []string {
			return []string{"strings:JaroWinkler", "strings:StringSimilarity", "dates", "indis", "nil", "lists", "fams", "long", "edited"}
		},
		Deadline: func(tier string) time.Duration {
			if tier == "thorough" {
				return 25 * time.Minute
			}
			return 8 * time.Minute
		},
	})
}
