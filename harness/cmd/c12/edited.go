package main

import (
	"fmt"
	"math"

	gedcom "github.com/elliotchance/gedcom/v39"
	"verif/harness/vlib"
)

// Unit "edited": a score is a function of what the two individuals say NOW. An individual from the universe is
// scored against a partner (both directions, surrounding similarity, as one-element lists) so that whatever
// the scoring remembers is warm, then changed through the API (dates and names added, a DATE removed from
// below its event, an event or a name removed) and scored again: every number must be the one that freshly
// decoded individuals with the same text give.

type indiEdit struct {
	Name string
	Do   func(i *gedcom.IndividualNode) bool
}

func firstChild(n gedcom.Node, tag gedcom.Tag) gedcom.Node {
	for _, c := range n.Nodes() {
		if c.Tag().Is(tag) {
			return c
		}
	}
	return nil
}

var indiEdits = []indiEdit{
	{"AddBirthDate", func(i *gedcom.IndividualNode) bool { i.AddBirthDate("3 Mar 1851"); return true }},
	{"AddDeathDate", func(i *gedcom.IndividualNode) bool { i.AddDeathDate("9 Sep 1910"); return true }},
	{"AddBaptismDate", func(i *gedcom.IndividualNode) bool { i.AddBaptismDate("10 Mar 1850"); return true }},
	{"AddBurialDate", func(i *gedcom.IndividualNode) bool { i.AddBurialDate("12 Sep 1910"); return true }},
	{"AddName", func(i *gedcom.IndividualNode) bool { i.AddName("Jon /Smyth/"); return true }},
	{"BIRT.DeleteNode(DATE)", func(i *gedcom.IndividualNode) bool {
		b := firstChild(i, gedcom.TagBirth)
		if b == nil || firstChild(b, gedcom.TagDate) == nil {
			return false
		}
		b.DeleteNode(firstChild(b, gedcom.TagDate))
		return true
	}},
	{"BIRT.AddNode(DATE)", func(i *gedcom.IndividualNode) bool {
		b := firstChild(i, gedcom.TagBirth)
		if b == nil {
			return false
		}
		b.AddNode(gedcom.NewDateNode("3 Mar 1855"))
		return true
	}},
	{"DeleteNode(BIRT)", func(i *gedcom.IndividualNode) bool {
		b := firstChild(i, gedcom.TagBirth)
		if b == nil {
			return false
		}
		i.DeleteNode(b)
		return true
	}},
	{"DeleteNode(DEAT)", func(i *gedcom.IndividualNode) bool {
		b := firstChild(i, gedcom.TagDeath)
		if b == nil {
			return false
		}
		i.DeleteNode(b)
		return true
	}},
	{"DeleteNode(NAME)", func(i *gedcom.IndividualNode) bool {
		b := firstChild(i, gedcom.TagName)
		if b == nil {
			return false
		}
		i.DeleteNode(b)
		return true
	}},
	{"SetNodes(nil)", func(i *gedcom.IndividualNode) bool { i.SetNodes(nil); return true }},
}

func scores(A, B *gedcom.IndividualNode, so gedcom.SimilarityOptions) (out []float64, panicked string) {
	p, msg, frame := vlib.Try(func() {
		out = append(out, A.Similarity(B, so), B.Similarity(A, so))
		for _, force := range []bool{true, false} {
			s := A.SurroundingSimilarity(B, so, force)
			out = append(out, s.IndividualSimilarity, s.WeightedSimilarity())
		}
		out = append(out, gedcom.IndividualNodes{A}.Similarity(gedcom.IndividualNodes{B}, so))
		eb, _ := A.EstimatedBirthDate()
		ed, _ := A.EstimatedDeathDate()
		for _, d := range []*gedcom.DateNode{eb, ed} {
			if d == nil {
				out = append(out, -1)
			} else {
				out = append(out, d.DateRange().StartDate().Years())
			}
		}
	})
	if p {
		return nil, frame + ":" + vlib.MsgClass(msg)
	}
	return out, ""
}

func judgeEdited(a, b indiSpec, e1, e2 int, o optSpec) (sig, what string, applicable bool) {
	A, B := buildIndi(a), buildIndi(b)
	so := o.options()
	for rep := 0; rep < 2; rep++ {
		scores(A, B, so)
	}
	if !indiEdits[e1].Do(A) {
		return "", "", false
	}
	name := indiEdits[e1].Name
	if e2 >= 0 {
		scores(A, B, so)
		if !indiEdits[e2].Do(A) {
			return "", "", false
		}
		name += ", " + indiEdits[e2].Name
	}
	live, p1 := scores(A, B, so)
	ta, tb := gedcom.GEDCOMString(A, 0), gedcom.GEDCOMString(B, 0)
	da, err1 := gedcom.NewDocumentFromString(ta)
	db, err2 := gedcom.NewDocumentFromString(tb)
	if err1 != nil || err2 != nil || len(da.Individuals()) != 1 || len(db.Individuals()) != 1 {
		return "", "", false
	}
	fresh, p2 := scores(da.Individuals()[0], db.Individuals()[0], so)
	d := fmt.Sprintf("individual %q scored against %q (options %s), then edited through the API (%s) and scored again.\n [Similarity, swapped, surrounding(force).individual, .weighted, surrounding(!force).individual, .weighted, as lists, estimated birth year, estimated death year]\n edited object : %v %s\n fresh decode  : %v %s\n text now:\n%s", a.key(), b.key(), o.Name, name, live, p1, fresh, p2, ta)
	if p1 != p2 {
		return "edited:panic-differs", d, true
	}
	for i := range live {
		if i < len(fresh) && math.Abs(live[i]-fresh[i]) > 1e-12 {
			return "edited:score-differs-from-fresh-individuals", d, true
		}
	}
	return "", d, true
}

func runEdited(r *vlib.Rec, lo, hi int64) {
	u := indiUniverse()
	pool := poolIndis()
	opts := []optSpec{optionGrid()[0], optionGrid()[len(optionGrid())/2]}
	for i := lo; i < hi; i++ {
		for j := range pool {
			for e1 := range indiEdits {
				for e2 := -1; e2 < len(indiEdits); e2++ {
					for _, o := range opts {
						sig, what, ok := judgeEdited(u[i], pool[j], e1, e2, o)
						if !ok {
							continue
						}
						r.Eval()
						r.Count("edited")
						r.Count("edited:" + indiEdits[e1].Name)
						if sig != "" {
							r.Fail(sig, what, kase{Space: "edited", A: fmt.Sprint(i), B: fmt.Sprint(j), Args: []string{fmt.Sprint(e1), fmt.Sprint(e2), o.Name}})
						}
					}
				}
			}
		}
	}
}
