package main

import (
	"fmt"
	"sort"
	"strings"

	gedcom "github.com/elliotchance/gedcom/v39"
		"verif/harness/vlib"
)

// Unit "rewarn": the report is a function of what the document says NOW. The warnings of a document are
// asked for twice, then one line is removed through the API - every direct sub-line of every record in turn,
// and every sub-line of those (the DATE below an event) - with the parent's DeleteNode, and the warnings are
// asked for again: they must be what a fresh decode of the document's present text reports.

// victims: (parent, child) pairs in document order, depth 1 and 2 below the records.
func victims(doc *gedcom.Document) (out [][2]gedcom.Node) {
	for _, rec := range doc.Nodes() {
		for _, c := range rec.Nodes() {
			out = append(out, [2]gedcom.Node{rec, c})
			for _, g := range c.Nodes() {
				out = append(out, [2]gedcom.Node{c, g})
			}
		}
	}
	return
}

func judgeAfterEdit(k kase, vi int) (sig, what string, applicable bool) {
	d, names := k.doc()
	doc, err := gedcom.NewDocumentFromString(d.Text())
	if err != nil {
		panic(err)
	}
	for rep := 0; rep < 2; rep++ {
		if p, _, _ := vlib.Try(func() { doc.Warnings() }); p {
			return "", "", false // the first report is judge's business
		}
	}
	vs := victims(doc)
	if vi >= len(vs) {
		return "", "", false
	}
	parent, child := vs[vi][0], vs[vi][1]
	line := gedcom.GEDCOMLine(child, 0)
	parent.DeleteNode(child)
	var ws gedcom.Warnings
	if p, msg, frame := vlib.Try(func() { ws = doc.Warnings() }); p {
		return "after-edit:panic:" + frame + ":" + vlib.MsgClass(msg), fmt.Sprintf("Warnings() after removing %q panicked: %s", line, msg), true
	}
	got, _ := implKeys(ws)
	text := doc.String()
	// the present text, decoded afresh, asked once (removing a line leaves shapes - an event without its date, a
	// person without a birth - on which the reference evaluator's margins were never established, so the
	// expected report is the library's own on fresh objects; the reference judges those in the assign unit)
	fresh, ferr := gedcom.NewDocumentFromString(text)
	if ferr != nil {
		return "", "", false
	}
	var fws gedcom.Warnings
	if p, _, _ := vlib.Try(func() { fws = fresh.Warnings() }); p {
		return "", "", false
	}
	want, _ := implKeys(fws)
	if strings.Join(got, "\n") == strings.Join(want, "\n") {
		return "", "", true
	}
	cnt := map[string]int{}
	for _, w := range want {
		cnt[w]++
	}
	for _, g := range got {
		cnt[g]--
	}
	var keys []string
	for key := range cnt {
		keys = append(keys, key)
	}
	sort.Strings(keys)
	show := fmt.Sprintf("deviations %v; the warnings were asked for twice, then %q was removed from below %q with DeleteNode and they were asked for again\na fresh decode of the present text reports %v\nreported %v\n%s", names, line, gedcom.GEDCOMLine(parent, 0), want, got, text)
	for _, key := range keys {
		name := strings.SplitN(key, "|", 2)[0]
		if cnt[key] > 0 {
			return "after-edit:missing:" + name, "expected warning not reported: " + key + "\n" + show, true
		}
		if cnt[key] < 0 {
			return "after-edit:spurious:" + name, "reported warning not warranted by the present text: " + key + "\n" + show, true
		}
	}
	return "", "", true
}
