// C20 — warnings are reported exactly when the recorded facts warrant them.
// Skeleton family graphs x all assignments with <=k deviating date/sex slots
// from per-slot threshold lattices x record/child permutations, against the
// reference evaluator ref/warn.go (which works on the reference decoder's tree).
package main

import (
	"encoding/json"
	"fmt"
	"sort"
	"strings"
	"time"

	"github.com/elliotchance/gedcom/v39"
	"verif/harness/gen"
	"verif/harness/ref"
	"verif/harness/vlib"
)

const none = -1

type Person struct {
	Ptr, Name                string
	Sex                      []string
	Birth, Bapm, Death, Buri int    // day numbers, none = -1
	BirthText                string // when set, the BIRT DATE is written with this text (unparsable dates)
	Extra                    []string
}

type Fam struct {
	Ptr, Husb, Wife string
	Chil            []string
	Marr            int
	Extra           []string
}

type Doc struct {
	People []*Person
	Fams   []*Fam
	Order  []string // record order (pointers); nil = people then families
	// records that are neither individuals nor families (raw lines): before everything, after the first
	// record, after everything
	Pre, Mid, Post []string
}

func (d *Doc) person(ptr string) *Person {
	for _, p := range d.People {
		if p.Ptr == ptr {
			return p
		}
	}
	return nil
}
func (d *Doc) fam(ptr string) *Fam {
	for _, f := range d.Fams {
		if f.Ptr == ptr {
			return f
		}
	}
	return nil
}

func day(y, m, dd int) int { return ref.DayNumber(y, m, dd) }
func dateStr(n int) string {
	y, m, d := ref.FromDayNumber(n)
	return fmt.Sprintf("%d %s %d", d, ref.MonthAbbr[m], y)
}

func (d *Doc) Text() string {
	var sb strings.Builder
	ev := func(tag string, n int) {
		if n != none {
			fmt.Fprintf(&sb, "1 %s\n2 DATE %s\n", tag, dateStr(n))
		}
	}
	order := d.Order
	if order == nil {
		for _, p := range d.People {
			order = append(order, p.Ptr)
		}
		for _, f := range d.Fams {
			order = append(order, f.Ptr)
		}
	}
	for _, l := range d.Pre {
		sb.WriteString(l + "\n")
	}
	for oi, ptr := range order {
		if oi == 1 {
			for _, l := range d.Mid {
				sb.WriteString(l + "\n")
			}
		}
		if p := d.person(ptr); p != nil {
			fmt.Fprintf(&sb, "0 @%s@ INDI\n1 NAME %s\n", p.Ptr, p.Name)
			for _, s := range p.Sex {
				fmt.Fprintf(&sb, "1 SEX %s\n", s)
			}
			if p.BirthText != "" {
				fmt.Fprintf(&sb, "1 BIRT\n2 DATE %s\n", p.BirthText)
			} else {
				ev("BIRT", p.Birth)
			}
			ev("BAPM", p.Bapm)
			ev("DEAT", p.Death)
			ev("BURI", p.Buri)
			for _, e := range p.Extra {
				sb.WriteString(e + "\n")
			}
			continue
		}
		f := d.fam(ptr)
		fmt.Fprintf(&sb, "0 @%s@ FAM\n", f.Ptr)
		if f.Husb != "" {
			fmt.Fprintf(&sb, "1 HUSB @%s@\n", f.Husb)
		}
		if f.Wife != "" {
			fmt.Fprintf(&sb, "1 WIFE @%s@\n", f.Wife)
		}
		for _, c := range f.Chil {
			fmt.Fprintf(&sb, "1 CHIL @%s@\n", c)
		}
		ev("MARR", f.Marr)
		for _, e := range f.Extra {
			sb.WriteString(e + "\n")
		}
	}
	for _, l := range d.Post {
		sb.WriteString(l + "\n")
	}
	return sb.String()
}

// defaultDoc: no warning anywhere.
func defaultDoc(variant string) *Doc {
	mk := func(ptr, name, sex string, b, dth int) *Person {
		return &Person{Ptr: ptr, Name: name, Sex: []string{sex}, Birth: b, Bapm: none, Death: dth, Buri: none}
	}
	d := &Doc{}
	p1 := mk("P1", "Adam /Ash/", "M", day(1800, 1, 1), day(1870, 1, 1))
	p2 := mk("P2", "Beth /Birch/", "F", day(1802, 1, 1), day(1872, 1, 1))
	p3 := mk("P3", "Cora /Cedar/", "F", day(1805, 1, 1), day(1875, 1, 1))
	c1 := mk("C1", "Dan /Ash/", "M", day(1827, 3, 1), day(1890, 1, 1))
	c2 := mk("C2", "Eli /Ash/", "M", day(1829, 3, 1), day(1892, 1, 1))
	c3 := mk("C3", "Fay /Ash/", "F", day(1831, 3, 1), day(1894, 1, 1))
	c4 := mk("C4", "Gus /Ash/", "M", day(1842, 3, 1), day(1900, 1, 1))
	switch variant {
	case "small": // one family, two children: 5 records
		d.People = []*Person{p1, p2, c1, c2}
		d.Fams = []*Fam{{Ptr: "F1", Husb: "P1", Wife: "P2", Chil: []string{"C1", "C2"}, Marr: day(1825, 6, 1)}}
	default: // "kN": two families sharing P1, N children in the first
		n := int(variant[1] - '0')
		d.People = []*Person{p1, p2, p3}
		ch := []*Person{c1, c2, c3}[:n]
		d.People = append(d.People, ch...)
		d.People = append(d.People, c4)
		var cp []string
		for _, c := range ch {
			cp = append(cp, c.Ptr)
		}
		d.Fams = []*Fam{{Ptr: "F1", Husb: "P1", Wife: "P2", Chil: cp, Marr: day(1825, 6, 1)}, {Ptr: "F2", Husb: "P1", Wife: "P3", Chil: []string{"C4"}, Marr: day(1840, 6, 1)}}
	}
	return d
}

type alt struct {
	name  string
	apply func(d *Doc)
}
type slot struct {
	name string
	alts []alt
}

func years(y float64) int { return int(y * 365.25) }

func slots(variant string) []slot {
	def := defaultDoc(variant)
	has := func(ptr string) bool { return def.person(ptr) != nil }
	hasF := func(ptr string) bool { return def.fam(ptr) != nil }
	var out []slot
	set := func(ptr string, f func(p *Person)) func(d *Doc) {
		return func(d *Doc) {
			if p := d.person(ptr); p != nil {
				f(p)
			}
		}
	}
	sibDeltas := []int{-400, -5, 0, 1, 2, 5, 100, 270, 273, 274, 280}
	if has("C1") {
		b := def.person("C1").Birth
		out = append(out, slot{"C1.birth", []alt{
			{"5d-before-father", set("C1", func(p *Person) { p.Birth = def.person("P1").Birth - 5 })},
			{"5d-before-mother", set("C1", func(p *Person) { p.Birth = def.person("P2").Birth - 5 })},
			{"same-day-as-mother", set("C1", func(p *Person) { p.Birth = def.person("P2").Birth })},
			{"none", set("C1", func(p *Person) { p.Birth = none })},
			{"baptism-only", set("C1", func(p *Person) { p.Birth = none; p.Bapm = b + 20 })},
			{"unparsable", set("C1", func(p *Person) { p.BirthText = "31 Feb 1826" })},
			{"phrase", set("C1", func(p *Person) { p.BirthText = "(spring)" })},
		}})
	}
	if has("C2") {
		var alts []alt
		for _, dl := range sibDeltas {
			dl := dl
			alts = append(alts, alt{fmt.Sprintf("C1%+dd", dl), set("C2", func(p *Person) { p.Birth = def.person("C1").Birth + dl })})
		}
		alts = append(alts, alt{"none", set("C2", func(p *Person) { p.Birth = none })})
		alts = append(alts, alt{"unparsable", set("C2", func(p *Person) { p.BirthText = "garbage" })})
		out = append(out, slot{"C2.birth", alts})
	}
	if has("C3") {
		var alts []alt
		for _, dl := range sibDeltas {
			dl := dl
			alts = append(alts, alt{fmt.Sprintf("C2%+dd", dl), set("C3", func(p *Person) { p.Birth = def.person("C2").Birth + dl })})
		}
		// relative to the FIRST child, so that with C2 = C1+100d all three are mutually close
		alts = append(alts, alt{"C1+200d", set("C3", func(p *Person) { p.Birth = def.person("C1").Birth + 200 })},
			alt{"C1+50d", set("C3", func(p *Person) { p.Birth = def.person("C1").Birth + 50 })})
		out = append(out, slot{"C3.birth", alts})
	}
	if has("C4") {
		out = append(out, slot{"C4.birth", []alt{
			{"C1+5d-other-family", set("C4", func(p *Person) { p.Birth = day(1827, 3, 6) })},
			{"5d-before-mother", set("C4", func(p *Person) { p.Birth = def.person("P3").Birth - 5 })},
		}})
	}
	out = append(out, slot{"P1.birth", []alt{
		{"after-children", set("P1", func(p *Person) { p.Birth = day(1830, 1, 1) })},
		{"none", set("P1", func(p *Person) { p.Birth = none })},
		{"baptism-only", set("P1", func(p *Person) { p.Birth = none; p.Bapm = day(1800, 2, 1) })},
	}})
	marrAlts := func(fam, spouse string) []alt {
		sb := def.person(spouse).Birth
		setM := func(n int) func(d *Doc) {
			return func(d *Doc) { d.fam(fam).Marr = n }
		}
		return []alt{
			{"spouse-15y11m", setM(sb + years(16) - 30)},
			{"spouse-16y1m", setM(sb + years(16) + 30)},
			{"spouse-99y11m", setM(sb + years(100) - 30)},
			{"spouse-100y1m", setM(sb + years(100) + 30)},
			{"none", setM(none)},
			{"two-marriages", func(d *Doc) {
				d.fam(fam).Extra = append(d.fam(fam).Extra, "1 MARR", "2 DATE "+dateStr(sb+years(16)-30))
			}},
		}
	}
	out = append(out, slot{"F1.marr", marrAlts("F1", "P2")})
	if hasF("F2") {
		out = append(out, slot{"F2.marr", marrAlts("F2", "P3")})
	}
	deathAlts := func(ptr string) []alt {
		b := def.person(ptr).Birth
		return []alt{
			{"99.9y", set(ptr, func(p *Person) { p.Death = b + years(100) - 40 })},
			{"100.1y", set(ptr, func(p *Person) { p.Death = b + years(100) + 40 })},
			{"none", set(ptr, func(p *Person) { p.Death = none })},
			{"burial-only-100.1y", set(ptr, func(p *Person) { p.Death = none; p.Buri = b + years(100) + 40 })},
			{"burial-only-60y", set(ptr, func(p *Person) { p.Death = none; p.Buri = b + years(60) })},
		}
	}
	out = append(out, slot{"P1.death", deathAlts("P1")}, slot{"P2.death", deathAlts("P2")})
	out = append(out, slot{"P2.burial", []alt{
		{"1d-before-death", set("P2", func(p *Person) { p.Buri = p.Death - 1 })},
		{"same-day-as-death", set("P2", func(p *Person) { p.Buri = p.Death })},
		{"3d-after-death", set("P2", func(p *Person) { p.Buri = p.Death + 3 })},
		{"before-birth", set("P2", func(p *Person) { p.Buri = p.Birth - 1 })},
	}})
	out = append(out, slot{"P2.baptism", []alt{
		{"1d-before-birth", set("P2", func(p *Person) { p.Bapm = p.Birth - 1 })},
		{"same-day-as-birth", set("P2", func(p *Person) { p.Bapm = p.Birth })},
		{"30d-after-birth", set("P2", func(p *Person) { p.Bapm = p.Birth + 30 })},
		{"after-death", set("P2", func(p *Person) { p.Bapm = day(1873, 1, 1) })},
	}})
	out = append(out, slot{"P1.sex", []alt{
		{"F", set("P1", func(p *Person) { p.Sex = []string{"F"} })},
		{"none", set("P1", func(p *Person) { p.Sex = nil })},
		{"M+F", set("P1", func(p *Person) { p.Sex = []string{"M", "F"} })},
		{"F+M", set("P1", func(p *Person) { p.Sex = []string{"F", "M"} })},
		{"U", set("P1", func(p *Person) { p.Sex = []string{"U"} })},
	}})
	out = append(out, slot{"P2.sex", []alt{
		{"M", set("P2", func(p *Person) { p.Sex = []string{"M"} })},
		{"none", set("P2", func(p *Person) { p.Sex = nil })},
		{"M+F+U", set("P2", func(p *Person) { p.Sex = []string{"M", "F", "U"} })},
	}})
	out = append(out, slot{"extra-date", []alt{
		{"garbage-on-P1", set("P1", func(p *Person) { p.Extra = append(p.Extra, "1 EVEN", "2 DATE garbage") })},
		{"valid-on-P1", set("P1", func(p *Person) { p.Extra = append(p.Extra, "1 EVEN", "2 DATE 4 Apr 1850") })},
		{"garbage-on-F1", func(d *Doc) { d.fam("F1").Extra = append(d.fam("F1").Extra, "1 EVEN", "2 DATE 31 Feb 1850") }},
		{"garbage-deep-on-C1", set("C1", func(p *Person) { p.Extra = append(p.Extra, "1 OCCU x", "2 SOUR y", "3 DATE Jan") })},
		{"two-garbage-on-P2", set("P2", func(p *Person) {
			p.Extra = append(p.Extra, "1 EVEN", "2 DATE 32 Jan 1850", "1 RESI", "2 DATE 1850 x")
		})},
	}})
	// dates below records that are neither individuals nor families
	head := []string{"0 HEAD", "1 SOUR x", "2 DATE 30 Feb 2001", "1 DATE 1 Jan 2001"}
	sour := []string{"0 @S1@ SOUR", "1 TITL t", "1 DATA", "2 EVEN BIRT", "3 DATE from then on", "1 CHAN", "2 DATE 2 Feb 2002"}
	custom := []string{"0 @X1@ _CUSTOM", "1 DATE 31 Apr 1900", "0 @N1@ NOTE n", "1 CHAN", "2 DATE 0 Jan 1900"}
	out = append(out, slot{"other-records", []alt{
		{"head-bad-date", func(d *Doc) { d.Pre = head }},
		{"source-bad-date-at-the-end", func(d *Doc) { d.Post = sour }},
		{"custom-and-note-bad-dates-after-first-record", func(d *Doc) { d.Mid = custom }},
		{"all-three", func(d *Doc) { d.Pre, d.Mid, d.Post = head, custom, sour }},
		{"good-dates-only", func(d *Doc) {
			d.Pre = []string{"0 HEAD", "1 DATE 1 Jan 2001"}
			d.Post = []string{"0 @S1@ SOUR", "1 CHAN", "2 DATE 2 Feb 2002", "0 TRLR"}
		}},
	}})
	return out
}

// a case: variant + list of (slot index, alt index) + optional permutation
type kase struct {
	Variant string   `json:"variant"`
	Devs    [][2]int `json:"devs"`
	Order   []string `json:"order,omitempty"`
	ChilRev bool     `json:"chil_reversed,omitempty"`
	Victim  int      `json:"victim,omitempty"` // unit rewarn: 1 + index of the line removed after the first report
}

func (k kase) doc() (*Doc, []string) {
	d := defaultDoc(k.Variant)
	ss := slots(k.Variant)
	var names []string
	for _, dv := range k.Devs {
		ss[dv[0]].alts[dv[1]].apply(d)
		names = append(names, ss[dv[0]].name+"="+ss[dv[0]].alts[dv[1]].name)
	}
	if k.Order != nil {
		d.Order = k.Order
	}
	if k.ChilRev {
		for _, f := range d.Fams {
			for i, j := 0, len(f.Chil)-1; i < j; i, j = i+1, j-1 {
				f.Chil[i], f.Chil[j] = f.Chil[j], f.Chil[i]
			}
		}
	}
	return d, names
}

func ptr(n *gedcom.IndividualNode) string {
	if n == nil {
		return "?"
	}
	return n.Pointer()
}

// implKeys maps the implementation's warnings to the reference's key form.
func contains(root gedcom.Node, n gedcom.Node) bool {
	for _, c := range root.Nodes() {
		if c == n || contains(c, n) {
			return true
		}
	}
	return false
}

func implKeys(ws gedcom.Warnings) (keys []string, ctxProblem string) {
	for _, w := range ws {
		ctx := w.Context()
		ctxRec := "-"
		if ctx.Individual != nil {
			ctxRec = "INDI:" + ctx.Individual.Pointer()
		} else if ctx.Family != nil {
			ctxRec = "FAM:" + ctx.Family.Pointer()
		}
		wantCtx := ""
		switch x := w.(type) {
		case *gedcom.ChildBornBeforeParentWarning:
			keys = append(keys, fmt.Sprintf("ChildBornBeforeParent|%s|%s", ptr(x.Parent), ptr(x.Child.Individual())))
			wantCtx = "FAM:" + x.Child.Family().Pointer()
		case *gedcom.SiblingsBornTooCloseWarning:
			ps := []string{ptr(x.Sibling1.Individual()), ptr(x.Sibling2.Individual())}
			sort.Strings(ps)
			keys = append(keys, fmt.Sprintf("SiblingsBornTooClose|%s|%s", x.Sibling1.Family().Pointer(), strings.Join(ps, "+")))
			wantCtx = "FAM:" + x.Sibling1.Family().Pointer()
		case *gedcom.MarriedOutOfRangeWarning:
			keys = append(keys, fmt.Sprintf("MarriedOutOfRange|%s|%s|%s", x.Family.Pointer(), ptr(x.Spouse), x.Boundary))
			wantCtx = "FAM:" + x.Family.Pointer()
		case *gedcom.IndividualTooOldWarning:
			keys = append(keys, "IndividualTooOld|"+ptr(x.Individual))
			wantCtx = "INDI:" + ptr(x.Individual)
		case *gedcom.IncorrectEventOrderWarning:
			keys = append(keys, fmt.Sprintf("IncorrectEventOrder|%s|%s-before-%s", ptr(ctx.Individual), x.FirstEvent.Tag().Tag(), x.SecondEvent.Tag().Tag()))
		case *gedcom.UnparsableDateWarning:
			// a date below a record that is neither an individual nor a family belongs to nobody (the context the
			// library attaches to such a warning is not part of the oracle)
			var rec gedcom.Node
			if ctx.Individual != nil {
				rec = ctx.Individual
			} else if ctx.Family != nil {
				rec = ctx.Family
			}
			if rec == nil || !contains(rec, x.Date) {
				ctxRec = "-"
			}
			keys = append(keys, fmt.Sprintf("UnparsableDate|%s|%s", ctxRec, x.Date.Value()))
		case *gedcom.MultipleSexesWarning:
			keys = append(keys, "MultipleSexes|"+ptr(x.Individual))
			wantCtx = "INDI:" + ptr(x.Individual)
		case *gedcom.InverseSpousesWarning:
			keys = append(keys, "InverseSpouses|"+x.Family.Pointer())
			wantCtx = "FAM:" + x.Family.Pointer()
		default:
			keys = append(keys, "Unknown:"+w.Name())
		}
		if wantCtx != "" && wantCtx != ctxRec {
			ctxProblem = fmt.Sprintf("%s: context is %s, found in %s", w.Name(), ctxRec, wantCtx)
		}
		// Name() must agree with the type
		if !strings.HasPrefix(keys[len(keys)-1], w.Name()+"|") {
			ctxProblem = fmt.Sprintf("warning of type %T calls itself %s", w, w.Name())
		}
		if p, msg, _ := vlib.Try(func() { _ = w.String() }); p {
			ctxProblem = "String() of " + w.Name() + " panics: " + msg
		}
	}
	sort.Strings(keys)
	return
}

func judge(k kase) (sig, what string) {
	d, names := k.doc()
	text := d.Text()
	model := ref.Decode(text, false, false)
	if model.Outcome != ref.Accept {
		panic("generated document not accepted by the reference decoder")
	}
	want := ref.Warnings(model.Roots)
	doc, err := gedcom.NewDocumentFromString(text)
	if err != nil {
		panic(err)
	}
	var ws gedcom.Warnings
	if p, msg, frame := vlib.Try(func() { ws = doc.Warnings() }); p {
		return "panic:" + frame + ":" + vlib.MsgClass(msg), fmt.Sprintf("Warnings() panicked: %s\ndeviations %v\n%s", msg, names, text)
	}
	got, ctxProblem := implKeys(ws)
	show := fmt.Sprintf("deviations %v order=%v chil_reversed=%v\nexpected %v\nreported %v\n%s", names, k.Order, k.ChilRev, want, got, text)
	if strings.Join(got, "\n") != strings.Join(want, "\n") {
		// first differing key decides the signature
		cnt := map[string]int{}
		for _, w := range want {
			cnt[w]++
		}
		for _, g := range got {
			cnt[g]--
		}
		var keys []string
		for key := range cnt {
			keys = append(keys, key)
		}
		sort.Strings(keys)
		for _, key := range keys {
			name := strings.SplitN(key, "|", 2)[0]
			if cnt[key] > 0 {
				return "missing:" + name, "expected warning not reported: " + key + "\n" + show
			}
			if cnt[key] < 0 {
				return "spurious:" + name, "reported warning not warranted (or reported too often): " + key + "\n" + show
			}
		}
	}
	if ctxProblem != "" {
		return "context-or-name-wrong", ctxProblem + "\n" + show
	}
	return "", ""
}

func devSets(nSlots int, ss []slot, maxDev int) [][][2]int {
	out := [][][2]int{{}}
	for i := 0; i < nSlots; i++ {
		for a := range ss[i].alts {
			out = append(out, [][2]int{{i, a}})
		}
	}
	if maxDev >= 2 {
		for i := 0; i < nSlots; i++ {
			for j := i + 1; j < nSlots; j++ {
				for a := range ss[i].alts {
					for b := range ss[j].alts {
						out = append(out, [][2]int{{i, a}, {j, b}})
					}
				}
			}
		}
	}
	if maxDev >= 3 {
		for i := 0; i < nSlots; i++ {
			for j := i + 1; j < nSlots; j++ {
				for l := j + 1; l < nSlots; l++ {
					for a := range ss[i].alts {
						for b := range ss[j].alts {
							for c := range ss[l].alts {
								out = append(out, [][2]int{{i, a}, {j, b}, {l, c}})
							}
						}
					}
				}
			}
		}
	}
	return out
}

var variants = []string{"k0", "k1", "k2", "k3", "small"}

func maxDev(tier string) int {
	if tier == "thorough" {
		return 3
	}
	return 2
}

func run(tier, unit string, r *vlib.Rec) {
	name, lo, hi := vlib.ParseChunk(unit)
	p := strings.Split(name, ":")
	variant := p[1]
	ss := slots(variant)
	switch p[0] {
	case "assign":
		sets := devSets(len(ss), ss, maxDev(tier))
		for i := lo; i < hi; i++ {
			k := kase{Variant: variant, Devs: sets[i]}
			r.Eval()
			for _, dv := range k.Devs {
				r.Count("slot:" + ss[dv[0]].name + "=" + ss[dv[0]].alts[dv[1]].name)
			}
			d, _ := k.doc()
			text := d.Text()
			model := ref.Decode(text, false, false)
			exp := ref.Warnings(model.Roots)
			for _, e := range exp {
				r.Count("expected:" + strings.SplitN(e, "|", 2)[0])
			}
			if len(exp) > 0 {
				r.Nontrivial(text)
			} else {
				r.Count("expected:none")
			}
			if s, w := judge(k); s != "" {
				r.Fail(s, w, k)
			} else if r.WantSample() && len(exp) >= 2 {
				r.Sample(map[string]interface{}{"document": text, "warnings": exp})
			}
		}
	case "rewarn": // every single removal of a line (depth 1 and 2) after the warnings have been asked for, assignments with <=1 deviation (thorough: <=2)
		sets := devSets(len(ss), ss, maxDev(tier)-1)
		for i := lo; i < hi; i++ {
			for vi := 0; ; vi++ {
				k := kase{Variant: variant, Devs: sets[i], Victim: vi + 1}
				s, w, ok := judgeAfterEdit(k, vi)
				if !ok {
					break
				}
				r.Eval()
				r.Count("rewarn")
				if s != "" {
					r.Fail(s, w, k)
				}
			}
		}
	case "perm": // all record orders and child orders of the 5-record skeleton, for assignments with <=1 deviation (quick) / <=2 (thorough)
		sets := devSets(len(ss), ss, maxDev(tier)-1)
		base := defaultDoc(variant)
		var ptrs []string
		for _, pp := range base.People {
			ptrs = append(ptrs, pp.Ptr)
		}
		for _, f := range base.Fams {
			ptrs = append(ptrs, f.Ptr)
		}
		for i := lo; i < hi; i++ {
			gen.Permutations(len(ptrs), func(pm []int) {
				order := make([]string, len(pm))
				for a, b := range pm {
					order[a] = ptrs[b]
				}
				for _, rev := range []bool{false, true} {
					k := kase{Variant: variant, Devs: sets[i], Order: order, ChilRev: rev}
					r.Eval()
					r.Count("perm")
					if s, w := judge(k); s != "" {
						r.Fail("permuted:"+s, w, k)
					}
				}
			})
		}
	}
}

func plan(tier string) []string {
	var out []string
	for _, v := range variants {
		ss := slots(v)
		out = append(out, vlib.Chunks("assign:"+v, int64(len(devSets(len(ss), ss, maxDev(tier)))), 300)...)
	}
	for _, v := range []string{"k2", "small"} {
		ss := slots(v)
		out = append(out, vlib.Chunks("rewarn:"+v, int64(len(devSets(len(ss), ss, maxDev(tier)-1))), 8)...)
	}
	ss := slots("small")
	out = append(out, vlib.Chunks("perm:small", int64(len(devSets(len(ss), ss, maxDev(tier)-1))), 4)...)
	return out
}

func replay(c json.RawMessage) (string, string) {
	var k kase
	json.Unmarshal(c, &k)
	if k.Victim > 0 {
		s, w, _ := judgeAfterEdit(k, k.Victim-1)
		return s, w
	}
	s, w := judge(k)
	if s != "" && k.Order != nil {
		s = "permuted:" + s
	}
	return s, w
}

func main() {
	vlib.Main(&vlib.Check{
		ID:    "C20",
		Level: "exploration",
		Rule: "cases: skeletons (two families sharing the father with 0..3 children in the first and one in the second; one family with two children) with every date/sex slot at its no-warning default, then every assignment with <=2 (quick) / <=3 (thorough) slots deviating to a value placed clearly on one side of a threshold (rewarn: after the warnings were asked for, every single line at depth 1 and 2 removed with DeleteNode in turn and the warnings asked for again, against a fresh decode of the present text; sibling gaps -400d..+280d incl. 1,2,273,274 days; marriage at 16y/100y -+30d; death at 100y -+40d; baptism/burial one day before / same day / after; sexes; unparsable DATEs at several depths); for the 5-record skeleton all 120 record orders x both child orders. " +
			"Non-trivial = documents for which the reference expects at least one warning; distinct by text.",
		Assumptions: []string{
			"reference evaluator ref/warn.go works on the reference decoder's tree and on own day arithmetic; ages use 365.25-day years and every threshold slot keeps >=30 days distance from it",
			"all dates are >=120 years in the past; nothing depends on the clock",
			"Warnings() is called on a freshly decoded document each time (its side effects are C13's business)",
			"a warning's people are read from the typed warning structs",
		},
		Plan:   plan,
		Run:    run,
		Replay: replay,
		Required: func(string) []string {
			return []string{"perm", "expected:none", "expected:ChildBornBeforeParent", "expected:SiblingsBornTooClose", "expected:MarriedOutOfRange", "expected:IndividualTooOld",
				"expected:IncorrectEventOrder", "expected:UnparsableDate", "expected:MultipleSexes", "expected:InverseSpouses", "rewarn", "slot:other-records=all-three"}
		},
		Deadline: func(tier string) time.Duration {
			if tier == "thorough" {
				return 25 * time.Minute
			}
			return 8 * time.Minute
		},
	})
}
