// C18 — file content can never change the structure of a published page.
// Every value position of a document carries a unique taint token containing
// < > " ' and &; each position tainted alone and all together, over every page
// of a full publish (three visibilities), the diff report, HTML query output
// and the warnings table. Every page must tokenize strictly, be well nested,
// and every taint token must sit in escaped form inside a text node or a quoted
// attribute value.
package main

import (
	"bytes"
	"encoding/json"
	"fmt"
	"html"
	"strings"
	"time"

	"github.com/elliotchance/gedcom/v39"
	ghtml "github.com/elliotchance/gedcom/v39/html"
	"github.com/elliotchance/gedcom/v39/q"
	"verif/harness/pub"
	"verif/harness/vlib"
)

// a document template: {P<n>} placeholders are value positions
var template = []string{
	"0 HEAD",
	"1 CHAR UTF-8",
	"0 @{ptr-indi}@ INDI",
	"1 NAME {given} /{surname}/",
	"2 GIVN {givn}",
	"2 SURN {surn}",
	"2 NPFX {npfx}",
	"2 NSFX {nsfx}",
	"2 SPFX {spfx}",
	"2 TITL {name-titl}",
	"2 NICK {nick}",
	"2 TYPE {name-type}",
	"1 NAME {alt-given} /{alt-surname}/",
	"2 TYPE {alt-type}",
	"1 SEX {sex}",
	"1 BIRT {birt-value}",
	"2 DATE {birt-date}",
	"2 PLAC {birt-plac}",
	"3 FORM {plac-form}",
	"3 MAP",
	"4 LATI {lati}",
	"4 LONG {long}",
	"2 SOUR @{ptr-sour}@",
	"3 PAGE {sour-page}",
	"2 NOTE {birt-note}",
	"1 DEAT",
	"2 DATE {deat-date}",
	"2 PLAC {deat-plac}",
	"1 EVEN {even-value}",
	"2 TYPE {even-type}",
	"2 DATE {even-date}",
	"1 CENS", // an event without a date: no age can be calculated, the recorded one may be shown
	"2 AGE {cens-age}",
	"2 PLAC {cens-plac}",
	"1 RESI {resi-value}",
	"2 DATE {resi-date}",
	"2 PLAC {resi-plac}",
	"1 OCCU {occu}",
	"1 EDUC {educ}",
	"1 NOTE {note}",
	"1 _UID {uid}",
	"1 _CUSTOM {custom}",
	"1 FAMS @{ptr-fam}@",
	"0 @I2@ INDI",
	"1 NAME Plain /Partner/",
	"1 SEX F",
	"1 BIRT",
	"2 DATE 1 Jan 1801",
	"1 DEAT Y",
	"1 FAMS @{ptr-fam}@",
	"0 @I3@ INDI",
	"1 NAME Child /{surname}/",
	"1 BIRT",
	"2 DATE 1 Mar 1826",
	"1 DEAT Y",
	"1 FAMC @{ptr-fam}@",
	"0 @{ptr-nameless}@ INDI", // a person without any NAME: components fall back to other data
	"1 SEX M",
	"1 BIRT",
	"2 DATE 1 Mar 1828",
	"1 DEAT Y",
	"1 FAMC @{ptr-fam}@",
	"0 @{ptr-fam}@ FAM",
	"1 HUSB @{ptr-indi}@",
	"1 WIFE @I2@",
	"1 CHIL @I3@",
	"1 CHIL @{ptr-nameless}@",
	"1 MARR {marr-value}",
	"2 DATE {marr-date}",
	"2 PLAC {marr-plac}",
	"1 NOTE {fam-note}",
	"0 @{ptr-sour}@ SOUR",
	"1 TITL {sour-titl}",
	"1 AUTH {sour-auth}",
	"1 PUBL {sour-publ}",
	"2 DATE {sour-publ-date}",
	"1 REPO {sour-repo}",
	"2 CALN {sour-caln}",
	"1 _SPROP {sour-custom}",
	"0 TRLR",
}

var defaults = map[string]string{
	"ptr-indi": "I1", "ptr-fam": "F1", "ptr-sour": "S1", "ptr-nameless": "I4", "given": "Taint", "surname": "Target", "givn": "Taint", "surn": "Target", "npfx": "Dr", "nsfx": "Jr", "spfx": "van",
	"name-titl": "Sir", "nick": "Tee", "name-type": "birth", "alt-given": "Other", "alt-surname": "Name", "alt-type": "married", "sex": "M", "birt-value": "", "birt-date": "1 Jan 1800",
	"birt-plac": "Oldtown, England", "plac-form": "City, Country", "lati": "N51", "long": "W1", "sour-page": "12", "birt-note": "a note", "deat-date": "1 Jan 1870", "deat-plac": "Newtown, England",
	"even-value": "Graduation", "even-type": "school", "even-date": "1820", "resi-value": "", "cens-age": "42y", "cens-plac": "Censustown, England", "resi-date": "1830", "resi-plac": "Midtown, England", "occu": "Farrier", "educ": "School", "note": "note",
	"uid": "EE13561DDB204985BFFDEEBF82A5226C5B2E", "custom": "custom", "marr-value": "", "marr-date": "1 Jun 1825", "marr-plac": "Church, England", "fam-note": "family note",
	"sour-titl": "Register", "sour-auth": "Author", "sour-publ": "Publisher", "sour-publ-date": "1900", "sour-repo": "Repo", "sour-caln": "Call", "sour-custom": "Custom",
}

var positions = func() []string {
	var out []string
	seen := map[string]bool{}
	for _, l := range template {
		for {
			i := strings.Index(l, "{")
			if i < 0 {
				break
			}
			j := strings.Index(l[i:], "}")
			name := l[i+1 : i+j]
			if !seen[name] {
				seen[name] = true
				out = append(out, name)
			}
			l = l[i+j+1:]
		}
	}
	return out
}()

// tokenSuffix is appended to every taint token of a case ("" or a literal &nbsp; that the Text component treats specially).
var tokenSuffix = ""

// tokenLead is put in front of every taint token of a case ("" or one special character: a value
// whose first character already needs escaping).
var tokenLead = ""

func token(i int) string  { return tokenLead + fmt.Sprintf("T%dx<>\"'&y", i) + tokenSuffix }
func prefix(i int) string { return fmt.Sprintf("T%dx", i) }

func posIndex(name string) int {
	for i, p := range positions {
		if p == name {
			return i
		}
	}
	return -1
}

// document with the given positions tainted.
func document(tainted map[string]bool) string {
	var sb strings.Builder
	for _, l := range template {
		for _, p := range positions {
			v := defaults[p]
			if tainted[p] {
				v = token(posIndex(p))
				if strings.HasPrefix(p, "ptr-") {
					v = strings.ReplaceAll(v, "@", "")
				}
				if p == "surname" || p == "given" || p == "alt-surname" || p == "alt-given" {
					v = strings.ReplaceAll(v, "/", "")
				}
			}
			l = strings.ReplaceAll(l, "{"+p+"}", v)
		}
		sb.WriteString(strings.TrimRight(l, " ") + "\n")
	}
	return sb.String()
}

type finding struct{ sig, what string }

// checkPage applies the structural oracle to one page.
func checkPage(kind, name, body string, tainted map[string]bool) (fs []finding) {
	add := func(sig, what string) {
		for _, f := range fs {
			if f.sig == sig {
				return
			}
		}
		fs = append(fs, finding{sig, what})
	}
	which := func(text string) []string {
		var ps []string
		for p := range tainted {
			if strings.Contains(text, prefix(posIndex(p))) {
				ps = append(ps, p)
			}
		}
		if len(ps) == 0 {
			ps = []string{"?"}
		}
		return ps
	}
	toks, err := pub.Tokenize(body)
	if err != nil {
		// attribute the broken page to the taint token nearest to the error position
		pos := "?"
		msg := err.Error()
		var at int
		fmt.Sscanf(msg[strings.LastIndex(msg, " at ")+4:], "%d", &at)
		best := -1
		for p := range tainted {
			for off := 0; ; {
				i := strings.Index(body[off:], prefix(posIndex(p)))
				if i < 0 {
					break
				}
				i += off
				if i <= at+200 && i > best && i >= at-400 {
					best, pos = i, p
				}
				off = i + 1
			}
		}
		lo, hi := at-80, at+80
		if lo < 0 {
			lo = 0
		}
		if hi > len(body) {
			hi = len(body)
		}
		add("page-not-tokenizable:"+kind+":"+pos, fmt.Sprintf("%s (%s): %v near %q", name, kind, err, body[lo:hi]))
		return
	}
	if err := pub.CheckNesting(toks); err != nil {
		add("page-not-well-nested:"+kind, fmt.Sprintf("%s: %v", name, err))
	}
	hasTaint := func(s string) bool { return strings.Contains(s, "T") && len(which(s)) > 0 && which(s)[0] != "?" }
	for _, t := range toks {
		switch t.Kind {
		case "text":
			if hasTaint(t.Text) {
				for _, p := range which(t.Text) {
					if rawAfter(t.Text, prefix(posIndex(p)), "&y") {
						add("unescaped-ampersand-in-text:"+kind+":"+p, fmt.Sprintf("%s: %q", name, clip(t.Text)))
					}
				}
			}
		case "comment", "raw":
			if hasTaint(t.Text) {
				for _, p := range which(t.Text) {
					add("taint-in-"+t.Kind+"-"+t.Name+":"+kind+":"+p, fmt.Sprintf("%s: %q", name, clip(t.Text)))
				}
			}
		case "start", "end":
			if hasTaint(t.Name) {
				add("taint-in-tag-name:"+kind, name)
			}
			for _, a := range t.Attrs {
				if hasTaint(a.Name) {
					for _, p := range which(a.Name) {
						add("taint-in-attribute-name:"+kind+":"+p, fmt.Sprintf("%s: <%s ... %s>", name, t.Name, a.Name))
					}
				}
				if !hasTaint(a.Value) {
					continue
				}
				for _, p := range which(a.Value) {
					pre := prefix(posIndex(p))
					if a.Quote == 0 {
						add("taint-in-unquoted-attribute:"+kind+":"+p, fmt.Sprintf("%s: %s=%s", name, a.Name, a.Value))
						continue
					}
					if rawAfter(a.Value, pre, "<") || rawAfter(a.Value, pre, ">") || rawAfter(a.Value, pre, "&y") {
						add("unescaped-in-attribute-value:"+t.Name+"."+a.Name+":"+kind+":"+p, fmt.Sprintf("%s: <%s %s=%q>", name, t.Name, a.Name, clip(a.Value)))
					}
					if strings.HasPrefix(a.Name, "on") {
						// executable position: after attribute decoding the JavaScript string must not be broken
						js := html.UnescapeString(a.Value)
						if i := strings.Index(js, pre); i >= 0 && strings.Contains(js[i:], "'") && strings.Contains(js[:i], "'") {
							add("taint-breaks-js-string:"+t.Name+"."+a.Name+":"+kind+":"+p, fmt.Sprintf("%s: <%s %s=%q>", name, t.Name, a.Name, clip(a.Value)))
						}
					}
				}
			}
		}
	}
	return
}

// rawAfter: somewhere after an occurrence of prefix (within the token's length) the raw string what appears.
func rawAfter(s, pre, what string) bool {
	for off := 0; ; {
		i := strings.Index(s[off:], pre)
		if i < 0 {
			return false
		}
		i += off
		end := i + len(pre) + 40
		if end > len(s) {
			end = len(s)
		}
		if strings.Contains(s[i:end], what) {
			return true
		}
		off = i + 1
	}
}

func clip(s string) string {
	if len(s) > 160 {
		return s[:160]
	}
	return s
}

type kase struct {
	Tainted []string `json:"tainted"` // position names; ["*"] = all
	Surface string   `json:"surface"` // publish-show | publish-hide | publish-placeholder | diff-<show>-<order> | query-<n> | warnings
	Suffix  string   `json:"suffix,omitempty"`
	Lead    string   `json:"lead,omitempty"`
}

func taintSet(names []string) map[string]bool {
	m := map[string]bool{}
	if len(names) == 1 && names[0] == "*" {
		for _, p := range positions {
			m[p] = true
		}
		return m
	}
	for _, n := range names {
		m[n] = true
	}
	return m
}

var queries = []string{".Individuals", ".Individuals | .Name", ".Individuals | .Name | .String", ".Individuals | { name: .Name | .String, born: .Birth | .String }", ".Families", ".Sources", ".Nodes", ".Individuals | .Nodes", ".Warnings", ".Individuals | .String", "?", ".Places", ".Individuals | .SpouseChildren", ".Individuals | .Places"}

func surfaces() []string {
	out := []string{"publish-show", "publish-hide", "publish-placeholder", "warnings"}
	for _, show := range []string{"all", "subset", "only-matches"} {
		for _, order := range []string{"tainted-left", "tainted-right", "tainted-both"} {
			out = append(out, "diff-"+show+"-"+order)
		}
	}
	for i := range queries {
		out = append(out, fmt.Sprintf("query-%d", i))
	}
	return out
}

func render(k kase) (pages []pub.Page, note string) {
	tainted := taintSet(k.Tainted)
	text := document(tainted)
	doc, err := gedcom.NewDocumentFromString(text)
	if err != nil {
		return nil, "document not accepted by the decoder: " + err.Error()
	}
	switch {
	case strings.HasPrefix(k.Surface, "publish-"):
		vis := map[string]ghtml.LivingVisibility{"publish-show": ghtml.LivingVisibilityShow, "publish-hide": ghtml.LivingVisibilityHide, "publish-placeholder": ghtml.LivingVisibilityPlaceholder}[k.Surface]
		w, _ := pub.Publish(doc, pub.Options(63, vis), 1, 0)
		return w.Sorted(), ""
	case k.Surface == "warnings":
		var buf bytes.Buffer
		// make sure there are warnings that quote the values
		doc.Warnings().WriteHTMLTo(&buf)
		return []pub.Page{{Name: "warnings", Body: buf.String()}}, ""
	case strings.HasPrefix(k.Surface, "diff-"):
		p := strings.Split(k.Surface, "-")
		show, order := p[1], p[len(p)-1]
		if p[1] == "only" {
			show = "only-matches"
		}
		clean, _ := gedcom.NewDocumentFromString(document(nil))
		left, right := doc, clean
		switch order {
		case "right":
			left, right = clean, doc
		case "both":
			right, _ = gedcom.NewDocumentFromString(text)
		}
		opts := gedcom.NewIndividualNodesCompareOptions()
		comparisons := left.Individuals().Compare(right.Individuals(), opts)
		progress := make(chan gedcom.Progress, 100000)
		page := ghtml.NewDiffPage(comparisons, &gedcom.FilterFlags{}, "", show, ghtml.DiffPageSortWrittenName, progress, gedcom.NewIndividualNodesCompareOptions(), ghtml.LivingVisibilityShow)
		var buf bytes.Buffer
		done := make(chan struct{})
		go func() {
			for range progress {
			}
			close(done)
		}()
		var perr string
		func() {
			defer func() {
				if r := recover(); r != nil {
					perr = fmt.Sprint(r)
				}
			}()
			page.WriteHTMLTo(&buf)
		}()
		close(progress)
		<-done
		return []pub.Page{{Name: "diff", Body: buf.String(), Panic: perr}}, ""
	case strings.HasPrefix(k.Surface, "query-"):
		var n int
		fmt.Sscanf(k.Surface, "query-%d", &n)
		eng, err := q.NewParser().ParseString(queries[n])
		if err != nil {
			return nil, err.Error()
		}
		v, err := eng.Evaluate([]*gedcom.Document{doc})
		if err != nil {
			return nil, "query error: " + err.Error()
		}
		var buf bytes.Buffer
		perr := ""
		func() {
			defer func() {
				if r := recover(); r != nil {
					perr = fmt.Sprint(r)
				}
			}()
			(&q.HTMLFormatter{Writer: &buf}).Write(v)
		}()
		return []pub.Page{{Name: "query", Body: buf.String(), Panic: perr}}, ""
	}
	return nil, "unknown surface"
}

func pageKind(surface, name string) string {
	if !strings.HasPrefix(surface, "publish-") {
		if strings.HasPrefix(surface, "diff-") {
			return "diff"
		}
		if strings.HasPrefix(surface, "query-") {
			return "query"
		}
		return surface
	}
	switch {
	case strings.HasPrefix(name, "individuals-"):
		return "individual-list"
	case name == "surnames.html", name == "places.html", name == "families.html", name == "sources.html", name == "statistics.html":
		return strings.TrimSuffix(name, ".html")
	}
	return "detail-page"
}

func judge(k kase) (fs []finding, pages int, taintSeen bool) {
	tokenSuffix = k.Suffix
	tokenLead = k.Lead
	ps, _ := render(k)
	tainted := taintSet(k.Tainted)
	for _, p := range ps {
		pages++
		if p.Panic != "" {
			continue
		}
		for t := range tainted {
			if strings.Contains(p.Body, prefix(posIndex(t))) {
				taintSeen = true
			}
		}
		for _, f := range checkPage(pageKind(k.Surface, p.Name), p.Name, p.Body, tainted) {
			dup := false
			for _, g := range fs {
				if g.sig == f.sig {
					dup = true
				}
			}
			if !dup {
				fs = append(fs, f)
			}
		}
	}
	return
}

func cases(tier string) []kase {
	var out []kase
	for _, s := range surfaces() {
		out = append(out, kase{Tainted: []string{"*"}, Surface: s}, kase{Tainted: nil, Surface: s})
		for _, p := range positions {
			out = append(out, kase{Tainted: []string{p}, Surface: s})
		}
	}
	// the same with a literal &nbsp; after the token
	n := len(out)
	for i := 0; i < n; i++ {
		if out[i].Tainted != nil {
			// a literal entity after the token (values that look "already escaped")
			for _, sfx := range []string{"&nbsp;z", "&amp;z", "&#39;&lt;z"} {
				k := out[i]
				k.Suffix = sfx
				out = append(out, k)
			}
			// ... and with a special character as the very first character of the value
			for _, lead := range []string{"<", "\"", "&"} {
				k := out[i]
				k.Lead = lead
				out = append(out, k)
			}
			// a literal entity in FRONT of the token, and on both sides (what follows the specially treated
			// &nbsp; must be escaped like everything else)
			for _, lead := range []string{"a&nbsp;", "&nbsp;&nbsp;", "&amp;"} {
				k := out[i]
				k.Lead = lead
				out = append(out, k)
			}
			kb := out[i]
			kb.Lead, kb.Suffix = "a&nbsp;", "&nbsp;z"
			out = append(out, kb)
			// in parentheses: a DATE of that shape is a date phrase, kept as written
			kp := out[i]
			kp.Lead, kp.Suffix = "(", ")"
			out = append(out, kp)
		}
	}
	if tier == "thorough" {
		// every pair of tainted positions (interactions between two hostile values on one page) on the
		// surfaces that render whole records, and lead x suffix combined on every single position
		for _, s := range []string{"publish-show", "publish-placeholder", "diff-all-tainted-both", "diff-all-tainted-left", "query-6"} {
			for i, p := range positions {
				for _, q := range positions[i+1:] {
					out = append(out, kase{Tainted: []string{p, q}, Surface: s})
				}
			}
		}
		for _, s := range surfaces() {
			for _, p := range positions {
				for _, lead := range []string{"<", "\"", "&", "'", ">"} {
					out = append(out, kase{Tainted: []string{p}, Surface: s, Lead: lead, Suffix: "&nbsp;z"})
				}
			}
		}
	}
	return out
}

func run(tier, unit string, r *vlib.Rec) {
	_, lo, hi := vlib.ParseChunk(unit)
	cs := cases(tier)
	after := vlib.After(unit)
	for i := lo; i < hi; i++ {
		k := cs[i]
		if after != "" {
			if vlib.JSON(k) == after {
				after = ""
			}
			continue
		}
		r.Begin(k)
		r.Eval()
		fs, pages, seen := judge(k)
		r.Add("pages-checked", int64(pages))
		r.Count("surface:" + strings.SplitN(k.Surface, "-", 2)[0])
		if seen {
			r.Count("taint-reached-output")
			r.Nontrivial(vlib.JSON(k))
		}
		for _, p := range k.Tainted {
			r.Count("position:" + p)
		}
		for _, f := range fs {
			r.Fail(f.sig, f.what, k)
		}
		if len(fs) == 0 && seen && r.WantSample() {
			r.Sample(k)
		}
	}
}

func plan(tier string) []string { return vlib.Chunks("cases", int64(len(cases(tier))), 12) }

func replay(c json.RawMessage) (string, string) {
	var k kase
	json.Unmarshal(c, &k)
	fs, pages, seen := judge(k)
	var ss []string
	obs := fmt.Sprintf("case %+v: %d pages, taint reached the output: %v\n", k, pages, seen)
	for _, f := range fs {
		ss = append(ss, f.sig)
		obs += f.sig + ": " + f.what + "\n"
	}
	return strings.Join(ss, "\x1f"), obs
}

func main() {
	vlib.Main(&vlib.Check{
		ID:    "C18",
		Level: "exploration",
		Rule: "cases: " + fmt.Sprint(len(positions)) + " value positions of a document template (record pointers, NAME and every name part, TYPE, SEX, event values, DATE, PLAC with FORM/MAP/LATI/LONG, NOTE, OCCU/EDUC/custom attributes, _UID, source title and properties at two depths, citation PAGE) each tainted alone, all together and none (control) x " + fmt.Sprint(len(surfaces())) + " surfaces: every page of a full publish under show/hide/placeholder, the diff report (3 -show values x tainted left/right/both), HTML query output for 11 queries (nodes, lists, objects, strings, warnings) and Warnings.WriteHTMLTo. Every page is tokenized by a strict tokenizer and checked for nesting; every occurrence of a taint token must lie in a text node or a quoted attribute value with < > & in escaped form, never in a tag or attribute name, an unquoted value, a script/style element, a comment, or break the JavaScript string of an event handler. " +
			"Non-trivial = cases whose taint reaches the output; distinct by (tainted positions, surface).",
		Assumptions: []string{
			"taint token T<n>x<>\"'&y, also followed and/or preceded by a literal '&nbsp;' (core.Text treats &nbsp; specially); '@' cannot occur in pointers and '/' not inside the name slashes (GEDCOM itself)",
			"own tokenizer (harness/pub): tags, quoted/unquoted attributes, text, comments, doctype, raw-text elements script/style; anything else is an error of the page",
			"file names are C19's business",
		},
		Plan:   plan,
		Run:    run,
		Replay: replay,
		DiedSig: func(c json.RawMessage, stderr string) (string, string) {
			return "process-died:" + vlib.MsgClass(stderr), stderr[:minInt(len(stderr), 400)]
		},
		Required: func(string) []string {
			req := []string{"surface:publish", "surface:diff", "surface:query", "surface:warnings", "taint-reached-output", "pages-checked"}
			for _, p := range positions {
				req = append(req, "position:"+p)
			}
			return req
		},
		Deadline: func(tier string) time.Duration { return 20 * time.Minute },
	})
}

func minInt(a, b int) int {
	if a < b {
		return a
	}
	return b
}
