#!/bin/bash
set -eu
export GOFLAGS=-mod=mod GOPROXY=off GOSUMDB=off GOTOOLCHAIN=local
V="${VERIF_DIR:-/verif}"
R="${VERIF_REPO:-/repo}"
mkdir -p "$V/.build"
# the real command-line binary for the cli cases
(cd "$R" && go build -o "$V/.build/gedcom-bin-c17" ./cmd/gedcom)
(cd "$V/harness" && go build -o "$1" ./cmd/c17)
