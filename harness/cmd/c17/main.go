// C17 — published sites reveal nothing about living people when told not to.
// One or two living people (all personal strings are unique marker tokens) in
// every role x {hide, placeholder} x all 64 page-group subsets x jobs {1,2};
// marker search over every generated file, the hide differential, and the
// positive control (show) plus dead people's pages.
package main

import (
	"encoding/json"
	"fmt"
	"path/filepath"
	"regexp"
	"sort"
	"strings"
	"time"

	"github.com/elliotchance/gedcom/v39"
	ghtml "github.com/elliotchance/gedcom/v39/html"
	"verif/harness/pub"
	"verif/harness/vlib"
)

var roles = []string{"unconnected", "child-of-dead-parents", "spouse-of-dead", "parent-of-dead-child", "shares-surname-with-dead", "shares-surname-sorts-first", "shares-place-with-dead", "spouse-of-dead-with-dead-child", "death-record-removed-after-first-publishing",
	"no-birth-at-all", "buried-but-no-death", "two-names", "source-citation", "nickname-and-note", "birth-date-phrase", "birth-date-without-year", "birth-date-empty"}

// person block of a living person with marker prefix mk (e.g. "Zq7L") in a role; variant changes all personal data (for the hide differential).
type living struct {
	ptr     string
	mk      string
	role    string
	variant int
}

// sharesSurname: the person carries a dead person's surname (only in variant 0: the variant of
// the hide differential renames the person completely, surname included).
func (l living) sharesSurname() bool {
	return (l.role == "shares-surname-with-dead" || l.role == "shares-surname-sorts-first") && l.variant == 0
}

func (l living) markers() []string {
	m := []string{l.mk + "given", l.mk + "alt", l.mk + "nick", l.mk + "note", l.mk + "occu"}
	if !l.sharesSurname() {
		m = append(m, l.mk+"surn")
	}
	if l.role != "shares-place-with-dead" {
		m = append(m, l.mk+"place")
	}
	if l.variant == 1 {
		for i := range m {
			m[i] += "v"
		}
	}
	return m
}

func (l living) lines(birthYear int) []string {
	v := ""
	if l.variant == 1 {
		v = "v"
		birthYear -= 3
	}
	surname := l.mk + "surn" + v
	if l.sharesSurname() {
		surname = "Zq7Dsurn1"
	}
	given := l.mk + "given" + v
	if l.role == "shares-surname-sorts-first" {
		given = "Aa" + given // sorts before every dead bearer of the surname
	}
	place := l.mk + "place" + v + ", " + l.mk + "place" + v + "land"
	if l.role == "shares-place-with-dead" {
		place = "Zq7Dplace1, Deadland"
	}
	out := []string{fmt.Sprintf("0 @%s@ INDI", l.ptr), fmt.Sprintf("1 NAME %s /%s/", given, surname), "1 SEX F"}
	if l.role == "two-names" || true {
		out = append(out, fmt.Sprintf("1 NAME %salt%s /%s/", l.mk, v, surname), "2 TYPE married")
	}
	if l.role != "no-birth-at-all" {
		date := fmt.Sprintf("2 DATE %d Jun %d", 3+l.variant, birthYear)
		switch l.role {
		case "birth-date-phrase":
			date = "2 DATE (private)"
		case "birth-date-without-year":
			date = fmt.Sprintf("2 DATE %d MAR", 3+l.variant)
		case "birth-date-empty":
			date = "2 DATE"
		}
		out = append(out, "1 BIRT", date, "2 PLAC "+place)
		if l.role == "source-citation" {
			out = append(out, "2 SOUR @S1@")
		}
	}
	if l.role == "buried-but-no-death" {
		out = append(out, "1 BURI", fmt.Sprintf("2 DATE %d Jul %d", 9+l.variant, birthYear+30), "2 PLAC "+place)
	}
	if l.role == "death-record-removed-after-first-publishing" {
		out = append(out, "1 DEAT Y") // wrongly recorded; removed through the API between two publishings
	}
	out = append(out, fmt.Sprintf("1 NICK %snick%s", l.mk, v), fmt.Sprintf("1 NOTE %snote%s", l.mk, v), fmt.Sprintf("1 OCCU %soccu%s", l.mk, v), "2 DATE "+fmt.Sprint(birthYear+20+l.variant),
		// places outside the events: below an attribute, below a user-defined tag, and one level deeper
		fmt.Sprintf("2 PLAC %soccuplace%s, %socculand%s", l.mk, v, l.mk, v),
		fmt.Sprintf("1 _MILT %smilt%s", l.mk, v), fmt.Sprintf("2 PLAC %smiltplace%s, %smiltland%s", l.mk, v, l.mk, v),
		"1 EDUC", "2 DATE "+fmt.Sprint(birthYear+18), fmt.Sprintf("2 NOTE %sedunote%s", l.mk, v), fmt.Sprintf("3 PLAC %sdeepplace%s, %sdeepland%s", l.mk, v, l.mk, v))
	return out
}

type kase struct {
	Roles   []string `json:"roles"`
	Living  string   `json:"living"` // hide | placeholder | show
	Mask    int      `json:"mask"`
	Jobs    int      `json:"jobs"`
	Variant int      `json:"variant,omitempty"`
	Prior   string   `json:"prior,omitempty"`           // publish the same document object with this visibility first
	CLI     bool     `json:"cli,omitempty"`             // through the built `gedcom publish` command instead of the library
	As      string   `json:"living_as_typed,omitempty"` // cli: the -living value as typed ("" = flag not given: the default is placeholder)
}

var cliBinary = filepath.Join(vlib.VerifDir, ".build", "gedcom-bin-c17")

// cliRefused is set by publish when the command did not accept its arguments (nothing published: nothing to leak)
var cliRefused bool

var deadMarkers = []string{"Zq7Dgiven1", "Zq7Dsurn1", "Zq7Dgiven2", "Zq7Dsurn2", "Zq7Dgiven3", "Zq7Dgiven4", "Zq7Dplace1"}

func document(rolesOf []string, variant int) (string, [][]string) {
	year := time.Now().Year() - 40
	l := []string{
		"0 HEAD", "1 CHAR UTF-8",
		"0 @D1@ INDI", "1 NAME Zq7Dgiven1 /Zq7Dsurn1/", "1 SEX M", "1 BIRT", "2 DATE 1 Jan 1800", "2 PLAC Zq7Dplace1, Deadland", "1 DEAT", "2 DATE 1 Jan 1870", "1 FAMS @F1@",
		"0 @D2@ INDI", "1 NAME Zq7Dgiven2 /Zq7Dsurn2/", "1 SEX F", "1 BIRT", "2 DATE 1 Jan 1802", "1 DEAT Y", "1 FAMS @F1@",
		"0 @D3@ INDI", "1 NAME Zq7Dgiven3 /Zq7Dsurn1/", "1 SEX M", "1 BIRT", "2 DATE 1 Jan 1830", "2 SOUR @S1@", "1 DEAT Y", "1 FAMC @F1@",
		"0 @D4@ INDI", "1 NAME Zq7Dgiven4 /Zq7Dsurn1/", "1 SEX M", "1 BIRT", "2 DATE 1 Jan 1860", "1 DEAT", "2 DATE 1 Jan 1861",
	}
	fam1 := []string{"0 @F1@ FAM", "1 HUSB @D1@", "1 WIFE @D2@", "1 CHIL @D3@", "1 MARR", "2 DATE 1 Jun 1825"}
	var extraFams []string
	var markers [][]string
	for i, role := range rolesOf {
		p := living{ptr: fmt.Sprintf("LIV%d", i+1), mk: []string{"Zq7L", "Zq7M"}[i], role: role, variant: variant}
		lines := p.lines(year)
		switch role {
		case "child-of-dead-parents":
			fam1 = append(fam1, "1 CHIL @"+p.ptr+"@")
			lines = append(lines, "1 FAMC @F1@")
		case "spouse-of-dead":
			extraFams = append(extraFams, fmt.Sprintf("0 @FS%d@ FAM", i), "1 HUSB @D3@", "1 WIFE @"+p.ptr+"@", "1 MARR", fmt.Sprintf("2 DATE 1 Jun %d", year+25))
			lines = append(lines, fmt.Sprintf("1 FAMS @FS%d@", i))
		case "spouse-of-dead-with-dead-child":
			extraFams = append(extraFams, fmt.Sprintf("0 @FC%d@ FAM", i), "1 HUSB @D3@", "1 WIFE @"+p.ptr+"@", "1 CHIL @D4@", "1 MARR", "2 DATE 1 Jun 1859")
			lines = append(lines, fmt.Sprintf("1 FAMS @FC%d@", i))
		case "parent-of-dead-child":
			extraFams = append(extraFams, fmt.Sprintf("0 @FP%d@ FAM", i), "1 WIFE @"+p.ptr+"@", "1 CHIL @D4@")
			lines = append(lines, fmt.Sprintf("1 FAMS @FP%d@", i))
		}
		l = append(l, lines...)
		markers = append(markers, p.markers())
	}
	l = append(l, fam1...)
	l = append(l, extraFams...)
	l = append(l, "0 @S1@ SOUR", "1 TITL Zq7Source", "0 TRLR")
	return strings.Join(l, "\n") + "\n", markers
}

func visibility(s string) ghtml.LivingVisibility {
	switch s {
	case "hide":
		return ghtml.LivingVisibilityHide
	case "placeholder":
		return ghtml.LivingVisibilityPlaceholder
	}
	return ghtml.LivingVisibilityShow
}

func publish(k kase, variant int) (*pub.MemWriter, [][]string, error) {
	text, markers := document(k.Roles, variant)
	doc, err := gedcom.NewDocumentFromString(text)
	if err != nil {
		panic(err)
	}
	cliRefused = false
	if k.CLI {
		w, refused, _ := pub.CLIPublish(cliBinary, text, k.As, k.Mask, k.Jobs)
		cliRefused = refused
		return w, markers, nil
	}
	if k.Prior != "" && k.Prior != "show-constructed-first" {
		pub.Publish(doc, pub.Options(k.Mask, visibility(k.Prior)), k.Jobs, 0)
	}
	for i, role := range k.Roles {
		if role == "death-record-removed-after-first-publishing" {
			// publish once while the person is dead by record, then correct the record through the API
			pub.Publish(doc, pub.Options(k.Mask, visibility(k.Living)), k.Jobs, 0)
			ind, _ := doc.NodeByPointer(fmt.Sprintf("LIV%d", i+1)).(*gedcom.IndividualNode)
			for _, c := range ind.Nodes() {
				if c.Tag().Tag() == "DEAT" {
					ind.DeleteNode(c)
					break
				}
			}
		}
	}
	if k.Prior == "show-constructed-first" {
		// a private and a public site of the same document object: both publishers exist before either publishes
		p1 := ghtml.NewPublisher(doc, pub.Options(k.Mask, visibility("show")))
		p2 := ghtml.NewPublisher(doc, pub.Options(k.Mask, visibility(k.Living)))
		p1.Publish(&pub.MemWriter{}, k.Jobs)
		w := &pub.MemWriter{}
		perr := p2.Publish(w, k.Jobs)
		return w, markers, perr
	}
	w, perr := pub.Publish(doc, pub.Options(k.Mask, visibility(k.Living)), k.Jobs, 0)
	return w, markers, perr
}

func norm(s string) string { return strings.ToLower(s) }

// where tells in which kind of file a leak was found (for signatures).
func pageKind(name string) string {
	switch {
	case strings.HasPrefix(name, "individuals-"):
		return "individual-list"
	case name == "surnames.html" || name == "places.html" || name == "families.html" || name == "sources.html" || name == "statistics.html":
		return strings.TrimSuffix(name, ".html")
	case strings.HasPrefix(name, "zq7d"):
		return "dead-individual-page"
	case strings.HasPrefix(name, "zq7l") || strings.HasPrefix(name, "zq7m"):
		return "living-named-file"
	case name == "S1.html":
		return "source-page"
	}
	return "other-page"
}

func markerKind(m string) string {
	m = strings.TrimSuffix(m, "v")
	return m[4:]
}

func judge(k kase) (sigs [][2]string, crashed int, files int) {
	add := func(sig, what string) {
		for _, s := range sigs {
			if s[0] == sig {
				return
			}
		}
		sigs = append(sigs, [2]string{sig, what})
	}
	w, markers, err := publish(k, 0)
	if err != nil {
		add("publish-returns-error", err.Error())
	}
	if k.CLI && cliRefused {
		return // the command did not accept its arguments and published nothing
	}
	pages := w.Sorted()
	files = len(pages)
	for _, p := range pages {
		if p.Panic != "" {
			crashed++
		}
	}
	if k.Living == "show" {
		// positive control: the search must be able to see the markers
		all := ""
		for _, p := range pages {
			all += norm(p.Name) + "\n" + norm(p.Body)
		}
		if k.Mask&1 != 0 {
			for _, ms := range markers {
				for _, m := range ms {
					if markerKind(m) == "given" || markerKind(m) == "surn" {
						if !strings.Contains(all, norm(m)) {
							add("control:marker-not-visible-with-show:"+markerKind(m), "marker "+m+" does not appear anywhere although living people are shown")
						}
					}
				}
			}
		}
	} else {
		for _, p := range pages {
			hay := norm(p.Name)
			body := norm(p.Body)
			for _, ms := range markers {
				for _, m := range ms {
					if strings.Contains(hay, norm(m)) {
						add("leak:file-name:"+markerKind(m), fmt.Sprintf("file %q carries the living marker %s (roles %v, %s, mask %d)", p.Name, m, k.Roles, k.Living, k.Mask))
					}
					if strings.Contains(body, norm(m)) {
						add("leak:"+pageKind(norm(p.Name))+":"+markerKind(m), fmt.Sprintf("file %q contains the living marker %s (roles %v, %s, mask %d): %s", p.Name, m, k.Roles, k.Living, k.Mask, around(p.Body, m)))
					}
				}
			}
			// no link may point to a living person's page
			if toks, terr := pub.Tokenize(p.Body); terr == nil {
				for _, l := range pub.Links(toks) {
					for _, ms := range markers {
						for _, m := range ms {
							if strings.Contains(norm(l), norm(m)) {
								add("leak:link:"+markerKind(m), fmt.Sprintf("file %q links to %q", p.Name, l))
							}
						}
					}
				}
			}
		}
	}
	// dead people stay fully published
	if k.Mask&1 != 0 {
		names := map[string]string{}
		for _, p := range pages {
			names[norm(p.Name)] = p.Body
		}
		for i := 1; i <= 4; i++ {
			given := fmt.Sprintf("zq7dgiven%d", i)
			found := false
			for n, body := range names {
				if strings.HasPrefix(n, given) {
					found = true
					if !strings.Contains(norm(body), given) && !crashedPage(pages, n) {
						add("dead-person-page-without-their-name", n)
					}
				}
			}
			if !found {
				add("dead-person-page-missing", fmt.Sprintf("no page for %s (%s, mask %d)", given, k.Living, k.Mask))
			}
		}
	}
	// people who are not living remain fully published: what the site says about dead people on their
	// own pages and in the lists of individuals with -living show, it also says in the other modes
	if k.Living != "show" && k.Prior == "" {
		ks := k
		ks.Living = "show"
		ks.As = "show"
		ws, _, _ := publish(ks, 0)
		here := map[string]string{}
		for _, p := range pages {
			here[p.Name] = norm(p.Body)
		}
		for _, sp := range ws.Sorted() {
			n := norm(sp.Name)
			own := strings.HasPrefix(n, "zq7dgiven")
			if !(own || strings.HasPrefix(n, "individuals-")) || sp.Panic != "" {
				continue
			}
			sb := norm(sp.Body)
			for _, dm := range deadMarkers {
				m := norm(dm)
				if !strings.Contains(sb, m) {
					continue
				}
				hb, ok := here[sp.Name]
				kind := "individual-list"
				if own {
					kind = "dead-individual-page"
				}
				if !ok {
					add("dead-person-less-published-than-with-show:page-missing:"+kind, fmt.Sprintf("%s exists with -living show and mentions the dead person's %s, but is not generated with -living %s (roles %v, mask %d)", sp.Name, dm, k.Living, k.Roles, k.Mask))
					break
				}
				if !strings.Contains(hb, m) && !crashedPage(pages, n) {
					add("dead-person-less-published-than-with-show:"+kind+":"+markerKind(dm), fmt.Sprintf("%s mentions the dead person's %s with -living show but not with -living %s (roles %v, mask %d)", sp.Name, dm, k.Living, k.Roles, k.Mask))
				}
			}
		}
	}
	// hide differential: the site must not depend on the living people's personal data
	if k.Living == "hide" {
		w2, _, _ := publish(k, 1)
		a, b := pages, w2.Sorted()
		if len(a) != len(b) {
			add("hide-differential:file-set-differs", fmt.Sprintf("%d files vs %d files when only living people's data changes: %v vs %v", len(a), len(b), pageNames(a), pageNames(b)))
		} else {
			for i := range a {
				if a[i].Name != b[i].Name {
					// (known for place pages, which are named after living people's places: the kind of the
					// two files is part of the signature so that other files are not covered by it)
					add("hide-differential:file-name-differs:"+pageKind(norm(a[i].Name))+"/"+pageKind(norm(b[i].Name)), fmt.Sprintf("%q vs %q", a[i].Name, b[i].Name))
				} else if a[i].Body != b[i].Body && a[i].Panic == "" && b[i].Panic == "" {
					// the header of every page counts the surnames of the surname list, which ignores
					// -living (known root cause): a difference in that one number is named as such
					na, nb := surnameBadge.ReplaceAllString(a[i].Body, "${1}N${3}"), surnameBadge.ReplaceAllString(b[i].Body, "${1}N${3}")
					if na == nb {
						add("hide-differential:surname-count-in-page-header", fmt.Sprintf("file %q: the number of surnames in the page header changes when only living people's data changes: %s", a[i].Name, firstDiff(a[i].Body, b[i].Body)))
						continue
					}
					add("hide-differential:content-differs:"+pageKind(norm(a[i].Name)), fmt.Sprintf("file %q differs when only living people's data changes: %s", a[i].Name, firstDiff(na, nb)))
				}
			}
		}
	}
	return
}

var surnameBadge = regexp.MustCompile(`(Surnames <span class="badge[^>]*>)(\d+)(</span>)`)

func crashedPage(pages []pub.Page, name string) bool {
	for _, p := range pages {
		if norm(p.Name) == name && p.Panic != "" {
			return true
		}
	}
	return false
}

func pageNames(ps []pub.Page) []string {
	var n []string
	for _, p := range ps {
		n = append(n, p.Name)
	}
	return n
}

func around(body, marker string) string {
	i := strings.Index(norm(body), norm(marker))
	lo, hi := i-60, i+len(marker)+40
	if lo < 0 {
		lo = 0
	}
	if hi > len(body) {
		hi = len(body)
	}
	return strings.ReplaceAll(body[lo:hi], "\n", " ")
}

func firstDiff(a, b string) string {
	i := 0
	for i < len(a) && i < len(b) && a[i] == b[i] {
		i++
	}
	lo := i - 50
	if lo < 0 {
		lo = 0
	}
	ha, hb := i+50, i+50
	if ha > len(a) {
		ha = len(a)
	}
	if hb > len(b) {
		hb = len(b)
	}
	return fmt.Sprintf("%q vs %q", a[lo:ha], b[lo:hb])
}

func roleSets() [][]string {
	var out [][]string
	for _, r := range roles {
		out = append(out, []string{r})
	}
	for i, a := range roles {
		for _, b := range roles[i:] {
			out = append(out, []string{a, b})
		}
	}
	return out
}

func cases(tier string) []kase {
	var out []kase
	for _, rs := range roleSets() {
		for _, living := range []string{"hide", "placeholder", "show"} {
			for mask := 0; mask < 64; mask++ {
				if tier != "thorough" && len(rs) == 2 && !(mask == 63 || mask == 1 || mask == 62 || mask == 10) {
					continue // quick: role pairs with four page-group subsets; single roles with all 64
				}
				for _, jobs := range []int{1, 2} {
					if living == "show" && (jobs == 2 || mask != 63) {
						continue
					}
					out = append(out, kase{Roles: rs, Living: living, Mask: mask, Jobs: jobs})
					if living != "show" && jobs == 1 && (mask == 63 || mask == 5) {
						// the same document published with living people shown first
						out = append(out, kase{Roles: rs, Living: living, Mask: mask, Jobs: jobs, Prior: "show"})
						out = append(out, kase{Roles: rs, Living: living, Mask: mask, Jobs: jobs, Prior: "show-constructed-first"})
					}
				}
			}
		}
	}
	// the command line: flags as a user types them (incl. spellings the library may refuse, and no -living at all)
	for _, rs := range [][]string{{"spouse-of-dead"}, {"shares-place-with-dead"}, {"child-of-dead-parents", "parent-of-dead-child"}} {
		for _, as := range []string{"hide", "placeholder", "", "Hide", "HIDE", "hide ", "Placeholder"} {
			living := strings.ToLower(strings.TrimSpace(as))
			if living == "" {
				living = "placeholder"
			}
			for _, mask := range []int{63, 62, 61, 59, 1, 4, 2} {
				out = append(out, kase{Roles: rs, Living: living, Mask: mask, Jobs: 1, CLI: true, As: as})
			}
		}
	}
	return out
}

func run(tier, unit string, r *vlib.Rec) {
	_, lo, hi := vlib.ParseChunk(unit)
	cs := cases(tier)
	after := vlib.After(unit)
	for i := lo; i < hi; i++ {
		k := cs[i]
		if after != "" {
			if vlib.JSON(k) == after {
				after = ""
			}
			continue
		}
		r.Begin(k)
		r.Eval()
		sigs, crashed, files := judge(k)
		r.Add("files-rendered", int64(files-crashed))
		r.Add("files-crashed", int64(crashed))
		r.Count("living:" + k.Living)
		for _, role := range k.Roles {
			r.Count("role:" + role)
		}
		if k.Living != "show" && k.Mask != 0 {
			r.Nontrivial(vlib.JSON(k))
		}
		for _, s := range sigs {
			r.Fail(s[0], s[1], k)
		}
		if len(sigs) == 0 && r.WantSample() && len(k.Roles) == 2 && k.Mask == 63 {
			r.Sample(k)
		}
	}
}

func plan(tier string) []string { return vlib.Chunks("cases", int64(len(cases(tier))), 60) }

func replay(c json.RawMessage) (string, string) {
	var k kase
	json.Unmarshal(c, &k)
	sigs, crashed, files := judge(k)
	var ss []string
	text, _ := document(k.Roles, 0)
	obs := fmt.Sprintf("case %+v: %d files, %d crashed\n%s", k, files, crashed, text)
	for _, s := range sigs {
		ss = append(ss, s[0])
		obs += s[0] + ": " + s[1] + "\n"
	}
	sort.Strings(ss)
	return strings.Join(ss, "\x1f"), obs
}

func main() {
	vlib.Main(&vlib.Check{
		ID:    "C17",
		Level: "exploration",
		Rule: "cases: a fixed cast of four dead people plus one living person in each of 16 roles (unconnected, child of dead parents, spouse of a dead person, parent of a dead child, sharing a dead person's surname and sorting after / before its dead bearers, wife of a dead man with a dead child, sharing a dead person's place, no birth recorded, buried but no death, two names, source citation, nickname and note, birth date that is a phrase / has no year / is empty) and every pair of roles (two living people); every personal string is a unique marker token; x {hide, placeholder} x all 64 page-group subsets (role pairs: 4 subsets in the quick tier) x jobs {1,2}; 'show' as the positive control; and the same document object published with 'show' first (page groups all / individuals+families). Marker search over every file name, body and link; hide differential (a second document that differs only in the living people's data must publish byte-identically); dead people's pages must exist with their names, and every dead person's marker that a dead person's page or a list of individuals shows with 'show' is also there with hide/placeholder. " +
			"Non-trivial = hide/placeholder cases with at least one page group; distinct by case.",
		Assumptions: []string{
			"living = born (current year - 40) without DEAT, or no birth at all; dead = born 1800-1860 with DEAT; nobody is within decades of the 100-year rule, so nothing depends on the day the check runs",
			"markers are alphanumeric, so escaping cannot hide them; the search is case-insensitive over names, bodies and decoded link targets",
			"pages that panic while rendering are counted separately (files-crashed) so that a masked leak is never reported as clean",
		},
		Plan:   plan,
		Run:    run,
		Replay: replay,
		DiedSig: func(c json.RawMessage, stderr string) (string, string) {
			return "process-died:" + vlib.MsgClass(stderr), "publishing killed the process: " + stderr[:min(len(stderr), 400)]
		},
		Required: func(string) []string {
			req := []string{"living:hide", "living:placeholder", "living:show", "files-rendered"}
			for _, r := range roles {
				req = append(req, "role:"+r)
			}
			return req
		},
		Deadline: func(tier string) time.Duration {
			if tier == "thorough" {
				return 25 * time.Minute
			}
			return 10 * time.Minute
		},
	})
}

func min(a, b int) int {
	if a < b {
		return a
	}
	return b
}
