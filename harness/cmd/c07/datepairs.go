package main

import (
	"fmt"
	"strings"

	"github.com/elliotchance/gedcom/v39"
	"verif/harness/vlib"
)

// datepairs: symmetry of deep equality over a product of DATE values - every constraint word on several
// days, months and years, ranges, phrases - alone and below the node kinds whose equality looks at dates.
// The tree spaces above use four DATE values, chosen for the non-transitive triple; they never hold two
// different dates with the same open constraint (the one cell of the documented Date.Equals matrix that is
// not its own transpose).

var dpDates = []string{"1900", "Jun 1900", "3 Jun 1900", "4 Jun 1900", "1910", "0"}
var dpWords = []string{"", "Abt. ", "Bef. ", "Aft. "}

var dpValues = func() []string {
	var out []string
	for _, w := range dpWords {
		for _, d := range dpDates {
			out = append(out, w+d)
		}
	}
	out = append(out, "Bet. 1900 and 1910", "Bet. 1905 and 1910", "Bet. 1900 and 1905", "Bet. Jun 1900 and 1910", "From 1900 to 1910",
		"(about then)", "garbage", "")
	return out
}()

var dpWrappers = []string{"", "BIRT", "DEAT", "EVEN", "RESI", "INDI/BIRT"}

func dpBuild(wrapper, value string) gedcom.Node {
	date := "DATE"
	if value != "" {
		date += " " + value
	}
	var lines []string
	level := 0
	if wrapper != "" {
		for _, w := range strings.Split(wrapper, "/") {
			if w == "INDI" {
				lines = append(lines, fmt.Sprintf("%d @I1@ INDI", level))
			} else {
				lines = append(lines, fmt.Sprintf("%d %s", level, w))
			}
			level++
		}
	}
	lines = append(lines, fmt.Sprintf("%d %s", level, date))
	doc, err := gedcom.NewDocumentFromString(strings.Join(lines, "\n") + "\n")
	if err != nil || len(doc.Nodes()) != 1 {
		panic(fmt.Sprint("datepairs: cannot build ", lines, err))
	}
	return doc.Nodes()[0]
}

// sameDirectionOpenDates: both values are single dates (no range) with the same constraint Before or After
// and they are not the same date. For these the documented matrix of Date.Equals (cell Before/Before: "match
// if left.Years() < right.Years()", After/After: ">") is not symmetric, and the repository's TestDate_Equals
// pins both orientations.
func sameDirectionOpenDates(a, b string) bool {
	da, db := gedcom.NewDateNode(a).DateRange(), gedcom.NewDateNode(b).DateRange()
	sa, ea := da.StartDate(), da.EndDate()
	sb, eb := db.StartDate(), db.EndDate()
	if !sa.Is(ea) || !sb.Is(eb) { // ranges
		return false
	}
	if sa.Constraint != sb.Constraint || (sa.Constraint != gedcom.DateConstraintBefore && sa.Constraint != gedcom.DateConstraintAfter) {
		return false
	}
	return !sa.Is(sb)
}

func checkDatePair(wrapper, a, b string) (sig, what string) {
	A, B := dpBuild(wrapper, a), dpBuild(wrapper, b)
	ab, p1 := deq(A, B)
	ba, p2 := deq(B, A)
	if p1 != "" || p2 != "" {
		return "deepequal-panics:" + p1 + p2, fmt.Sprintf("DATE %q against DATE %q below %q", a, b, wrapper)
	}
	if ab != ba {
		sig = "asymmetric:dates"
		if sameDirectionOpenDates(a, b) {
			sig += ":two-different-dates-with-the-same-open-constraint"
		}
		return sig, fmt.Sprintf("below %q: DeepEqual(DATE %q, DATE %q)=%v but the other way round %v", wrapper, a, b, ab, ba)
	}
	// a tree is deep-equal to itself also when it is built twice
	if a == b && !ab && a != "" {
		return "copy-not-deep-equal:dates", fmt.Sprintf("below %q: DATE %q built twice is not deep-equal to itself", wrapper, a)
	}
	return "", ""
}

func runDatePairs(r *vlib.Rec) {
	for _, w := range dpWrappers {
		for i, a := range dpValues {
			for _, b := range dpValues[i:] {
				r.Eval()
				r.Count("datepairs")
				if sig, what := checkDatePair(w, a, b); sig != "" {
					r.Fail(sig, what, kase{Sub: "datepairs", Arg: w + "\x00" + a + "\x00" + b})
				}
			}
		}
	}
}
