package main

import (
	"fmt"
	"strings"

	gedcom "github.com/elliotchance/gedcom/v39"
	"verif/harness/vlib"
)

// Unit "edits": deep equality is a function of the trees as they are NOW. For every ordered pair (X, Y) of
// pool members (sibling subtrees around every specialised Equals rule) two trees are decoded, compared twice
// in both directions (whatever the comparison remembers is warm after that), then a child of X (and, as a
// second variant, the corresponding child of Y too) is removed through the API - DeleteNode, SetNodes without
// it, DeleteNodesWithTag - and the trees are compared again. The answers must be the ones that freshly decoded
// trees with the same text give. The live answers are taken BEFORE anything is decoded or added anywhere:
// AddNode drops the process-wide NodesWithTag cache and would hide a stale entry.

type editKind struct {
	Name string
	Do   func(parent gedcom.Node, child gedcom.Node)
}

var editKinds = []editKind{
	{"DeleteNode", func(p, c gedcom.Node) { p.DeleteNode(c) }},
	{"SetNodes(without)", func(p, c gedcom.Node) {
		var kept gedcom.Nodes
		for _, n := range p.Nodes() {
			if n != c {
				kept = append(kept, n)
			}
		}
		p.SetNodes(kept)
	}},
	{"DeleteNodesWithTag", func(p, c gedcom.Node) { gedcom.DeleteNodesWithTag(p, c.Tag()) }},
}

func editTree(member string) (gedcom.Node, string) {
	d, err := gedcom.NewDocumentFromString("0 @I1@ INDI\n" + member + "\n")
	if err != nil || len(d.Nodes()) != 1 {
		return nil, fmt.Sprint(err)
	}
	return d.Nodes()[0], ""
}

func fourWay(a, b gedcom.Node) string {
	var sb strings.Builder
	for _, f := range []func() bool{
		func() bool { return gedcom.DeepEqual(a, b) },
		func() bool { return gedcom.DeepEqual(b, a) },
		func() bool { return gedcom.DeepEqualNodes(a.Nodes(), b.Nodes()) },
		func() bool { return gedcom.DeepEqualNodes(b.Nodes(), a.Nodes()) },
	} {
		var res bool
		if p, msg, frame := vlib.Try(func() { res = f() }); p {
			sb.WriteString("panic:" + frame + ":" + vlib.MsgClass(msg) + " ")
		} else {
			fmt.Fprintf(&sb, "%v ", res)
		}
	}
	return sb.String()
}

// checkEdit: arg = x \0 y \0 edit index \0 child index \0 both(0|1)
func checkEdit(x, y string, ek, ci int, both bool) (sig, what string, applicable bool) {
	T, e1 := editTree(x)
	C, e2 := editTree(y)
	if T == nil || C == nil {
		return "", e1 + e2, false
	}
	X, Y := T.Nodes()[0], C.Nodes()[0]
	if ci >= len(X.Nodes()) {
		return "", "", false
	}
	// warm: twice in both directions, whole trees and the members alone
	for rep := 0; rep < 2; rep++ {
		fourWay(T, C)
		fourWay(X, Y)
	}
	victim := X.Nodes()[ci]
	editKinds[ek].Do(X, victim)
	if both {
		for _, n := range Y.Nodes() {
			if n.Tag().Is(victim.Tag()) && n.Value() == victim.Value() {
				editKinds[ek].Do(Y, n)
				break
			}
		}
	}
	live := fourWay(T, C) + "| " + fourWay(X, Y)
	tt, ct := gedcom.GEDCOMString(T, 0), gedcom.GEDCOMString(C, 0)
	// reference: fresh objects with the same text
	fd1, err1 := gedcom.NewDocumentFromString(tt)
	fd2, err2 := gedcom.NewDocumentFromString(ct)
	if err1 != nil || err2 != nil || len(fd1.Nodes()) != 1 || len(fd2.Nodes()) != 1 || len(fd1.Nodes()[0].Nodes()) != 1 || len(fd2.Nodes()[0].Nodes()) != 1 {
		return "", "", false
	}
	fresh := fourWay(fd1.Nodes()[0], fd2.Nodes()[0]) + "| " + fourWay(fd1.Nodes()[0].Nodes()[0], fd2.Nodes()[0].Nodes()[0])
	if live != fresh {
		return "deep-equality-after-edit-differs-from-fresh-trees:" + editKinds[ek].Name,
			fmt.Sprintf("two trees were compared twice, then %s removed child %d (%s) of the first tree's member%s; DeepEqual(a,b) DeepEqual(b,a) DeepEqualNodes(a,b) DeepEqualNodes(b,a) | the same for the members alone:\n live objects : %s\n fresh decodes: %s\n first tree now:\n%s second tree now:\n%s",
				editKinds[ek].Name, ci, victim.Tag().Tag()+" "+victim.Value(), map[bool]string{false: "", true: " and the like child of the second"}[both], live, fresh, tt, ct), true
	}
	return "", "", true
}

func runEdits(r *vlib.Rec, lo, hi int64) {
	for i := lo; i < hi; i++ {
		x := classPool[i]
		if !strings.Contains(x, "\n") {
			continue // no child to remove
		}
		for _, y := range classPool {
			for ek := range editKinds {
				for ci := 0; ci < 3; ci++ {
					for _, both := range []bool{false, true} {
						sig, what, ok := checkEdit(x, y, ek, ci, both)
						if !ok {
							continue
						}
						r.Eval()
						r.Count("edits")
						r.Count("edits:" + editKinds[ek].Name)
						if sig != "" {
							r.Fail(sig, what, kase{Sub: "edits", Arg: fmt.Sprintf("%s\x00%s\x00%d\x00%d\x00%v", x, y, ek, ci, both)})
						}
					}
				}
			}
		}
	}
}
