// C07 — deep equality ignores order and deep copies are independent.
// All trees with <=N nodes over the equality-kind alphabet: every copy path,
// every re-ordering of children, every single edit, every single mutation of
// source or copy; all ordered pairs of trees with <=M nodes for symmetry.
package main

import (
	"encoding/json"
	"fmt"
	"regexp"
	"strconv"
	"strings"
	"time"

	"github.com/elliotchance/gedcom/v39"
	"verif/harness/gen"
	"verif/harness/gx"
	"verif/harness/vlib"
)

type Label struct {
	Tag, Value, Pointer string
	Root                bool // only allowed as the tree root (document-bound kinds)
	UnderFam            bool // only allowed directly under a FAM root
	Plain               bool
}

var alphabet = []Label{
	{Tag: "NOTE", Value: "a", Plain: true},
	{Tag: "NOTE", Value: "b", Plain: true},
	{Tag: "OCCU", Value: "a", Pointer: "P1", Plain: true},
	{Tag: "BIRT"}, {Tag: "DEAT", Value: "Y"}, {Tag: "BURI"}, {Tag: "BAPM"},
	{Tag: "RESI"}, {Tag: "RESI", Value: "x"},
	{Tag: "EVEN"}, {Tag: "EVEN", Value: "x"},
	{Tag: "DATE", Value: "3 Sep 1943"}, {Tag: "DATE", Value: "Bef. Oct 1943"}, {Tag: "DATE", Value: "Abt. 1943"}, {Tag: "DATE", Value: "Aft. 1 Jan 1900"},
	{Tag: "DATE", Value: "(phrase)"}, {Tag: "DATE", Value: "garbage"}, {Tag: "DATE"},
	{Tag: "_UID", Value: "EE13561DDB204985BFFDEEBF82A5226C5B2E"}, {Tag: "_UID", Value: "not-a-uid"},
	{Tag: "NAME", Value: "John /Smith/"}, {Tag: "PLAC", Value: "Town"},
	{Tag: "INDI", Pointer: "I1", Root: true}, {Tag: "FAM", Pointer: "F1", Root: true},
	{Tag: "HUSB", Value: "@I1@", UnderFam: true},
}

// halved alphabet for the all-pairs symmetry space and the quick tier's 4-node trees
var pairAlphabet = func() []int {
	keep := map[string]bool{"NOTE a": true, "NOTE b": true, "BIRT ": true, "RESI ": true, "EVEN ": true, "DATE 3 Sep 1943": true, "DATE Bef. Oct 1943": true,
		"DATE Aft. 1 Jan 1900": true, "DATE garbage": true, "_UID EE13561DDB204985BFFDEEBF82A5226C5B2E": true, "_UID not-a-uid": true, "PLAC Town": true}
	var out []int
	for i, l := range alphabet {
		if keep[l.Tag+" "+l.Value] {
			out = append(out, i)
		}
	}
	if len(out) != len(keep) {
		panic("pairAlphabet")
	}
	return out
}()

type Tree struct {
	Levels []int `json:"levels"`
	Labels []int `json:"labels"`
}

func (t Tree) text() string {
	var sb strings.Builder
	for i, l := range t.Levels {
		lb := alphabet[t.Labels[i]]
		sb.WriteString(strconv.Itoa(l))
		if lb.Pointer != "" {
			sb.WriteString(" @" + lb.Pointer + "@")
		}
		sb.WriteString(" " + lb.Tag)
		if lb.Value != "" {
			sb.WriteString(" " + lb.Value)
		}
		sb.WriteByte('\n')
	}
	return sb.String()
}

func (t Tree) legal() bool {
	for i, l := range t.Levels {
		lb := alphabet[t.Labels[i]]
		if lb.Root && l != 0 {
			return false
		}
		if lb.UnderFam && !(l == 1 && alphabet[t.Labels[0]].Tag == "FAM") {
			return false
		}
	}
	return true
}

// build decodes the tree's text into a fresh document and returns its root.
func (t Tree) build() (*gedcom.Document, gedcom.Node) {
	doc, err := gedcom.NewDocumentFromString(t.text())
	if err != nil || len(doc.Nodes()) != 1 {
		panic(fmt.Sprintf("cannot build tree %q: %v", t.text(), err))
	}
	return doc, doc.Nodes()[0]
}

// children structure
type tnode struct {
	label int
	kids  []*tnode
}

func (t Tree) structure() *tnode {
	nodes := make([]*tnode, len(t.Levels))
	par := gen.Parents(t.Levels)
	for i := range t.Levels {
		nodes[i] = &tnode{label: t.Labels[i]}
		if par[i] >= 0 {
			nodes[par[i]].kids = append(nodes[par[i]].kids, nodes[i])
		}
	}
	return nodes[0]
}

func flatten(n *tnode, level int, t *Tree) {
	t.Levels = append(t.Levels, level)
	t.Labels = append(t.Labels, n.label)
	for _, k := range n.kids {
		flatten(k, level+1, t)
	}
}

// orderings returns every re-ordering of children at every level.
func orderings(n *tnode) []*tnode {
	if len(n.kids) == 0 {
		return []*tnode{{label: n.label}}
	}
	// orderings of each child
	kidOrds := make([][]*tnode, len(n.kids))
	for i, k := range n.kids {
		kidOrds[i] = orderings(k)
	}
	var out []*tnode
	gen.Permutations(len(n.kids), func(p []int) {
		// product over children's own orderings
		var rec func(i int, acc []*tnode)
		rec = func(i int, acc []*tnode) {
			if i == len(p) {
				out = append(out, &tnode{label: n.label, kids: append([]*tnode{}, acc...)})
				return
			}
			for _, ko := range kidOrds[p[i]] {
				rec(i+1, append(acc, ko))
			}
		}
		rec(0, nil)
	})
	return out
}

type kase struct {
	Tree  Tree   `json:"tree"`
	Other *Tree  `json:"other,omitempty"`
	Sub   string `json:"sub"` // which sub-check
	Arg   string `json:"arg,omitempty"`
}

func hasLabel(t Tree, idx int) bool {
	for _, l := range t.Labels {
		if l == idx {
			return true
		}
	}
	return false
}

var malformedUID = func() int {
	for i, l := range alphabet {
		if l.Value == "not-a-uid" {
			return i
		}
	}
	panic("no malformed uid label")
}()

func deq(a, b gedcom.Node) (res bool, panicMsg string) {
	p, msg, frame := vlib.Try(func() { res = gedcom.DeepEqual(a, b) })
	if p {
		return false, frame + ":" + vlib.MsgClass(msg)
	}
	return res, ""
}

// nonTransitiveTriple: some sibling multiset of a contains x,y,z with
// DeepEqual(x,y), DeepEqual(x,z), !DeepEqual(y,z) — the known weakness of the
// greedy child matching.
var dateLine = regexp.MustCompile(`(?m)^(\d+ DATE).*$`)

// blankDates is the node's text with every DATE value removed.
func blankDates(n gedcom.Node) string {
	return dateLine.ReplaceAllString(gedcom.GEDCOMString(n, 0), "$1")
}

func nonTransitiveTriple(n gedcom.Node) bool {
	kids := n.Nodes()
	for i := range kids {
		for j := range kids {
			for k := range kids {
				if i != j && i != k && j < k {
					// the known root cause is the constraint-aware DATE equality: the witnesses must be
					// identical up to DATE values, otherwise the non-transitivity has another cause and
					// is not the known finding
					if gedcom.DeepEqual(kids[i], kids[j]) && gedcom.DeepEqual(kids[i], kids[k]) && !(gedcom.DeepEqual(kids[j], kids[k]) && gedcom.DeepEqual(kids[k], kids[j])) &&
						blankDates(kids[i]) == blankDates(kids[j]) && blankDates(kids[i]) == blankDates(kids[k]) {
						return true
					}
				}
			}
		}
	}
	for _, c := range kids {
		if nonTransitiveTriple(c) {
			return true
		}
	}
	return false
}

type finding struct {
	sig, what string
	k         kase
}

// checkTree runs sub-checks (i), (ii), (iii), (v) on one tree. only != "" runs a single sub-check (replay).
func checkTree(t Tree, only string, count func(string)) (fs []finding) {
	add := func(sig, what, sub, arg string) {
		fs = append(fs, finding{sig, what, kase{Tree: t, Sub: sub, Arg: arg}})
	}
	want := func(sub string) bool { return only == "" || only == sub }
	doc, T := t.build()
	text0 := doc.String()
	malformed := hasLabel(t, malformedUID)
	uidTag := func(s string) string {
		if malformed {
			return s + ":malformed-uid"
		}
		return s
	}

	// (i) copy paths
	if want("copy") {
		copies := map[string]func() gedcom.Node{
			"DeepCopy": func() gedcom.Node { return gedcom.DeepCopy(T, gedcom.NewDocument()) },
			"Filter-identity": func() gedcom.Node {
				return gedcom.Filter(T, gedcom.NewDocument(), func(n gedcom.Node) (gedcom.Node, bool) { return n, true })
			},
			"decode-encode": func() gedcom.Node { _, c := t.build(); return c },
		}
		for _, name := range []string{"DeepCopy", "Filter-identity", "decode-encode"} {
			var C gedcom.Node
			if p, msg, frame := vlib.Try(func() { C = copies[name]() }); p {
				add("copy-panics:"+name+":"+frame+":"+vlib.MsgClass(msg), msg, "copy", name)
				continue
			}
			count("copy:" + name)
			ab, p1 := deq(T, C)
			ba, p2 := deq(C, T)
			if p1 != "" || p2 != "" {
				add("deepequal-panics:"+p1+p2, "DeepEqual panicked", "copy", name)
				continue
			}
			if !ab || !ba {
				add(uidTag("copy-not-deep-equal"), fmt.Sprintf("%s of\n%sis not DeepEqual to its source (T,C)=%v (C,T)=%v", name, t.text(), ab, ba), "copy", name)
			}
			if T.GEDCOMString(0) != C.GEDCOMString(0) {
				add("copy-serialises-differently:"+name, fmt.Sprintf("source:\n%scopy:\n%s", T.GEDCOMString(0), C.GEDCOMString(0)), "copy", name)
			}
			// (v) identity disjointness
			ids := gx.Identities(gedcom.Nodes{T}, nil)
			for n := range gx.Identities(gedcom.Nodes{C}, nil) {
				if ids[n] {
					add("copy-shares-node:"+name, "copy and source share node "+n.GEDCOMLine(0), "copy", name)
					break
				}
			}
			if doc.String() != text0 {
				add("copy-changes-source:"+name, fmt.Sprintf("source document text changed by %s:\nbefore:\n%safter:\n%s", name, text0, doc.String()), "copy", name)
				doc, T = t.build()
			}
		}
	}

	// (i') DeepCopy of every node of the tree on its own (also husband nodes without their family around them)
	if want("copynode") {
		nodes, _ := index(T)
		for i, n := range nodes {
			var C gedcom.Node
			if p, msg, frame := vlib.Try(func() { C = gedcom.DeepCopy(n, gedcom.NewDocument()) }); p {
				add("copy-panics:DeepCopy-of-inner-node:"+frame+":"+vlib.MsgClass(msg), fmt.Sprintf("DeepCopy of node %d (%s) of\n%s panicked: %s", i, n.GEDCOMLine(0), t.text(), msg), "copynode", fmt.Sprint(i))
				continue
			}
			count("copynode")
			ab, _ := deq(n, C)
			ba, _ := deq(C, n)
			if !ab || !ba || n.GEDCOMString(0) != C.GEDCOMString(0) {
				add("inner-node-copy-not-deep-equal", fmt.Sprintf("DeepCopy of node %d (%s) of\n%sis not DeepEqual / serialises differently", i, n.GEDCOMLine(0), t.text()), "copynode", fmt.Sprint(i))
			}
		}
	}

	// (ii) re-orderings
	if want("perm") {
		ords := orderings(t.structure())
		nt := false
		ntKnown := false
		for _, o := range ords {
			var pt Tree
			flatten(o, 0, &pt)
			_, P := pt.build()
			count("perm")
			ab, p1 := deq(T, P)
			ba, p2 := deq(P, T)
			if p1 != "" || p2 != "" {
				add("deepequal-panics:"+p1+p2, "DeepEqual panicked", "perm", pt.text())
				break
			}
			if !ab || !ba {
				if !ntKnown {
					nt = nonTransitiveTriple(T)
					ntKnown = true
				}
				sig := "reordering-not-deep-equal"
				if nt {
					sig += ":non-transitive-sibling-triple"
				}
				if malformed && !nt {
					sig += ":malformed-uid"
				}
				add(sig, fmt.Sprintf("tree\n%sis not DeepEqual to its re-ordering\n%s(T,P)=%v (P,T)=%v", t.text(), pt.text(), ab, ba), "perm", "")
				break
			}
		}
	}

	// (iii) single edits on a fresh copy of the tree
	if want("edit") {
		n := len(t.Levels)
		type edit struct {
			name string
			do   func(nodes []gedcom.Node, parents []gedcom.Node, root *gedcom.Node) bool
		}
		var edits []edit
		for i := 0; i < n; i++ {
			i := i
			// insert a fresh plain leaf under node i at every position
			kids := 0
			for j := range t.Levels {
				if gen.Parents(t.Levels)[j] == i {
					kids++
				}
			}
			for pos := 0; pos <= kids; pos++ {
				pos := pos
				edits = append(edits, edit{fmt.Sprintf("insert@%d.%d", i, pos), func(nodes, parents []gedcom.Node, root *gedcom.Node) bool {
					old := nodes[i].Nodes()
					nw := append(gedcom.Nodes{}, old[:pos]...)
					nw = append(nw, gedcom.NewNode(gedcom.TagFromString("NOTE"), "zz", ""))
					nw = append(nw, old[pos:]...)
					nodes[i].SetNodes(nw)
					return true
				}})
			}
			if alphabet[t.Labels[i]].Plain && i > 0 {
				edits = append(edits, edit{fmt.Sprintf("delete@%d", i), func(nodes, parents []gedcom.Node, root *gedcom.Node) bool {
					return parents[i].DeleteNode(nodes[i])
				}})
				edits = append(edits, edit{fmt.Sprintf("change@%d", i), func(nodes, parents []gedcom.Node, root *gedcom.Node) bool {
					// replace the node by one with another value, same children
					nn := gedcom.NewNode(nodes[i].Tag(), "zz", nodes[i].Pointer())
					nn.SetNodes(nodes[i].Nodes())
					old := parents[i].Nodes()
					nw := gedcom.Nodes{}
					for _, c := range old {
						if c == nodes[i] {
							nw = append(nw, nn)
						} else {
							nw = append(nw, c)
						}
					}
					parents[i].SetNodes(nw)
					return true
				}})
			}
		}
		for _, e := range edits {
			_, E := t.build()
			nodes, parents := index(E)
			if !e.do(nodes, parents, &E) {
				add("edit-not-applied", e.name, "edit", e.name)
				continue
			}
			count("edit:" + strings.SplitN(e.name, "@", 2)[0])
			ab, p1 := deq(T, E)
			ba, p2 := deq(E, T)
			if p1 != "" || p2 != "" {
				add("deepequal-panics:"+p1+p2, "DeepEqual panicked", "edit", e.name)
				continue
			}
			if ab || ba {
				add("edit-not-detected:"+strings.SplitN(e.name, "@", 2)[0], fmt.Sprintf("tree\n%sis DeepEqual to its edited copy (%s)\n%s(T,E)=%v (E,T)=%v", t.text(), e.name, E.GEDCOMString(0), ab, ba), "edit", e.name)
			}
		}
	}

	// (v) independence under mutation: mutate the copy, the source must not change, and vice versa
	if want("indep") {
		for _, cp := range []string{"DeepCopy", "Filter-identity"} {
			n := len(t.Levels)
			for i := 0; i < n; i++ {
				for _, mut := range []string{"AddNode", "DeleteNode", "SetNodes-nil"} {
					for _, side := range []string{"copy", "source", "copy-into-own-document", "source-into-own-document"} {
						d, S := t.build()
						into := gedcom.NewDocument()
						if strings.HasSuffix(side, "-into-own-document") {
							// the copy goes into the document the source lives in (it already knows the pointers);
							// only trees with role nodes behave differently there
							if !hasRole(S) {
								continue
							}
							into = d
							side = strings.TrimSuffix(side, "-into-own-document")
						}
						var C gedcom.Node
						if cp == "DeepCopy" {
							C = gedcom.DeepCopy(S, into)
						} else {
							C = gedcom.Filter(S, into, func(n gedcom.Node) (gedcom.Node, bool) { return n, true })
						}
						if gedcom.IsNil(C) {
							continue
						}
						target, other := C, S
						if side == "source" {
							target, other = S, C
						}
						before := other.GEDCOMString(0) + roleViews(other)
						nodes, parents := index(target)
						if i >= len(nodes) {
							continue
						}
						switch mut {
						case "AddNode":
							nodes[i].AddNode(gedcom.NewNode(gedcom.TagFromString("NOTE"), "mut", ""))
						case "DeleteNode":
							if i == 0 {
								continue
							}
							parents[i].DeleteNode(nodes[i])
						case "SetNodes-nil":
							nodes[i].SetNodes(nil)
						}
						count("indep:" + mut)
						if after := other.GEDCOMString(0) + roleViews(other); after != before {
							add("mutation-shows-through:"+cp, fmt.Sprintf("%s on node %d of the %s changed the other tree:\nbefore:\n%safter:\n%s", mut, i, side, before, after), "indep", "")
						}
						_ = d
					}
				}
			}
		}
	}
	return
}

type familyKnower interface{ Family() *gedcom.FamilyNode }

func hasRole(n gedcom.Node) bool {
	if _, ok := n.(familyKnower); ok {
		return true
	}
	for _, c := range n.Nodes() {
		if hasRole(c) {
			return true
		}
	}
	return false
}

// roleViews: what the role nodes (HUSB/WIFE/CHIL) of a tree say about their family. The text of a tree does
// not show which family object its role nodes belong to; a copy whose role nodes still belong to the source's
// family changes when the source does.
func roleViews(n gedcom.Node) string {
	var sb strings.Builder
	var rec func(n gedcom.Node)
	rec = func(n gedcom.Node) {
		if fk, ok := n.(familyKnower); ok {
			func() {
				defer func() {
					if r := recover(); r != nil {
						fmt.Fprintf(&sb, "[%s %s: panic]\n", n.Tag().Tag(), n.Value())
					}
				}()
				f := fk.Family()
				if f == nil {
					fmt.Fprintf(&sb, "[%s %s: no family]\n", n.Tag().Tag(), n.Value())
					return
				}
				fmt.Fprintf(&sb, "[%s %s: family %s husband=%v wife=%v children=%d]\n%s", n.Tag().Tag(), n.Value(), f.Pointer(), f.Husband() != nil, f.Wife() != nil, len(f.Children()), f.GEDCOMString(1))
			}()
		}
		for _, c := range n.Nodes() {
			rec(c)
		}
	}
	rec(n)
	return sb.String()
}

// index lists the nodes of a tree in pre-order with their parents.
func index(root gedcom.Node) (nodes, parents []gedcom.Node) {
	var rec func(n, p gedcom.Node)
	rec = func(n, p gedcom.Node) {
		nodes = append(nodes, n)
		parents = append(parents, p)
		for _, c := range n.Nodes() {
			rec(c, n)
		}
	}
	rec(root, nil)
	return
}

func treeAt(shapes [][]int, n int, idx int64, alpha int) Tree {
	per := gen.Pow(alpha, n)
	return Tree{Levels: shapes[idx/per], Labels: gen.Digits(idx%per, alpha, n)}
}

func run(tier, unit string, r *vlib.Rec) {
	name, lo, hi := vlib.ParseChunk(unit)
	p := strings.Split(name, ":")
	n, _ := strconv.Atoi(p[1])
	switch p[0] {
	case "tree", "rtree":
		shapes := gen.AllTrees(n)
		for idx := lo; idx < hi; idx++ {
			var t Tree
			if p[0] == "rtree" {
				t = treeAt(shapes, n, idx, len(pairAlphabet))
				for i := range t.Labels {
					t.Labels[i] = pairAlphabet[t.Labels[i]]
				}
			} else {
				t = treeAt(shapes, n, idx, len(alphabet))
			}
			if !t.legal() {
				r.Count("illegal-skipped")
				continue
			}
			r.Eval()
			for _, l := range t.Labels {
				r.Count("label:" + alphabet[l].Tag + " " + alphabet[l].Value)
			}
			if n >= 2 {
				r.Nontrivial(t.text())
			}
			for _, f := range checkTree(t, "", r.Count) {
				r.Fail(f.sig, f.what, f.k)
			}
			if r.WantSample() && n >= 3 {
				r.Sample(map[string]string{"tree": t.text()})
			}
		}
	case "wide":
		runWide(r)
	case "kinds":
		runKinds(r, lo, hi, n)
	case "classes":
		runClasses(r, lo, hi)
	case "apivalues":
		runAPIValues(r)
	case "edits":
		runEdits(r, lo, hi)
	case "datepairs":
		runDatePairs(r)
	case "pairs": // all ordered pairs of trees with exactly n and m<=n nodes over the halved alphabet
		var trees []Tree
		for m := 1; m <= n; m++ {
			shapes := gen.AllTrees(m)
			tot := int64(len(shapes)) * gen.Pow(len(pairAlphabet), m)
			for idx := int64(0); idx < tot; idx++ {
				t := treeAt(shapes, m, idx, len(pairAlphabet))
				for i := range t.Labels {
					t.Labels[i] = pairAlphabet[t.Labels[i]]
				}
				trees = append(trees, t)
			}
		}
		built := make([]gedcom.Node, len(trees))
		for i, t := range trees {
			_, built[i] = t.build()
		}
		for i := lo; i < hi; i++ {
			for j := range trees {
				r.Eval()
				ab, p1 := deq(built[i], built[j])
				ba, p2 := deq(built[j], built[i])
				if ab {
					r.Count("pairs:equal")
				}
				if p1 != "" || p2 != "" {
					r.Fail("deepequal-panics:"+p1+p2, "DeepEqual panicked", kase{Tree: trees[i], Other: &trees[j], Sub: "pair"})
				} else if ab != ba {
					o := trees[j]
					r.Fail("asymmetric", fmt.Sprintf("DeepEqual(A,B)=%v DeepEqual(B,A)=%v\nA:\n%sB:\n%s", ab, ba, trees[i].text(), trees[j].text()), kase{Tree: trees[i], Other: &o, Sub: "pair"})
				}
				// DeepEqualNodes on the child lists likewise
				x, y := gedcom.DeepEqualNodes(built[i].Nodes(), built[j].Nodes()), gedcom.DeepEqualNodes(built[j].Nodes(), built[i].Nodes())
				if x != y {
					o := trees[j]
					r.Fail("asymmetric:DeepEqualNodes", fmt.Sprintf("DeepEqualNodes differs by argument order\nA:\n%sB:\n%s", trees[i].text(), trees[j].text()), kase{Tree: trees[i], Other: &o, Sub: "pairnodes"})
				}
				r.Count("pairs")
			}
		}
	}
}

// ---- wide sibling lists (parametric, not a space): W distinct plain children followed by duplicates
func wideText(w int, tail []string) string {
	var sb strings.Builder
	sb.WriteString("0 NOTE root\n")
	for i := 0; i < w; i++ {
		fmt.Fprintf(&sb, "1 NOTE v%d\n", i)
	}
	for _, t := range tail {
		sb.WriteString("1 " + t + "\n")
	}
	return sb.String()
}

func buildText(t string) gedcom.Node {
	d, err := gedcom.NewDocumentFromString(t)
	if err != nil {
		panic(err)
	}
	return d.Nodes()[0]
}

func runWide(r *vlib.Rec) {
	for _, w := range []int{1, 30, 62, 63, 64, 65, 66, 127, 128, 129, 300} {
		r.Eval()
		r.Count("wide")
		orig := wideText(w, []string{"NOTE dup", "NOTE dup"})
		edited := wideText(w, []string{"NOTE dup", "NOTE changed"})
		shorter := wideText(w, []string{"NOTE dup"})
		// reversed copy
		lines := strings.Split(strings.TrimSpace(orig), "\n")
		rev := []string{lines[0]}
		for i := len(lines) - 1; i >= 1; i-- {
			rev = append(rev, lines[i])
		}
		reversed := strings.Join(rev, "\n") + "\n"
		O, E, S, R := buildText(orig), buildText(edited), buildText(shorter), buildText(reversed)
		k := kase{Sub: "wide", Arg: fmt.Sprint(w)}
		if !gedcom.DeepEqual(O, R) || !gedcom.DeepEqual(R, O) {
			r.Fail("wide:reordering-not-deep-equal", fmt.Sprintf("%d+2 siblings: not DeepEqual to the reversed copy", w), k)
		}
		if gedcom.DeepEqual(O, E) || gedcom.DeepEqual(E, O) {
			r.Fail("wide:edit-not-detected", fmt.Sprintf("%d+2 siblings with a duplicate pair: changing one duplicate is not detected (O,E)=%v (E,O)=%v", w, gedcom.DeepEqual(O, E), gedcom.DeepEqual(E, O)), k)
		}
		if gedcom.DeepEqual(O, S) || gedcom.DeepEqual(S, O) {
			r.Fail("wide:delete-not-detected", fmt.Sprintf("%d+2 siblings: deleting a duplicate is not detected", w), k)
		}
		C := gedcom.DeepCopy(O, gedcom.NewDocument())
		if !gedcom.DeepEqual(O, C) || O.GEDCOMString(0) != C.GEDCOMString(0) {
			r.Fail("wide:copy-differs", fmt.Sprintf("%d+2 siblings: deep copy differs", w), k)
		}
	}
}

// ---- copy-only space: every specialised node kind (the copy paths depend on the kind's constructor)
var kindLabels = []string{"BAPM", "BIRT", "BURI", "DATE 1 Jan 1900", "DEAT Y", "EVEN x", "_FID ABCD-123", "_FSFTID ABCD-123", "FORM jpg", "LATI N18", "LONG W76", "MAP",
	"NAME John /Smith/", "NICK Jo", "NOTE a", "FONE Jon", "PLAC Town", "RESI", "ROMN Jon", "SEX M", "SOUR @S1@", "TYPE t", "_UID EE13561DDB204985BFFDEEBF82A5226C5B2E", "OCCU x", "_CUSTOM y"}

func runKinds(r *vlib.Rec, lo, hi int64, n int) {
	shapes := gen.AllTrees(n)
	per := gen.Pow(len(kindLabels), n)
	for idx := lo; idx < hi; idx++ {
		levels := shapes[idx/per]
		ds := gen.Digits(idx%per, len(kindLabels), n)
		var sb strings.Builder
		for i, l := range levels {
			fmt.Fprintf(&sb, "%d %s\n", l, kindLabels[ds[i]])
			r.Count("kind:" + strings.Fields(kindLabels[ds[i]])[0])
		}
		text := sb.String()
		r.Eval()
		if n >= 2 {
			r.Nontrivial("kinds|" + text)
		}
		T := buildText(text)
		k := kase{Sub: "kinds", Arg: text}
		for name, mk := range map[string]func() gedcom.Node{
			"DeepCopy": func() gedcom.Node { return gedcom.DeepCopy(T, gedcom.NewDocument()) },
			"Filter-identity": func() gedcom.Node {
				return gedcom.Filter(T, gedcom.NewDocument(), func(n gedcom.Node) (gedcom.Node, bool) { return n, true })
			},
		} {
			var C gedcom.Node
			if p, msg, frame := vlib.Try(func() { C = mk() }); p {
				r.Fail("copy-panics:"+name+":"+frame+":"+vlib.MsgClass(msg), msg+"\n"+text, k)
				continue
			}
			if gedcom.IsNil(C) || C.GEDCOMString(0) != T.GEDCOMString(0) {
				got := "<nil>"
				if !gedcom.IsNil(C) {
					got = C.GEDCOMString(0)
				}
				r.Fail("copy-serialises-differently:"+name, fmt.Sprintf("source:\n%scopy:\n%s", text, got), k)
				continue
			}
			if !gedcom.DeepEqual(T, C) || !gedcom.DeepEqual(C, T) {
				r.Fail("copy-not-deep-equal", name+" of\n"+text, k)
			}
			if gx.Dump(gedcom.Nodes{T}, true) != gx.Dump(gedcom.Nodes{C}, true) {
				r.Fail("copy-changes-node-kind:"+name, fmt.Sprintf("source:\n%scopy:\n%s", gx.Dump(gedcom.Nodes{T}, true), gx.Dump(gedcom.Nodes{C}, true)), k)
			}
		}
	}
}

func pairTreeCount(n int) int64 {
	var c int64
	for m := 1; m <= n; m++ {
		c += int64(len(gen.AllTrees(m))) * gen.Pow(len(pairAlphabet), m)
	}
	return c
}

func plan(tier string) []string {
	N, M := 3, 3
	if tier == "thorough" {
		N, M = 4, 3
	}
	var out []string
	for n := 1; n <= N; n++ {
		tot := int64(len(gen.AllTrees(n))) * gen.Pow(len(alphabet), n)
		out = append(out, vlib.Chunks(fmt.Sprintf("tree:%d", n), tot, 600)...)
	}
	// one node more over the reduced alphabet
	out = append(out, vlib.Chunks(fmt.Sprintf("rtree:%d", N+1), int64(len(gen.AllTrees(N+1)))*gen.Pow(len(pairAlphabet), N+1), 600)...)
	out = append(out, vlib.Chunks(fmt.Sprintf("pairs:%d", M), pairTreeCount(M), 60)...)
	out = append(out, "wide:0:0:1")
	out = append(out, vlib.Chunks("classes:0", int64(len(classPool)), 2)...)
	out = append(out, "apivalues:0:0:1")
	out = append(out, vlib.Chunks("edits:0", int64(len(classPool)), 4)...)
	out = append(out, "datepairs:0:0:1")
	for n := 1; n <= 3; n++ {
		out = append(out, vlib.Chunks(fmt.Sprintf("kinds:%d", n), int64(len(gen.AllTrees(n)))*gen.Pow(len(kindLabels), n), 3000)...)
	}
	return out
}

func replay(c json.RawMessage) (string, string) {
	var k kase
	json.Unmarshal(c, &k)
	if k.Sub == "pair" || k.Sub == "pairnodes" {
		_, a := k.Tree.build()
		_, b := k.Other.build()
		ab, _ := deq(a, b)
		ba, _ := deq(b, a)
		obs := fmt.Sprintf("A:\n%sB:\n%sDeepEqual(A,B)=%v DeepEqual(B,A)=%v", k.Tree.text(), k.Other.text(), ab, ba)
		if k.Sub == "pair" && ab != ba {
			return "asymmetric", obs
		}
		if k.Sub == "pairnodes" && gedcom.DeepEqualNodes(a.Nodes(), b.Nodes()) != gedcom.DeepEqualNodes(b.Nodes(), a.Nodes()) {
			return "asymmetric:DeepEqualNodes", obs
		}
		return "", obs
	}
	if k.Sub == "datepairs" {
		p := strings.SplitN(k.Arg, "\x00", 3)
		return checkDatePair(p[0], p[1], p[2])
	}
	if k.Sub == "edits" {
		p := strings.Split(k.Arg, "\x00")
		ek, _ := strconv.Atoi(p[2])
		ci, _ := strconv.Atoi(p[3])
		sig, what, _ := checkEdit(p[0], p[1], ek, ci, p[4] == "true")
		return sig, what
	}
	if k.Sub == "apivalues" {
		p := strings.SplitN(k.Arg, "\x00", 2)
		if p[0] == "in-place" {
			return checkInPlaceEdit()
		}
		return checkAPIValue(p[0], p[1])
	}
	if k.Sub == "classes" {
		sig, what := checkClasses(strings.Split(k.Arg, "\x00"))
		return sig, what
	}
	if k.Sub == "wide" || k.Sub == "kinds" {
		rr := vlib.NewReplayRec()
		if k.Sub == "wide" {
			runWide(rr)
		} else {
			// re-run the one tree
			T := buildText(k.Arg)
			C := gedcom.DeepCopy(T, gedcom.NewDocument())
			if gedcom.IsNil(C) || C.GEDCOMString(0) != T.GEDCOMString(0) {
				return "copy-serialises-differently:DeepCopy", k.Arg
			}
			F := gedcom.Filter(T, gedcom.NewDocument(), func(n gedcom.Node) (gedcom.Node, bool) { return n, true })
			if gedcom.IsNil(F) || F.GEDCOMString(0) != T.GEDCOMString(0) {
				return "copy-serialises-differently:Filter-identity", k.Arg
			}
			return "", "copies serialise identically: " + k.Arg
		}
		return strings.Join(rr.Signatures(), "\x1f"), "wide sibling lists"
	}
	fs := checkTree(k.Tree, k.Sub, func(string) {})
	obs := "tree:\n" + k.Tree.text()
	for _, f := range fs {
		obs += f.sig + ": " + f.what + "\n"
	}
	for _, f := range fs {
		if f.k.Arg == k.Arg {
			return f.sig, obs
		}
	}
	if len(fs) > 0 {
		return fs[0].sig, obs
	}
	return "", obs
}

func main() {
	vlib.Main(&vlib.Check{
		ID:    "C07",
		Level: "exploration",
		Rule: "cases: every tree with <=N nodes over a 24-label alphabet with one or two labels per equality rule (plain, pointered, BIRT/DEAT/BURI/BAPM, RESI, EVEN, six DATE value classes, valid/malformed _UID, NAME, PLAC, INDI/FAM roots in a document, HUSB under FAM); per tree: 3 copy paths, every re-ordering of children at every level, every single insert/delete/change edit, every single mutation of copy or source; plus every ordered pair of trees with <=M nodes over a 12-label alphabet (symmetry); plus every multiset of 2..3 siblings from a pool of " + fmt.Sprint(len(classPool)) + " subtrees built around each specialised Equals rule (equal with different text, equal through substructure only, unequal) x every re-ordering, with both arguments' text compared before and after every DeepEqual. " +
			"Non-trivial = trees with >=2 nodes; distinct by GEDCOM text.",
		Assumptions: []string{
			"trees are built by decoding their own text (INDI/FAM/HUSB need a document context)",
			"the non-transitive-sibling-triple predicate (known finding) is evaluated with the implementation's own DeepEqual on sibling triples of the failing tree that are identical up to DATE values (the known root cause is the constraint-aware DATE equality; any other non-transitivity is a new violation)",
			"no random permutations of large trees (sampling is a different family)",
		},
		Plan:   plan,
		Run:    run,
		Replay: replay,
		Required: func(string) []string {
			req := []string{"wide", "kind:SEX", "kind:SOUR", "copynode", "copy:DeepCopy", "copy:Filter-identity", "copy:decode-encode", "perm", "edit:insert", "edit:delete", "edit:change", "indep:AddNode", "indep:DeleteNode", "indep:SetNodes-nil", "pairs", "pairs:equal", "edits", "edits:DeleteNode", "edits:SetNodes(without)", "edits:DeleteNodesWithTag"}
			for _, l := range alphabet {
				req = append(req, "label:"+l.Tag+" "+l.Value)
			}
			return req
		},
		Deadline: func(tier string) time.Duration {
			if tier == "thorough" {
				return 25 * time.Minute
			}
			return 8 * time.Minute
		},
		Bounds: func(tier string) interface{} {
			if tier == "thorough" {
				return map[string]int{"N_full_alphabet": 4, "N_reduced_alphabet": 5, "M_pairs": 3, "labels": len(alphabet), "reduced_labels": len(pairAlphabet)}
			}
			return map[string]int{"N_full_alphabet": 3, "N_reduced_alphabet": 4, "M_pairs": 3, "labels": len(alphabet), "reduced_labels": len(pairAlphabet)}
		},
	})
}
