package main

import (
	"fmt"
	"strings"

	"github.com/elliotchance/gedcom/v39"
	"verif/harness/gen"
	"verif/harness/vlib"
)

var classPool = gen.EqualityClassPool

func classText(parts []string) string {
	return "0 @I1@ INDI\n" + strings.Join(parts, "\n") + "\n"
}

// permutations of up to three items
func perms3(n int) [][]int {
	switch n {
	case 1:
		return [][]int{{0}}
	case 2:
		return [][]int{{0, 1}, {1, 0}}
	}
	return [][]int{{0, 1, 2}, {0, 2, 1}, {1, 0, 2}, {1, 2, 0}, {2, 0, 1}, {2, 1, 0}}
}

// checkClasses: one sibling multiset; every re-ordering must be deep-equal to it in both
// directions, DeepEqual must not touch its arguments, and a copy must be deep-equal.
func checkClasses(parts []string) (sig, what string) {
	tt := classText(parts)
	T := buildText(tt)
	C := gedcom.DeepCopy(T, gedcom.NewDocument())
	if tc, _ := deq(T, C); !tc {
		return "copy-not-deep-equal:DeepCopy:classes", "a deep copy is not DeepEqual to its source:\n" + tt
	}
	if ct, _ := deq(C, T); !ct {
		return "copy-not-deep-equal:DeepCopy:classes", "a source is not DeepEqual to its deep copy:\n" + tt
	}
	for _, pm := range perms3(len(parts)) {
		q := make([]string, len(parts))
		for i, j := range pm {
			q[i] = parts[j]
		}
		pt := classText(q)
		P := buildText(pt)
		ab, p1 := deq(T, P)
		ba, p2 := deq(P, T)
		if p1 != "" || p2 != "" {
			return "deepequal-panics:" + p1 + p2, "DeepEqual panicked on\n" + tt + "and\n" + pt
		}
		if got := gedcom.GEDCOMString(T, 0); got != tt {
			return "deepequal-modifies-input", fmt.Sprintf("after DeepEqual the first tree reads\n%sinstead of\n%s", got, tt)
		}
		if got := gedcom.GEDCOMString(P, 0); got != pt {
			return "deepequal-modifies-input", fmt.Sprintf("after DeepEqual the second tree reads\n%sinstead of\n%s", got, pt)
		}
		if !ab || !ba {
			sig := "reordering-not-deep-equal"
			if nonTransitiveTriple(T) {
				sig += ":non-transitive-sibling-triple"
			}
			return sig, fmt.Sprintf("tree\n%sis not DeepEqual to its re-ordering\n%s(T,P)=%v (P,T)=%v", tt, pt, ab, ba)
		}
	}
	return "", ""
}

func runClasses(r *vlib.Rec, lo, hi int64) {
	n := len(classPool)
	for i := int(lo); i < int(hi); i++ {
		for j := i; j < n; j++ {
			for k := j - 1; k < n; k++ { // k == j-1 stands for "no third element"
				parts := []string{classPool[i], classPool[j]}
				if k >= j {
					parts = append(parts, classPool[k])
				}
				r.Eval()
				r.Count("classes")
				r.EnterF(func() interface{} { return kase{Sub: "classes", Arg: strings.Join(parts, "\x00")} })
				sig, what := checkClasses(parts)
				r.Nontrivial(strings.Join(parts, "|"))
				if sig != "" {
					r.Fail(sig, what, kase{Sub: "classes", Arg: strings.Join(parts, "\x00")})
				}
			}
		}
	}
}
