package main

import (
	"fmt"
	"strings"

	"github.com/elliotchance/gedcom/v39"
	"verif/harness/gen"
	"verif/harness/vlib"
)

var classPool = gen.EqualityClassPool

func classText(parts []string) string {
	return "0 @I1@ INDI\n" + strings.Join(parts, "\n") + "\n"
}

// permutations of up to three items
func perms3(n int) [][]int {
	switch n {
	case 1:
		return [][]int{{0}}
	case 2:
		return [][]int{{0, 1}, {1, 0}}
	}
	return [][]int{{0, 1, 2}, {0, 2, 1}, {1, 0, 2}, {1, 2, 0}, {2, 0, 1}, {2, 1, 0}}
}

// reverseKids: the subtree with its own children in reverse order (only where all of them sit
// directly below the subtree's root).
func reverseKids(part string) (string, bool) {
	ls := strings.Split(part, "\n")
	if len(ls) < 3 {
		return part, false
	}
	for _, l := range ls[1:] {
		if !strings.HasPrefix(l, "2 ") {
			return part, false
		}
	}
	out := []string{ls[0]}
	for i := len(ls) - 1; i >= 1; i-- {
		out = append(out, ls[i])
	}
	return strings.Join(out, "\n"), true
}

// checkClasses: one sibling multiset; every re-ordering must be deep-equal to it in both
// directions, DeepEqual must not touch its arguments, and a copy must be deep-equal.
func checkClasses(parts []string) (sig, what string) {
	tt := classText(parts)
	T := buildText(tt)
	// plain nodes (user-defined tags, NOTE) are equal only if tag, value and pointer agree as written
	kids := T.Nodes()
	for i := range parts {
		for j := range parts {
			if i == j || parts[i] == parts[j] || strings.Contains(parts[i], "\n") || strings.Contains(parts[j], "\n") {
				continue
			}
			plain := func(p string) bool {
				return strings.HasPrefix(p, "1 _") && !strings.HasPrefix(p, "1 _UID") || strings.HasPrefix(p, "1 NOTE")
			}
			if plain(parts[i]) && plain(parts[j]) && i < len(kids) && j < len(kids) {
				if eq, _ := deq(kids[i], kids[j]); eq || kids[i].Equals(kids[j]) {
					return "plain-nodes-that-differ-are-equal", fmt.Sprintf("%q and %q are reported equal", parts[i], parts[j])
				}
			}
		}
	}
	C := gedcom.DeepCopy(T, gedcom.NewDocument())
	if tc, _ := deq(T, C); !tc {
		return "copy-not-deep-equal:DeepCopy:classes", "a deep copy is not DeepEqual to its source:\n" + tt
	}
	if ct, _ := deq(C, T); !ct {
		return "copy-not-deep-equal:DeepCopy:classes", "a source is not DeepEqual to its deep copy:\n" + tt
	}
	var variants [][]string
	for _, pm := range perms3(len(parts)) {
		q := make([]string, len(parts))
		for i, j := range pm {
			q[i] = parts[j]
		}
		variants = append(variants, q)
	}
	// re-orderings one level down: the children of each sibling reversed (one sibling at a time, and all)
	all := append([]string{}, parts...)
	any := false
	for i, p := range parts {
		if r, ok := reverseKids(p); ok {
			one := append([]string{}, parts...)
			one[i] = r
			variants = append(variants, one)
			all[i] = r
			any = true
		}
	}
	if any {
		variants = append(variants, all)
	}
	for _, q := range variants {
		pt := classText(q)
		P := buildText(pt)
		ab, p1 := deq(T, P)
		ba, p2 := deq(P, T)
		if p1 != "" || p2 != "" {
			return "deepequal-panics:" + p1 + p2, "DeepEqual panicked on\n" + tt + "and\n" + pt
		}
		if got := gedcom.GEDCOMString(T, 0); got != tt {
			return "deepequal-modifies-input", fmt.Sprintf("after DeepEqual the first tree reads\n%sinstead of\n%s", got, tt)
		}
		if got := gedcom.GEDCOMString(P, 0); got != pt {
			return "deepequal-modifies-input", fmt.Sprintf("after DeepEqual the second tree reads\n%sinstead of\n%s", got, pt)
		}
		if !ab || !ba {
			sig := "reordering-not-deep-equal"
			if nonTransitiveTriple(T) {
				sig += ":non-transitive-sibling-triple"
			}
			return sig, fmt.Sprintf("tree\n%sis not DeepEqual to its re-ordering\n%s(T,P)=%v (P,T)=%v", tt, pt, ab, ba)
		}
	}
	return "", ""
}

func runClasses(r *vlib.Rec, lo, hi int64) {
	n := len(classPool)
	for i := int(lo); i < int(hi); i++ {
		for j := i; j < n; j++ {
			for k := j - 1; k < n; k++ { // k == j-1 stands for "no third element"
				parts := []string{classPool[i], classPool[j]}
				if k >= j {
					parts = append(parts, classPool[k])
				}
				r.Eval()
				r.Count("classes")
				r.EnterF(func() interface{} { return kase{Sub: "classes", Arg: strings.Join(parts, "\x00")} })
				sig, what := checkClasses(parts)
				r.Nontrivial(strings.Join(parts, "|"))
				if sig != "" {
					r.Fail(sig, what, kase{Sub: "classes", Arg: strings.Join(parts, "\x00")})
				}
			}
		}
	}
}

// ---- nodes built through the API with values the decoder would never produce ----

var apiValues = []string{" x", "x ", "  x  ", " ", "\tx", "x\t", "a  b", ""}
var apiTags = []string{"NOTE", "TEXT", "NAME", "DATE", "PLAC", "SEX", "_UID", "EVEN", "RESI", "BIRT", "OCCU", "_X"}

// checkAPIValue: a parent with one child built by gedcom.NewNode(tag, value): every copy path must
// keep the value byte for byte and give a tree that is deep-equal to its source.
func checkAPIValue(tag, value string) (sig, what string) {
	mk := func() gedcom.Node {
		root := gedcom.NewNode(gedcom.TagFromString("NOTE"), "root", "")
		root.AddNode(gedcom.NewNode(gedcom.TagFromString(tag), value, ""))
		return root
	}
	T := mk()
	t0 := gedcom.GEDCOMString(T, 0)
	copies := map[string]func() gedcom.Node{
		"DeepCopy": func() gedcom.Node { return gedcom.DeepCopy(T, gedcom.NewDocument()) },
		"Filter-identity": func() gedcom.Node {
			return gedcom.Filter(T, gedcom.NewDocument(), func(n gedcom.Node) (gedcom.Node, bool) { return n, true })
		},
	}
	for _, name := range []string{"DeepCopy", "Filter-identity"} {
		var C gedcom.Node
		if p, msg, frame := vlib.Try(func() { C = copies[name]() }); p {
			return "copy-panics:" + name + ":" + frame + ":" + vlib.MsgClass(msg), fmt.Sprintf("%s of a node with value %q panicked: %s", name, value, msg)
		}
		if gedcom.IsNil(C) || len(C.Nodes()) != 1 || C.Nodes()[0].Value() != value {
			got := "<nil>"
			if !gedcom.IsNil(C) && len(C.Nodes()) == 1 {
				got = C.Nodes()[0].Value()
			}
			return "copy-changes-value:" + name, fmt.Sprintf("%s of %s %q carries the value %q", name, tag, value, got)
		}
		if gedcom.GEDCOMString(C, 0) != t0 {
			return "copy-serialises-differently:" + name, fmt.Sprintf("%q vs %q", gedcom.GEDCOMString(C, 0), t0)
		}
	}
	if gedcom.GEDCOMString(T, 0) != t0 {
		return "copy-modifies-source", t0
	}
	return "", ""
}

// checkInPlaceEdit: setters that rewrite a node in place (IndividualNode.SetSex) between comparisons of
// the same two objects: the answer must follow the data every time, in both directions.
func checkInPlaceEdit() (sig, what string) {
	d1, _ := gedcom.NewDocumentFromString("0 @I1@ INDI\n1 NAME A /B/\n1 SEX M\n1 BIRT\n2 DATE 1900\n")
	d2, _ := gedcom.NewDocumentFromString("0 @I1@ INDI\n1 NAME A /B/\n1 SEX M\n1 BIRT\n2 DATE 1900\n")
	T, C := d1.Individuals()[0], d2.Individuals()[0]
	steps := []struct {
		sex  string
		want bool
	}{{"", true}, {"F", false}, {"M", true}, {"U", false}, {"M", true}}
	for i, st := range steps {
		if st.sex != "" {
			C.SetSex(st.sex)
		}
		for rep := 0; rep < 2; rep++ {
			ab, _ := deq(T, C)
			ba, _ := deq(C, T)
			n1, n2 := gedcom.DeepEqualNodes(T.Nodes(), C.Nodes()), gedcom.DeepEqualNodes(C.Nodes(), T.Nodes())
			if ab != st.want || ba != st.want || n1 != st.want || n2 != st.want {
				return "in-place-edit-not-followed-by-deep-equality", fmt.Sprintf("step %d (SetSex(%q) on the second of two equal individuals, comparison %d): DeepEqual %v/%v DeepEqualNodes %v/%v, want %v", i, st.sex, rep+1, ab, ba, n1, n2, st.want)
			}
		}
	}
	return "", ""
}

func runAPIValues(r *vlib.Rec) {
	r.Eval()
	if sig, what := checkInPlaceEdit(); sig != "" {
		r.Fail(sig, what, kase{Sub: "apivalues", Arg: "in-place\x00"})
	}
	for _, tag := range apiTags {
		for _, v := range apiValues {
			r.Eval()
			r.Count("apivalues")
			sig, what := checkAPIValue(tag, v)
			if sig != "" {
				r.Fail(sig, what, kase{Sub: "apivalues", Arg: tag + "\x00" + v})
			}
		}
	}
}
