// C05 — date bounds and the Years scale agree with the calendar.
// Exhaustive enumeration of every day / month-year / year in the tier's year
// blocks against own proleptic-Gregorian arithmetic (ref/cal.go).
package main

import (
	"encoding/json"
	"fmt"
	"time"

	"github.com/elliotchance/gedcom/v39"
	"verif/harness/ref"
	"verif/harness/vlib"
)

type kase struct {
	Kind  string `json:"kind"` // day | month | year | pair | minmax
	Y     int    `json:"y"`
	M     int    `json:"m,omitempty"`
	D     int    `json:"d,omitempty"`
	Off   int    `json:"off,omitempty"` // pair: other day = this + off
	Check string `json:"check"`
}

type fail struct {
	sig, what string
	c         kase
}

func mk(y, m, d int, end bool) gedcom.Date {
	return gedcom.Date{Day: d, Month: time.Month(m), Year: y, IsEndOfRange: end}
}

// period returns first day number and number of days of the period.
func period(y, m, d int) (first, n int) {
	switch {
	case d != 0:
		return ref.DayNumber(y, m, d), 1
	case m != 0:
		return ref.DayNumber(y, m, 1), ref.DaysInMonth(y, m)
	}
	return ref.DayNumber(y, 1, 1), ref.DaysInYear(y)
}

func kindOf(m, d int) string {
	switch {
	case d != 0:
		return "day"
	case m != 0:
		return "month"
	}
	return "year"
}

// checkPeriod judges bounds, duration and containment for one date.
func checkPeriod(y, m, d int) (fails []fail) {
	kind := kindOf(m, d)
	first, n := period(y, m, d)
	add := func(sig, check, what string) {
		fails = append(fails, fail{sig, what, kase{Kind: kind, Y: y, M: m, D: d, Check: check}})
	}
	st := mk(y, m, d, false).Time()
	en := mk(y, m, d, true).Time()
	wantStart := ref.UnixOfDay(first)
	wantEndSec := ref.UnixOfDay(first+n) - 1
	if st.Unix() != wantStart || st.Nanosecond() != 0 {
		add("start-bound-wrong:"+kind, "start", fmt.Sprintf("start bound %s, want unix %d", st.UTC(), wantStart))
	}
	if en.Unix() != wantEndSec || en.Nanosecond() != 999999999 {
		if en.Equal(st) && st.IsZero() {
			add("end-bound-not-advanced:zero-time-start", "end", fmt.Sprintf("end bound of %s %d-%d-%d equals its start bound %s (first instant is Go's zero time)", kind, y, m, d, en.UTC()))
		} else {
			add("end-bound-wrong:"+kind, "end", fmt.Sprintf("end bound %s, want last ns of day number %d", en.UTC(), first+n-1))
		}
	}
	if en.Before(st) {
		add("end-before-start:"+kind, "order", "end bound before start bound")
	}
	// true length
	dr := gedcom.NewDateRange(mk(y, m, d, false), mk(y, m, d, true))
	wantDur := time.Duration(n)*24*time.Hour - time.Nanosecond
	if got := dr.Duration().Duration; got != wantDur {
		if st.IsZero() && got == 0 {
			add("end-bound-not-advanced:zero-time-start", "duration", fmt.Sprintf("duration of %s %d-%d-%d is 0", kind, y, m, d))
		} else {
			add("duration-wrong:"+kind, "duration", fmt.Sprintf("duration %v want %v", got, wantDur))
		}
	}
	// the same through the public constructor from plain Date literals (no range-end flags set by
	// the caller) and from a parsed string: the range's own end date must be the end bound
	for name, r := range map[string]gedcom.DateRange{
		"literals":      gedcom.NewDateRange(gedcom.Date{Year: y, Month: time.Month(m), Day: d}, gedcom.Date{Year: y, Month: time.Month(m), Day: d}),
		"flags-swapped": gedcom.NewDateRange(mk(y, m, d, true), mk(y, m, d, false)),
	} {
		if got := r.Duration().Duration; got != wantDur && !(st.IsZero() && got == 0) {
			add("duration-wrong:"+kind+":range-from-"+name, "duration-"+name, fmt.Sprintf("NewDateRange from %s: duration %v want %v", name, got, wantDur))
		}
		if e := r.EndDate().Time(); (e.Unix() != wantEndSec || e.Nanosecond() != 999999999) && !(st.IsZero() && e.Equal(st)) {
			add("end-bound-wrong:"+kind+":range-from-"+name, "end-"+name, fmt.Sprintf("NewDateRange from %s: end bound %s, want last ns of day number %d", name, e.UTC(), first+n-1))
		}
		if b := r.StartDate().Time(); b.Unix() != wantStart || b.Nanosecond() != 0 {
			add("start-bound-wrong:"+kind+":range-from-"+name, "start-"+name, fmt.Sprintf("NewDateRange from %s: start bound %s, want unix %d", name, b.UTC(), wantStart))
		}
	}
	// Years lies inside the period it describes
	yrs := mk(y, m, d, false).Years()
	if !(yrs >= float64(y) && yrs < float64(y+1)) {
		add("years-outside-year:"+kind, "years-range", fmt.Sprintf("Years()=%v not in [%d,%d)", yrs, y, y+1))
	}
	if mk(y, m, d, true).Years() != yrs {
		add("years-depends-on-range-end:"+kind, "years-end", "Years() differs between start and end flavour of the same date")
	}
	if d == 0 {
		fy, fm, fd := ref.FromDayNumber(first)
		ly, lm, ld := ref.FromDayNumber(first + n - 1)
		lo := mk(fy, fm, fd, false).Years()
		hi := mk(ly, lm, ld, false).Years()
		if !(lo <= yrs && yrs <= hi) {
			add("years-outside-period:"+kind, "containment", fmt.Sprintf("Years()=%v not within [%v,%v] of its first/last day", yrs, lo, hi))
		}
		// partial dates order against the neighbouring days
		if first > 0 {
			py, pm, pd := ref.FromDayNumber(first - 1)
			p := mk(py, pm, pd, false)
			if !p.IsBefore(mk(y, m, d, false)) || !mk(y, m, d, false).IsAfter(p) {
				add("isbefore-disagrees:partial", "partial-prev", "day before the period is not before it")
			}
		}
		if y < 9999 || (m != 0 && m < 12) {
			ny, nm, nd := ref.FromDayNumber(first + n)
			q := mk(ny, nm, nd, false)
			if !q.IsAfter(mk(y, m, d, false)) || !mk(y, m, d, false).IsBefore(q) {
				add("isbefore-disagrees:partial", "partial-next", "day after the period is not after it")
			}
		}
	}
	return
}

// checkPair judges order of day a against day a+off (both full dates).
func checkPair(a, off int, ya []float64, base int) (fails []fail) {
	y, m, d := ref.FromDayNumber(a)
	y2, m2, d2 := ref.FromDayNumber(a + off)
	A, B := mk(y, m, d, false), mk(y2, m2, d2, false)
	add := func(sig, check, what string) {
		fails = append(fails, fail{sig, what, kase{Kind: "pair", Y: y, M: m, D: d, Off: off, Check: check}})
	}
	if off == 1 {
		var ay, by float64
		if ya != nil {
			ay, by = ya[a-base], ya[a+1-base]
		} else {
			ay, by = A.Years(), B.Years()
		}
		if !(ay < by) {
			add("years-not-increasing", "monotone", fmt.Sprintf("Years(%d-%d-%d)=%v !< Years(next day)=%v", y, m, d, ay, by))
		}
	}
	if !A.IsBefore(B) || A.IsAfter(B) || B.IsBefore(A) || !B.IsAfter(A) || A.IsBefore(A) || A.IsAfter(A) {
		add("isbefore-disagrees:day", "isbefore", fmt.Sprintf("IsBefore/IsAfter disagree with calendar order for %d-%d-%d and +%d days", y, m, d, off))
	}
	ra := gedcom.NewDateRange(A, mk(y, m, d, true))
	rb := gedcom.NewDateRange(B, mk(y2, m2, d2, true))
	if !ra.IsBefore(rb) || ra.IsAfter(rb) || rb.IsBefore(ra) || !rb.IsAfter(ra) {
		add("isbefore-disagrees:range", "range-isbefore", "DateRange.IsBefore/IsAfter disagree with calendar order")
	}
	return
}

func dateString(n int) string {
	y, m, d := ref.FromDayNumber(n)
	return fmt.Sprintf("%d %s %d", d, ref.MonthAbbr[m], y)
}

var perms3 = [6][3]int{{0, 1, 2}, {0, 2, 1}, {1, 0, 2}, {1, 2, 0}, {2, 0, 1}, {2, 1, 0}}

// checkMinMax: Minimum/Maximum over the three days a, a+off, a+2*off in every order.
func checkMinMax(a, off int) (fails []fail) {
	y, m, d := ref.FromDayNumber(a)
	days := [3]int{a, a + off, a + 2*off}
	for _, p := range perms3 {
		var ns gedcom.DateNodes
		for _, i := range p {
			ns = append(ns, gedcom.NewDateNode(dateString(days[i])))
		}
		min, max := ns.Minimum(), ns.Maximum()
		if min == nil || max == nil || min.Value() != dateString(days[0]) || max.Value() != dateString(days[2]) {
			fails = append(fails, fail{"minmax-wrong", fmt.Sprintf("Minimum/Maximum of %v wrong", p),
				kase{Kind: "minmax", Y: y, M: m, D: d, Off: off, Check: "minmax"}})
			break
		}
	}
	return
}

var quickBlocks = [][2]int{{1, 400}, {1600, 2000}, {9600, 9999}}

func plan(tier string) []string {
	var out []string
	if tier == "thorough" {
		for y := 1; y <= 9999; y += 50 {
			hi := y + 49
			if hi > 9999 {
				hi = 9999
			}
			out = append(out, fmt.Sprintf("years:%d:%d", y, hi))
		}
		return out
	}
	for _, b := range quickBlocks {
		for y := b[0]; y <= b[1]; y += 25 {
			hi := y + 24
			if hi > b[1] {
				hi = b[1]
			}
			out = append(out, fmt.Sprintf("years:%d:%d", y, hi))
		}
	}
	return out
}

func offsets(tier string) []int {
	var o []int
	max := 40
	if tier == "thorough" {
		max = 400
	}
	for i := 1; i <= max; i++ {
		o = append(o, i)
	}
	return o
}

func run(tier, unit string, r *vlib.Rec) {
	_, lo, hi := vlib.ParseChunk(unit)
	ylo, yhi := int(lo), int(hi)
	offs := offsets(tier)
	maxOff := offs[len(offs)-1]
	base := ref.DayNumber(ylo, 1, 1)
	last := ref.DayNumber(yhi, 12, 31)
	lastAll := ref.DayNumber(9999, 12, 31)
	// Years of every day of the unit plus one day (monotonicity pairs use them)
	top := last + 1
	if top > lastAll {
		top = lastAll
	}
	ya := make([]float64, top-base+1)
	for n := base; n <= top; n++ {
		y, m, d := ref.FromDayNumber(n)
		ya[n-base] = mk(y, m, d, false).Years()
	}
	report := func(fs []fail) {
		for _, f := range fs {
			r.Fail(f.sig, f.what, f.c)
		}
	}
	for y := ylo; y <= yhi; y++ {
		r.Eval()
		r.Nontrivial(fmt.Sprintf("y%d", y))
		r.Count("kind:year")
		report(checkPeriod(y, 0, 0))
		for m := 1; m <= 12; m++ {
			r.Eval()
			r.Nontrivial(fmt.Sprintf("m%d-%d", y, m))
			r.Count("kind:month")
			report(checkPeriod(y, m, 0))
			for d := 1; d <= ref.DaysInMonth(y, m); d++ {
				r.Eval()
				r.Count("kind:day")
				if m == 2 && d == 29 {
					r.Count("leap-day")
				}
				r.Nontrivial(fmt.Sprintf("d%d-%d-%d", y, m, d))
				report(checkPeriod(y, m, d))
				a := ref.DayNumber(y, m, d)
				for _, off := range offs {
					if a+off > lastAll {
						break
					}
					r.Add("pairs", 1)
					if off == 1 {
						report(checkPair(a, off, ya, base))
					} else {
						report(checkPair(a, off, nil, 0))
					}
				}
				// Minimum / Maximum through the parser on a sparser grid:
				// every day at spacing 1, month ends at larger spacings.
				if a+2 <= lastAll {
					r.Add("minmax", 1)
					report(checkMinMax(a, 1))
				}
				if d == 1 && a+2*maxOff <= lastAll {
					r.Add("minmax", 1)
					report(checkMinMax(a, maxOff))
				}
			}
		}
		if r.WantSample() {
			st, en := mk(y, 2, 0, false), mk(y, 2, 0, true)
			r.Sample(map[string]interface{}{"date": fmt.Sprintf("Feb %d", y), "start": st.Time().UTC().String(),
				"end": en.Time().UTC().String(), "years": st.Years()})
		}
	}
}

func replay(c json.RawMessage) (string, string) {
	var k kase
	json.Unmarshal(c, &k)
	// A failure may depend on what the process parsed before (process-wide
	// caches): re-run the enumeration of the previous and the current year up to
	// the case, in the order the check visits them, before judging the case.
	for y := k.Y - 1; y <= k.Y; y++ {
		if y < 1 {
			continue
		}
		checkPeriod(y, 0, 0)
		for m := 1; m <= 12; m++ {
			checkPeriod(y, m, 0)
			for d := 1; d <= ref.DaysInMonth(y, m); d++ {
				if y == k.Y && k.Kind != "year" && (m > k.M || (m == k.M && k.D != 0 && d > k.D)) {
					break
				}
				checkPeriod(y, m, d)
			}
		}
	}
	var fs []fail
	switch k.Kind {
	case "pair":
		fs = checkPair(ref.DayNumber(k.Y, k.M, k.D), k.Off, nil, 0)
	case "minmax":
		fs = checkMinMax(ref.DayNumber(k.Y, k.M, k.D), k.Off)
	default:
		fs = checkPeriod(k.Y, k.M, k.D)
	}
	obs := fmt.Sprintf("case %+v: %d failing sub-checks", k, len(fs))
	for _, f := range fs {
		obs += "\n  " + f.sig + ": " + f.what
	}
	for _, f := range fs {
		if f.c.Check == k.Check {
			return f.sig, obs
		}
	}
	if len(fs) > 0 {
		return fs[0].sig, obs
	}
	return "", obs
}

func selfTest() {
	// own arithmetic against time.Date over the whole range (start-up cross-check of the oracle)
	n := 0
	for y := 1; y <= 9999; y++ {
		for m := 1; m <= 12; m++ {
			t := time.Date(y, time.Month(m), 1, 0, 0, 0, 0, time.UTC)
			if t.Unix() != ref.UnixOfDay(ref.DayNumber(y, m, 1)) || time.Date(y, time.Month(m)+1, 0, 0, 0, 0, 0, time.UTC).Day() != ref.DaysInMonth(y, m) {
				panic(fmt.Sprintf("calendar self-test failed at %d-%d", y, m))
			}
			n++
		}
	}
	yy, mm, dd := ref.FromDayNumber(ref.DayNumber(2000, 2, 29))
	if yy != 2000 || mm != 2 || dd != 29 {
		panic("FromDayNumber self-test failed")
	}
}

func main() {
	vlib.Main(&vlib.Check{
		ID:    "C05",
		Level: "exploration",
		Rule: "every day, month-year and year of the tier's year blocks (thorough: 1..9999) is one case; per case: both bounds, duration, Years containment; " +
			"per day additionally order against the next `offsets` days and Minimum/Maximum through the parser. Distinct = distinct (kind,date); all are non-trivial (each has its own calendar position).",
		Assumptions: []string{
			"oracle is own proleptic-Gregorian day arithmetic (ref/cal.go), cross-checked against time.Date for every month of years 1..9999 at worker start-up",
			"ordering of far-apart pairs follows from strict day-to-day monotonicity of Years(); pairs are checked directly up to the offset bound",
		},
		Plan:       plan,
		Run:        run,
		Replay:     replay,
		WorkerInit: selfTest,
		Required: func(string) []string {
			return []string{"kind:year", "kind:month", "kind:day", "leap-day", "pairs", "minmax"}
		},
		Deadline: func(tier string) time.Duration {
			if tier == "thorough" {
				return 25 * time.Minute
			}
			return 5 * time.Minute
		},
		Bounds: func(tier string) interface{} {
			if tier == "thorough" {
				return map[string]interface{}{"years": "1..9999", "pair_offsets": "1..400"}
			}
			return map[string]interface{}{"year_blocks": quickBlocks, "pair_offsets": "1..40"}
		},
	})
}
