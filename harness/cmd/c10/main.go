// C10 — merging documents accounts for every person and keeps links valid.
// Base family graphs x every sequence of <=k edits of the right-hand copy x
// similarity options x {library call, query function}; oracle by marker
// accounting, fact coverage, re-decode and referential closure.
package main

import (
	"encoding/json"
	"fmt"
	"sort"
	"strings"
	"time"

	"github.com/elliotchance/gedcom/v39"
	"github.com/elliotchance/gedcom/v39/q"
	"verif/harness/gen"
	"verif/harness/gx"
	"verif/harness/vlib"
)

var names = [][2]string{{"Alice", "Archer"}, {"Boris", "Bellamy"}, {"Clara", "Coombes"}, {"Dmitri", "Dunmore"}, {"Edwina", "Eastlake"}}
var births = []string{"3 Mar 1801", "17 Jul 1805", "29 Nov 1830", "8 Jan 1860", "21 May 1790"}

func person(i int, side string) gen.Person {
	sex := "M"
	if i%2 == 1 {
		sex = "F"
	}
	if i == 0 {
		// a bare fact on the left that the right-hand copy may carry with details (and the other way round for person 2)
		return gen.Person{Ptr: "I1", Given: names[0][0], Surname: names[0][1], Sex: sex, Birth: births[0], Marker: fmt.Sprintf("MK%s1", side), Extra: []string{"1 DEAT Y"}}
	}
	if i == 1 {
		return gen.Person{Ptr: "I2", Given: names[1][0], Surname: names[1][1], Sex: sex, Birth: births[1], Marker: fmt.Sprintf("MK%s2", side), Extra: []string{"1 BURI", "2 DATE 9 Sep 1880", "2 PLAC Oldtown"}}
	}
	return gen.Person{Ptr: fmt.Sprintf("I%d", i+1), Given: names[i][0], Surname: names[i][1], Sex: sex, Birth: births[i], Marker: fmt.Sprintf("MK%s%d", side, i+1)}
}

func baseGraph(name, side string) gen.Graph {
	var g gen.Graph
	add := func(n int) {
		for i := 0; i < n; i++ {
			g.People = append(g.People, person(i, side))
		}
	}
	switch name {
	case "single":
		add(1)
	case "couple":
		add(2)
		g.Families = []gen.Family{{Ptr: "F1", Husb: "I1", Wife: "I2"}}
	case "couple-child":
		add(3)
		g.Families = []gen.Family{{Ptr: "F1", Husb: "I1", Wife: "I2", Chil: []string{"I3"}}}
	case "shared-spouse":
		add(3)
		g.Families = []gen.Family{{Ptr: "F1", Husb: "I1", Wife: "I2"}, {Ptr: "F2", Husb: "I1", Wife: "I3"}}
	case "child-is-spouse":
		add(3)
		g.Families = []gen.Family{{Ptr: "F1", Husb: "I1", Wife: "I2", Chil: []string{"I3"}}, {Ptr: "F2", Husb: "I3"}}
	case "perfect-family": // everybody with exact birth and death dates; the child has both parents and no family of its own: its copy scores exactly 1
		add(3)
		for i := range g.People {
			g.People[i].Extra = []string{"1 DEAT", fmt.Sprintf("2 DATE %d Oct 18%d", 3+i, 70+i*9)}
		}
		g.Families = []gen.Family{{Ptr: "F1", Husb: "I1", Wife: "I2", Chil: []string{"I3"}}}
	case "uid-couple": // unique identifiers on both people (certain matches)
		add(2)
		g.People[0].Extra = append(g.People[0].Extra, "1 _UID EE13561DDB204985BFFDEEBF82A5226C5B2E")
		g.People[1].Extra = append(g.People[1].Extra, "1 _UID AA13561DDB204985BFFDEEBF82A5226C5B2E")
		g.Families = []gen.Family{{Ptr: "F1", Husb: "I1", Wife: "I2"}}
	case "both-uids-on-one": // one record that carries the identifiers of two different people of the other side
		p := person(3, side)
		p.Ptr = "J3"
		p.Extra = append(p.Extra, "1 _UID EE13561DDB204985BFFDEEBF82A5226C5B2E", "1 _UID AA13561DDB204985BFFDEEBF82A5226C5B2E")
		q := person(4, side)
		q.Ptr = "J4"
		g.People = append(g.People, p, q)
	case "empty":
	case "other-people": // disjoint people, disjoint pointers
		for i := 3; i < 5; i++ {
			p := person(i, side)
			p.Ptr = fmt.Sprintf("J%d", i)
			g.People = append(g.People, p)
		}
		g.Families = []gen.Family{{Ptr: "G1", Husb: "J3", Wife: "J4"}}
	case "clashing": // different people under the base pointers
		for i := 3; i < 5; i++ {
			p := person(i, side)
			p.Ptr = fmt.Sprintf("I%d", i-2)
			g.People = append(g.People, p)
		}
		g.Families = []gen.Family{{Ptr: "F1", Husb: "I1", Wife: "I2"}}
	}
	g.Link()
	return g
}

var bases = []string{"single", "couple", "couple-child", "shared-spouse", "child-is-spouse", "perfect-family", "uid-couple"}
var specials = []string{"empty", "other-people", "clashing", "both-uids-on-one"}

type edit struct {
	name string
	do   func(g *gen.Graph)
}

func renumber(g *gen.Graph, from, to string) {
	for i := range g.People {
		if g.People[i].Ptr == from {
			g.People[i].Ptr = to
		}
	}
	for i := range g.Families {
		f := &g.Families[i]
		if f.Ptr == from {
			f.Ptr = to
		}
		if f.Husb == from {
			f.Husb = to
		}
		if f.Wife == from {
			f.Wife = to
		}
		for j := range f.Chil {
			if f.Chil[j] == from {
				f.Chil[j] = to
			}
		}
	}
}

var edits = []edit{
	{"renumber-all", func(g *gen.Graph) {
		for _, p := range g.Clone().People {
			renumber(g, p.Ptr, "X"+p.Ptr)
		}
		for _, f := range g.Clone().Families {
			renumber(g, f.Ptr, "Y"+f.Ptr)
		}
	}},
	{"renumber-first-person", func(g *gen.Graph) {
		if len(g.People) > 0 {
			renumber(g, g.People[0].Ptr, "Z"+g.People[0].Ptr)
		}
	}},
	{"renumber-first-family", func(g *gen.Graph) {
		if len(g.Families) > 0 {
			renumber(g, g.Families[0].Ptr, "W"+g.Families[0].Ptr)
		}
	}},
	{"drop-last-person", func(g *gen.Graph) {
		if len(g.People) == 0 {
			return
		}
		p := g.People[len(g.People)-1].Ptr
		g.People = g.People[:len(g.People)-1]
		for i := range g.Families {
			f := &g.Families[i]
			if f.Husb == p {
				f.Husb = ""
			}
			if f.Wife == p {
				f.Wife = ""
			}
			var ch []string
			for _, c := range f.Chil {
				if c != p {
					ch = append(ch, c)
				}
			}
			f.Chil = ch
		}
	}},
	{"drop-first-person", func(g *gen.Graph) {
		if len(g.People) == 0 {
			return
		}
		p := g.People[0].Ptr
		g.People = g.People[1:]
		for i := range g.Families {
			f := &g.Families[i]
			if f.Husb == p {
				f.Husb = ""
			}
			if f.Wife == p {
				f.Wife = ""
			}
			var ch []string
			for _, c := range f.Chil {
				if c != p {
					ch = append(ch, c)
				}
			}
			f.Chil = ch
		}
	}},
	{"add-child", func(g *gen.Graph) {
		// a pointer (and marker) no other person of the document has, also after people were dropped
		k := len(g.People) + 1
		for used := true; used; {
			used = false
			for _, q := range g.People {
				if q.Ptr == fmt.Sprintf("N%d", k) {
					used = true
					k++
				}
			}
		}
		p := gen.Person{Ptr: fmt.Sprintf("N%d", k), Given: "Newman", Surname: "Nightingale", Sex: "M", Birth: "1 Feb 1840", Marker: fmt.Sprintf("MKRN%d", k)}
		g.People = append(g.People, p)
		if len(g.Families) > 0 {
			g.Families[0].Chil = append(g.Families[0].Chil, p.Ptr)
		}
	}},
	{"rename-first-slightly", func(g *gen.Graph) {
		if len(g.People) > 0 {
			g.People[0].Given += "a"
		}
	}},
	{"rename-first-completely", func(g *gen.Graph) {
		if len(g.People) > 0 {
			g.People[0].Given, g.People[0].Surname = "Zebedee", "Quartermaine"
		}
	}},
	{"birth-first-plus-1y", func(g *gen.Graph) {
		if len(g.People) > 0 {
			g.People[0].Birth = "3 Mar 1802"
		}
	}},
	{"birth-first-plus-40y", func(g *gen.Graph) {
		if len(g.People) > 0 {
			g.People[0].Birth = "3 Mar 1841"
		}
	}},
	{"death-with-details-first", func(g *gen.Graph) {
		if len(g.People) > 0 && g.People[0].Ptr == "I1" {
			g.People[0].Extra = []string{"1 DEAT", "2 DATE 9 Sep 1870", "2 PLAC Newtown"}
		}
	}},
	{"burial-bare-second", func(g *gen.Graph) {
		for i := range g.People {
			if g.People[i].Ptr == "I2" {
				g.People[i].Extra = []string{"1 BURI"}
			}
		}
	}},
	{"add-fact-first", func(g *gen.Graph) {
		if len(g.People) > 0 {
			g.People[0].Extra = append(g.People[0].Extra, "1 OCCU Farrier", "2 DATE 1830")
		}
	}},
	{"sex-corrected-first", func(g *gen.Graph) {
		if len(g.People) > 0 {
			if g.People[0].Sex == "M" {
				g.People[0].Sex = "U"
			} else {
				g.People[0].Sex = "M"
			}
		}
	}},
	{"add-facts-last-person", func(g *gen.Graph) {
		if len(g.People) > 0 {
			g.People[len(g.People)-1].Extra = append(g.People[len(g.People)-1].Extra, "1 OCCU Wheelwright", "1 RESI", "2 PLAC Newtown")
		}
	}},
	// a family event that carries the spouses' ages (role nodes nested below the family level)
	{"family-event-with-spouse-ages", func(g *gen.Graph) {
		if len(g.Families) > 0 {
			g.Families[0].Extra = append(g.Families[0].Extra, "1 MARR", "2 DATE 4 Apr 1825", "2 HUSB", "3 AGE 24y", "2 WIFE", "3 AGE 22y")
		}
	}},
	{"family-note-and-second-name", func(g *gen.Graph) {
		if len(g.Families) > 0 {
			g.Families[len(g.Families)-1].Extra = append(g.Families[len(g.Families)-1].Extra, "1 NOTE married in haste", "1 EVEN census", "2 DATE 1841")
		}
		if len(g.People) > 0 {
			g.People[len(g.People)-1].Extra = append(g.People[len(g.People)-1].Extra, "1 NAME Also /Known/", "2 TYPE aka")
		}
	}},
}

type kase struct {
	Base    string `json:"base"`
	Special string `json:"special,omitempty"` // right side is a special document
	Edits   []int  `json:"edits"`
	Swap    bool   `json:"swap,omitempty"` // special on the left
	Options string `json:"options"`
	Entry   string `json:"entry"`
}

func (k kase) docs() (string, string, []string) {
	left := baseGraph(k.Base, "L")
	var right gen.Graph
	var applied []string
	if k.Special != "" {
		right = baseGraph(k.Special, "R")
	} else {
		right = baseGraph(k.Base, "R")
		for _, e := range k.Edits {
			edits[e].do(&right)
			applied = append(applied, edits[e].name)
		}
	}
	right.Link()
	// header and trailer records as real files have them (a merged document need not keep TRLR last)
	lt, rt := "0 HEAD\n1 CHAR UTF-8\n"+left.Text()+"0 TRLR\n", "0 HEAD\n1 CHAR UTF-8\n"+right.Text()+"0 TRLR\n"
	if k.Swap {
		lt, rt = rt, lt
	}
	return lt, rt, applied
}

func options(name string) *gedcom.IndividualNodesCompareOptions {
	o := gedcom.NewIndividualNodesCompareOptions()
	switch name {
	case "strict":
		o.SimilarityOptions.MinimumWeightedSimilarity = 0.95
		o.SimilarityOptions.MinimumSimilarity = 0.95
		o.SimilarityOptions.PreferPointerAbove = 0.95
	case "lenient":
		o.SimilarityOptions.MinimumWeightedSimilarity = 0.3
		o.SimilarityOptions.MinimumSimilarity = 0.3
		o.SimilarityOptions.PreferPointerAbove = 0.3
	}
	return o
}

var refTags = map[string]bool{"HUSB": true, "WIFE": true, "CHIL": true, "FAMS": true, "FAMC": true}

// markersOf returns the markers (NOTE MK…) directly under a record.
func markersOf(n gedcom.Node) []string {
	var out []string
	for _, c := range n.Nodes() {
		if c.Tag().Tag() == "NOTE" && strings.HasPrefix(c.Value(), "MK") {
			out = append(out, c.Value())
		}
	}
	sort.Strings(out)
	return out
}

type refInfo struct{ owner, tag, value string }

// refsOf lists the reference lines of a document with the record they are in.
func refsOf(doc *gedcom.Document) []refInfo {
	var out []refInfo
	for _, rec := range doc.Nodes() {
		for _, c := range rec.Nodes() {
			if refTags[c.Tag().Tag()] {
				out = append(out, refInfo{rec.Tag().Tag() + ":" + rec.Pointer(), c.Tag().Tag(), c.Value()})
			}
		}
	}
	return out
}

func judge1(k kase, extra *[][2]string) (sig, what string) {
	lt, rt, applied := k.docs()
	L, err1 := gedcom.NewDocumentFromString(lt)
	R, err2 := gedcom.NewDocumentFromString(rt)
	if err1 != nil || err2 != nil {
		panic(fmt.Sprint("generated document does not decode: ", err1, err2))
	}
	var out *gedcom.Document
	var err error
	var firstEngine *q.Engine
	p, msg, frame := vlib.Try(func() {
		if k.Entry == "query" {
			eng, perr := q.NewParser().ParseString("MergeDocumentsAndIndividuals(Document1, Document2)")
			if perr != nil {
				panic(perr)
			}
			firstEngine = eng
			var v interface{}
			v, err = eng.Evaluate([]*gedcom.Document{L, R})
			if err == nil {
				out = v.(*gedcom.Document)
			}
		} else {
			out, err = gedcom.MergeDocumentsAndIndividuals(L, R, gedcom.EqualityMergeFunction, options(k.Options))
		}
	})
	if p {
		return "panic:" + frame + ":" + vlib.MsgClass(msg), msg
	}
	if err != nil || out == nil {
		return "merge-returns-error", fmt.Sprint(err)
	}
	if k.Entry == "query" {
		// the query function is the library call: after an in-place edit of one input it must
		// again give what the library call gives on the same two documents
		p, msg, frame := vlib.Try(func() {
			R.AddIndividual("LATE1", gedcom.NewNameNode("Late /Addition/"), gedcom.NewNode(gedcom.TagNote, "MKRLATE1", ""))
			eng, _ := q.NewParser().ParseString("MergeDocumentsAndIndividuals(Document1, Document2)")
			v, e2 := eng.Evaluate([]*gedcom.Document{L, R})
			if e2 != nil {
				err = fmt.Errorf("second merge: query error %v", e2)
				return
			}
			// (not compared with a library call record by record: with tied certain matches the pairing
			// may legitimately differ from call to call; what every call owes is the accounting)
			if n := strings.Count(v.(*gedcom.Document).String(), "MKRLATE1"); n != 1 {
				err = fmt.Errorf("after adding an individual (marker MKRLATE1) to the right document and merging again through the query function, the marker occurs %d times in the result:\n%s", n, v.(*gedcom.Document).String())
			}
			R.DeleteNode(R.NodeByPointer("LATE1"))
			// ... and the engine of the first use evaluated again on two OTHER document objects
			L2, _ := gedcom.NewDocumentFromString(lt)
			R2, _ := gedcom.NewDocumentFromString(rt)
			R2.AddIndividual("LATE2", gedcom.NewNameNode("Later /Addition/"), gedcom.NewNode(gedcom.TagNote, "MKRLATE2", ""))
			v2, e3 := firstEngine.Evaluate([]*gedcom.Document{L2, R2})
			if e3 != nil {
				err = fmt.Errorf("the compiled query evaluated a second time on other documents: query error %v", e3)
				return
			}
			if n := strings.Count(v2.(*gedcom.Document).String(), "MKRLATE2"); n != 1 {
				err = fmt.Errorf("the compiled query evaluated a second time, on two other document objects (the right one with an added individual, marker MKRLATE2): the marker occurs %d times in the result:\n%s", n, v2.(*gedcom.Document).String())
			}
		})
		if p {
			return "panic:second-merge:" + frame + ":" + vlib.MsgClass(msg), msg
		}
		if err != nil {
			return "query-function-second-use-does-not-account-for-an-added-individual", err.Error()
		}
	}
	if k.Entry == "library" {
		// merging is a function of the documents as they are when it is called: the same two document objects are
		// merged again after the right one was changed through the API (an individual added or removed by replacing
		// the document's nodes, by AddNode of a copy, by DeleteNode); the accounting must hold for the present state
		if s, w := mergeAgain(lt, rt, k.Options); s != "" {
			return s, w
		}
	}
	show := fmt.Sprintf("edits=%v options=%s entry=%s\nleft:\n%sright:\n%smerged:\n%s", applied, k.Options, k.Entry, lt, rt, out.String())

	// re-decode
	enc := out.String()
	rd, derr := gedcom.NewDocumentFromString(enc)
	if derr != nil {
		return "merged-text-does-not-decode", derr.Error() + "\n" + show
	}
	if gx.Dump(rd.Nodes(), true) != gx.Dump(out.Nodes(), true) {
		return "merged-text-decodes-differently", show
	}

	// marker accounting
	want := map[string]bool{}
	for _, d := range []*gedcom.Document{L, R} {
		for _, ind := range d.Individuals() {
			for _, m := range markersOf(ind) {
				want[m] = true
			}
		}
	}
	seen := map[string]int{}
	holder := map[string]*gedcom.IndividualNode{}
	for _, ind := range rd.Individuals() {
		ms := markersOf(ind)
		nl, nr := 0, 0
		for _, m := range ms {
			seen[m]++
			holder[m] = ind
			if strings.HasPrefix(m, "MKL") {
				nl++
			} else {
				nr++
			}
		}
		if nl > 1 || nr > 1 {
			return "two-individuals-of-one-side-merged", fmt.Sprintf("output individual @%s@ holds markers %v\n%s", ind.Pointer(), ms, show)
		}
	}
	for m := range want {
		switch {
		case seen[m] == 0:
			return "individual-dropped", fmt.Sprintf("marker %s is in no output individual\n%s", m, show)
		case seen[m] > 1:
			return "individual-duplicated", fmt.Sprintf("marker %s is in %d output individuals\n%s", m, seen[m], show)
		}
	}
	// facts of both originals
	for _, d := range []*gedcom.Document{L, R} {
		for _, ind := range d.Individuals() {
			ms := markersOf(ind)
			if len(ms) == 0 {
				continue
			}
			h := holder[ms[0]]
			for _, fact := range ind.Nodes() {
				if !gx.PathCovered(fact, h.Nodes()) {
					return "fact-lost", fmt.Sprintf("fact %q of %v is not in the output individual @%s@\n%s", fact.GEDCOMLine(1), ms, h.Pointer(), show)
				}
				// plain leaf facts (kinds whose equality is the plain tag/value/pointer one) must be there
				// as written: "represented by an Equals node" is not enough where Equals is the thing at fault
				if t := fact.Tag().Tag(); len(fact.Nodes()) == 0 && (t == "SEX" || t == "NOTE" || t == "OCCU" || t == "EDUC" || strings.HasPrefix(t, "_M")) {
					found := false
					for _, c := range h.Nodes() {
						if c.Tag().Tag() == t && c.Value() == fact.Value() && c.Pointer() == fact.Pointer() {
							found = true
						}
					}
					if !found {
						return "fact-lost:plain-leaf-not-there-as-written", fmt.Sprintf("fact %q of %v is not in the output individual @%s@ as written\n%s", fact.GEDCOMLine(1), ms, h.Pointer(), show)
					}
				}
			}
		}
	}
	// referential closure (inputs are closed by construction)
	person := func(d *gedcom.Document, ptr string) []string {
		n := d.NodeByPointer(ptr)
		if gedcom.IsNil(n) {
			return nil
		}
		return markersOf(n)
	}
	famMembers := func(d *gedcom.Document, ptr string) string {
		n := d.NodeByPointer(ptr)
		if gedcom.IsNil(n) {
			return "?"
		}
		var ms []string
		for _, c := range n.Nodes() {
			if refTags[c.Tag().Tag()] {
				ms = append(ms, c.Tag().Tag()+"="+strings.Join(person(d, strings.Trim(c.Value(), "@")), "+"))
			}
		}
		sort.Strings(ms)
		return strings.Join(ms, ",")
	}
	_ = famMembers
	// duplicate root pointers make resolution ambiguous
	ptrCount := map[string]int{}
	for _, n := range rd.Nodes() {
		if n.Pointer() != "" {
			ptrCount[n.Pointer()]++
		}
	}
	lrefs, rrefs := refsOf(L), refsOf(R)
	for _, ref := range refsOf(rd) {
		ptr := strings.Trim(ref.value, "@")
		target := rd.NodeByPointer(ptr)
		wantKind := "INDI"
		if ref.tag == "FAMS" || ref.tag == "FAMC" {
			wantKind = "FAM"
		}
		if gedcom.IsNil(target) {
			sig := "dangling-reference"
			// known predicate: the pointer belonged to a right-hand individual that was merged into a left-hand individual with another pointer
			if rp := R.NodeByPointer(ptr); !gedcom.IsNil(rp) {
				if ms := markersOf(rp); len(ms) == 1 {
					if h := holder[ms[0]]; h != nil && h.Pointer() != ptr {
						sig += ":right-individual-merged-under-left-pointer"
					}
				}
			}
			*extra = append(*extra, [2]string{sig, fmt.Sprintf("%s %s in %s resolves to nothing\n%s", ref.tag, ref.value, ref.owner, show)})
			continue
		}
		if target.Tag().Tag() != wantKind {
			*extra = append(*extra, [2]string{"reference-to-wrong-kind", fmt.Sprintf("%s %s in %s resolves to a %s\n%s", ref.tag, ref.value, ref.owner, target.Tag().Tag(), show)})
			continue
		}
		if wantKind != "INDI" {
			continue
		}
		// which input(s) did this reference line come from, and whom did it denote there?
		for si, refs := range [][]refInfo{lrefs, rrefs} {
			d := []*gedcom.Document{L, R}[si]
			for _, orig := range refs {
				if orig == ref {
					denoted := person(d, ptr)
					if len(denoted) == 0 {
						continue
					}
					got := markersOf(target)
					if ptrCount[ptr] > 1 {
						*extra = append(*extra, [2]string{"reference-ambiguous:clashing-pointers", fmt.Sprintf("%s %s in %s: the output has %d records with pointer %s\n%s", ref.tag, ref.value, ref.owner, ptrCount[ptr], ptr, show)})
						continue
					}
					ok := false
					for _, m := range got {
						if m == denoted[0] {
							ok = true
						}
					}
					if !ok {
						sig := "reference-resolves-to-other-person"
						if ms := denoted; len(ms) == 1 {
							if h := holder[ms[0]]; h != nil && h.Pointer() != ptr {
								sig += ":right-individual-merged-under-left-pointer"
							}
						}
						*extra = append(*extra, [2]string{sig, fmt.Sprintf("%s %s in %s denoted %v in its input but resolves to %v\n%s", ref.tag, ref.value, ref.owner, denoted, got, show)})
					}
				}
			}
		}
	}
	return "", ""
}

// mergeAgain: see judge1.
func mergeAgain(lt, rt, opts string) (sig, what string) {
	type edit struct {
		name string
		do   func(R *gedcom.Document) (marker string, wantCount int)
	}
	late := func(R *gedcom.Document, ptr, marker string) *gedcom.IndividualNode {
		src := gedcom.NewDocument()
		n := src.AddIndividual(ptr, gedcom.NewNameNode("Late /Addition/"), gedcom.NewNode(gedcom.TagNote, marker, ""))
		return gedcom.DeepCopy(n, R).(*gedcom.IndividualNode)
	}
	lastIndi := func(R *gedcom.Document) gedcom.Node {
		var last gedcom.Node
		for _, n := range R.Nodes() {
			if _, ok := n.(*gedcom.IndividualNode); ok {
				last = n
			}
		}
		return last
	}
	edits := []edit{
		{"SetNodes(nodes + a new individual)", func(R *gedcom.Document) (string, int) {
			R.SetNodes(append(append(gedcom.Nodes{}, R.Nodes()...), late(R, "LATE3", "MKRLATE3")))
			return "MKRLATE3", 1
		}},
		{"AddNode(a new individual)", func(R *gedcom.Document) (string, int) {
			R.AddNode(late(R, "LATE4", "MKRLATE4"))
			return "MKRLATE4", 1
		}},
		{"SetNodes(nodes without the last individual)", func(R *gedcom.Document) (string, int) {
			last := lastIndi(R)
			if last == nil || len(markersOf(last)) != 1 {
				return "", 0
			}
			var kept gedcom.Nodes
			for _, n := range R.Nodes() {
				if n != last {
					kept = append(kept, n)
				}
			}
			R.SetNodes(kept)
			return markersOf(last)[0], 0
		}},
		{"DeleteNode(the last individual)", func(R *gedcom.Document) (string, int) {
			last := lastIndi(R)
			if last == nil || len(markersOf(last)) != 1 {
				return "", 0
			}
			R.DeleteNode(last)
			return markersOf(last)[0], 0
		}},
	}
	for _, e := range edits {
		L, _ := gedcom.NewDocumentFromString(lt)
		R, _ := gedcom.NewDocumentFromString(rt)
		var out *gedcom.Document
		var err error
		var marker string
		var want int
		p, msg, frame := vlib.Try(func() {
			if _, err = gedcom.MergeDocumentsAndIndividuals(L, R, gedcom.EqualityMergeFunction, options(opts)); err != nil {
				return
			}
			marker, want = e.do(R)
			if marker == "" {
				return
			}
			out, err = gedcom.MergeDocumentsAndIndividuals(L, R, gedcom.EqualityMergeFunction, options(opts))
		})
		if p {
			return "panic:merge-again:" + frame + ":" + vlib.MsgClass(msg), msg
		}
		if marker == "" || err != nil || out == nil {
			continue
		}
		if n := strings.Count(out.String(), marker); n != want {
			return "merge-again-does-not-account-for-the-present-individuals", fmt.Sprintf("two documents were merged, the right one was changed with %s, and the same two objects were merged again: marker %s occurs %d times in the result, want %d\nleft:\n%sright now:\n%smerged:\n%s", e.name, marker, n, want, lt, R.String(), out.String())
		}
	}
	return "", ""
}

// sortedRecords: the document's root records as text, sorted (record order is not part of the comparison).
func sortedRecords(d *gedcom.Document) string {
	var recs []string
	for _, n := range d.Nodes() {
		recs = append(recs, gedcom.GEDCOMString(n, 0))
	}
	sort.Strings(recs)
	return strings.Join(recs, "")
}

// judge returns every distinct finding of a case (reference findings do not
// stop the walk, so a known finding cannot mask another one in the same case).
func judge(k kase) [][2]string {
	var extra [][2]string
	sig, what := judge1(k, &extra)
	if sig != "" {
		extra = append(extra, [2]string{sig, what})
	}
	seen := map[string]bool{}
	var out [][2]string
	for _, e := range extra {
		if !seen[e[0]] {
			seen[e[0]] = true
			out = append(out, e)
		}
	}
	return out
}

func editSeqs(k int) [][]int {
	out := [][]int{{}}
	for l := 1; l <= k; l++ {
		tot := gen.Pow(len(edits), l)
		for i := int64(0); i < tot; i++ {
			out = append(out, gen.Digits(i, len(edits), l))
		}
	}
	return out
}

var optionNames = []string{"default", "strict", "lenient"}

func cases(tier string) []kase {
	k := 2
	if tier == "thorough" {
		k = 3
	}
	var out []kase
	for _, b := range bases {
		for _, es := range editSeqs(k) {
			for _, o := range optionNames {
				out = append(out, kase{Base: b, Edits: es, Options: o, Entry: "library"})
			}
			out = append(out, kase{Base: b, Edits: es, Options: "default", Entry: "query"})
		}
		for _, sp := range specials {
			for _, swap := range []bool{false, true} {
				for _, o := range optionNames {
					out = append(out, kase{Base: b, Special: sp, Swap: swap, Options: o, Entry: "library"})
				}
				out = append(out, kase{Base: b, Special: sp, Swap: swap, Options: "default", Entry: "query"})
			}
		}
	}
	out = append(out, kase{Base: "empty", Special: "empty", Options: "default", Entry: "library"}, kase{Base: "empty", Special: "empty", Options: "default", Entry: "query"})
	return out
}

func run(tier, unit string, r *vlib.Rec) {
	_, lo, hi := vlib.ParseChunk(unit)
	cs := cases(tier)
	after := vlib.After(unit)
	skipping := after != ""
	for i := lo; i < hi; i++ {
		k := cs[i]
		if skipping {
			if vlib.JSON(k) == after {
				skipping = false
			}
			continue
		}
		r.Begin(k)
		r.Eval()
		r.Count("base:" + k.Base)
		r.Count("options:" + k.Options)
		r.Count("entry:" + k.Entry)
		if k.Special != "" {
			r.Count("special:" + k.Special)
		}
		for _, e := range k.Edits {
			r.Count("edit:" + edits[e].name)
		}
		lt, rt, _ := k.docs()
		if lt != "" && rt != "" {
			r.Nontrivial(lt + "|" + rt + "|" + k.Options + k.Entry)
		}
		fs := judge(k)
		for _, f := range fs {
			r.Fail(f[0], f[1], k)
		}
		if len(fs) == 0 && r.WantSample() && len(k.Edits) == 2 {
			r.Sample(map[string]interface{}{"case": k, "left": lt, "right": rt})
		}
	}
}

func plan(tier string) []string { return vlib.Chunks("cases", int64(len(cases(tier))), 50) }

func replay(c json.RawMessage) (string, string) {
	var k kase
	json.Unmarshal(c, &k)
	fs := judge(k)
	obs := ""
	for _, f := range fs {
		obs += f[0] + ": " + f[1] + "\n"
	}
	if len(fs) == 0 {
		return "", "no finding"
	}
	var sigs []string
	for _, f := range fs {
		sigs = append(sigs, f[0])
	}
	return strings.Join(sigs, "\x1f"), obs
}

func main() {
	vlib.Main(&vlib.Check{
		ID:    "C10",
		Level: "exploration",
		Rule: "cases: 7 referentially closed base family graphs with HEAD and TRLR records (single, couple, couple+child, two families sharing a spouse, child who is also a spouse, a family with exact dates throughout, a couple with unique identifiers) x every sequence of <=k edits of the right-hand copy from 17 edits (renumber all/one person/one family, drop first/last person, add a child, rename slightly/completely, birth +1y/+40y, add facts, a family event with spouse ages, family note/event and a second name), plus empty / disjoint / clashing-pointer documents and a record carrying two people's unique identifiers on either side, x {default, strict 0.95, lenient 0.3} x {library call, query function}. " +
			"Non-trivial = both documents non-empty; distinct by (left text, right text, options, entry).",
		Assumptions: []string{
			"every individual carries a unique marker NOTE so that the matching chosen by the implementation does not need to be known",
			"a reference line of the output is attributed to the input(s) that contain the same (record, tag, value) line; it must resolve to the individual holding the marker of the person it denoted there",
			"Compare runs with Jobs unset (one worker per stage); schedules are C11's business",
		},
		Plan:   plan,
		Run:    run,
		Replay: replay,
		DiedSig: func(c json.RawMessage, stderr string) (string, string) {
			return "process-died:" + vlib.MsgClass(stderr), "merge killed the process (panic in a goroutine?): " + stderr
		},
		Required: func(string) []string {
			req := []string{"entry:library", "entry:query", "options:default", "options:strict", "options:lenient", "special:empty", "special:other-people", "special:clashing"}
			for _, e := range edits {
				req = append(req, "edit:"+e.name)
			}
			return req
		},
		Deadline: func(tier string) time.Duration {
			if tier == "thorough" {
				return 25 * time.Minute
			}
			return 8 * time.Minute
		},
	})
}
