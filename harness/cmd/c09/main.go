// C09 — merging nodes loses nothing, invents nothing and copies.
// All pairs of trees with <=N nodes (MergeNodes) and all pairs of lists of
// 0..3 small elements x 3 merge functions (MergeNodeSlices), followed by every
// single mutation of the result.
package main

import (
	"encoding/json"
	"fmt"
	"strconv"
	"strings"
	"time"

	"github.com/elliotchance/gedcom/v39"
	"verif/harness/gen"
	"verif/harness/gx"
	"verif/harness/vlib"
)

type Label struct{ Tag, Value, Pointer string }

var alphabet = []Label{
	{"NOTE", "a", ""}, {"NOTE", "b", ""}, {"BIRT", "", ""}, {"RESI", "", ""},
	{"DATE", "1 Jan 1900", ""}, {"DATE", "2 Feb 1901", ""}, {"OCCU", "a", "P1"},
	{"FAM", "", "F1"}, {"HUSB", "@I1@", ""}, {"CHIL", "@I2@", ""},
}

// legal: FAM only as root; HUSB/CHIL only directly under a FAM root.
func (t Tree) legal() bool {
	for i, l := range t.Levels {
		switch alphabet[t.Labels[i]].Tag {
		case "FAM":
			if l != 0 {
				return false
			}
		case "HUSB", "CHIL":
			if l != 1 || alphabet[t.Labels[0]].Tag != "FAM" {
				return false
			}
		}
	}
	return true
}

type Tree struct {
	Levels []int    `json:"levels"`
	Labels []int    `json:"labels"`
	Extra  []string `json:"extra,omitempty"` // explicit lines (equality-class trees); when set it is the whole text
}

func (t Tree) size() int {
	if t.Extra != nil {
		return len(t.lines(""))
	}
	return len(t.Levels)
}

func (t Tree) lines(marker string) []string {
	if t.Extra != nil {
		out := strings.Split(strings.Join(t.Extra, "\n"), "\n")
		if marker != "" {
			out = append(out[:1:1], append([]string{"1 " + marker + " m"}, out[1:]...)...)
		}
		return out
	}
	var out []string
	for i, l := range t.Levels {
		lb := alphabet[t.Labels[i]]
		s := strconv.Itoa(l)
		if lb.Pointer != "" {
			s += " @" + lb.Pointer + "@"
		}
		s += " " + lb.Tag
		if lb.Value != "" {
			s += " " + lb.Value
		}
		out = append(out, s)
		if i == 0 && marker != "" {
			out = append(out, "1 "+marker+" m")
		}
	}
	return out
}

func (t Tree) text() string { return strings.Join(t.lines(""), "\n") + "\n" }

func buildOne(lines []string) gedcom.Node {
	doc, err := gedcom.NewDocumentFromString(strings.Join(lines, "\n") + "\n")
	if err != nil || len(doc.Nodes()) != 1 {
		panic(fmt.Sprintf("cannot build %q: %v", lines, err))
	}
	return doc.Nodes()[0]
}

func (t Tree) build() gedcom.Node { return buildOne(t.lines("")) }

func allTrees(maxN int) []Tree {
	var out []Tree
	for n := 1; n <= maxN; n++ {
		shapes := gen.AllTrees(n)
		per := gen.Pow(len(alphabet), n)
		for si := range shapes {
			for idx := int64(0); idx < per; idx++ {
				if t := (Tree{Levels: shapes[si], Labels: gen.Digits(idx, len(alphabet), n)}); t.legal() {
					out = append(out, t)
				}
			}
		}
	}
	return out
}

func eq(a, b gedcom.Node) bool { return a.Equals(b) || b.Equals(a) }

// pathCovered: input node x (child level) is represented among candidates by
// an Equals node whose children recursively cover x's children.
func pathCovered(x gedcom.Node, candidates gedcom.Nodes) bool {
	for _, c := range candidates {
		if !eq(c, x) {
			continue
		}
		ok := true
		for _, xc := range x.Nodes() {
			if !pathCovered(xc, c.Nodes()) {
				ok = false
				break
			}
		}
		if ok {
			return true
		}
	}
	return false
}

// stems: result node x (with its subtree) stems from input candidates: there
// is an Equals input node, and each child of x stems from a child of some
// Equals input node (the merged node may take children from both inputs).
func stems(x gedcom.Node, candidates gedcom.Nodes) bool {
	var pool gedcom.Nodes
	for _, c := range candidates {
		if eq(c, x) {
			pool = append(pool, c.Nodes()...)
			if len(c.Nodes()) == 0 {
				pool = append(pool, nil)[:len(pool)]
			}
		}
	}
	found := false
	for _, c := range candidates {
		if eq(c, x) {
			found = true
		}
	}
	if !found {
		return false
	}
	for _, xc := range x.Nodes() {
		if !stems(xc, pool) {
			return false
		}
	}
	return true
}

type kase struct {
	Kind string `json:"kind"` // nodes | slices | self | errors
	L    *Tree  `json:"l,omitempty"`
	R    *Tree  `json:"r,omitempty"`
	LL   []int  `json:"ll,omitempty"` // element indices
	RL   []int  `json:"rl,omitempty"`
	Fn   string `json:"fn,omitempty"`
	Bare int    `json:"bare,omitempty"` // slices: 1 left elements without marker, 2 right, 3 both
}

func hasEqualSiblings(n gedcom.Node) bool {
	k := n.Nodes()
	for i := range k {
		for j := i + 1; j < len(k); j++ {
			if eq(k[i], k[j]) {
				return true
			}
		}
	}
	for _, c := range k {
		if hasEqualSiblings(c) {
			return true
		}
	}
	return false
}

func sharedNode(result gedcom.Nodes, inputs ...gedcom.Nodes) gedcom.Node {
	ids := map[gedcom.Node]bool{}
	for _, in := range inputs {
		gx.Identities(in, ids)
	}
	for n := range gx.Identities(result, nil) {
		if ids[n] {
			return n
		}
	}
	return nil
}

// mutations applies every single public-API mutation to the result and
// reports the first one after which an input's text changed.
func mutationLeak(mk func() (result gedcom.Nodes, snapshot func() string)) string {
	// count positions on a first build
	res, _ := mk()
	var positions int
	var walk func(ns gedcom.Nodes)
	walk = func(ns gedcom.Nodes) {
		for _, n := range ns {
			positions++
			walk(n.Nodes())
		}
	}
	walk(res)
	for pos := 0; pos < positions; pos++ {
		for _, mut := range []string{"AddNode", "DeleteNode-first-child", "SetNodes-nil"} {
			res, snap := mk()
			before := snap()
			i := 0
			var target gedcom.Node
			var find func(ns gedcom.Nodes)
			find = func(ns gedcom.Nodes) {
				for _, n := range ns {
					if i == pos {
						target = n
					}
					i++
					find(n.Nodes())
				}
			}
			find(res)
			if target == nil {
				continue
			}
			switch mut {
			case "AddNode":
				target.AddNode(gedcom.NewNode(gedcom.TagFromString("NOTE"), "mut", ""))
			case "DeleteNode-first-child":
				if len(target.Nodes()) == 0 {
					continue
				}
				target.DeleteNode(target.Nodes()[0])
			case "SetNodes-nil":
				target.SetNodes(nil)
			}
			if after := snap(); after != before {
				return fmt.Sprintf("%s on result node %d changed an input:\nbefore:\n%safter:\n%s", mut, pos, before, after)
			}
		}
	}
	return ""
}

func judgeNodes(lt, rt Tree) (sig, what string) {
	L, R := lt.build(), rt.build()
	l0, r0 := L.GEDCOMString(0), R.GEDCOMString(0)
	doc := gedcom.NewDocument()
	var res gedcom.Node
	var err error
	if p, msg, frame := vlib.Try(func() { res, err = gedcom.MergeNodes(L, R, doc) }); p {
		return "panic:MergeNodes:" + frame + ":" + vlib.MsgClass(msg), msg
	}
	sameTag := L.Tag().Tag() == R.Tag().Tag()
	if !sameTag {
		if err == nil || !gedcom.IsNil(res) {
			return "merge-of-different-tags-not-an-error", "MergeNodes of different root tags must return an error"
		}
		return "", ""
	}
	if err != nil || gedcom.IsNil(res) {
		return "merge-of-same-tags-fails", fmt.Sprint(err)
	}
	if L.GEDCOMString(0) != l0 || R.GEDCOMString(0) != r0 {
		return "inputs-modified-by-merge", "an input changed during MergeNodes"
	}
	show := fmt.Sprintf("left:\n%sright:\n%sresult:\n%s", l0, r0, res.GEDCOMString(0))
	// nothing lost (roots identified with the result root)
	for _, side := range []gedcom.Node{L, R} {
		for _, c := range side.Nodes() {
			if !pathCovered(c, res.Nodes()) {
				return "node-lost", fmt.Sprintf("input child %q (with its subtree) has no Equals path in the result\n%s", c.GEDCOMLine(1), show)
			}
		}
	}
	if res.Tag().Tag() != L.Tag().Tag() || res.Value() != L.Value() || res.Pointer() != L.Pointer() {
		return "result-root-not-left-root", show
	}
	// nothing invented
	pool := append(append(gedcom.Nodes{}, L.Nodes()...), R.Nodes()...)
	for _, c := range res.Nodes() {
		if !stems(c, pool) {
			return "node-invented", fmt.Sprintf("result child %q (with its subtree) does not stem from the inputs\n%s", c.GEDCOMLine(1), show)
		}
	}
	// self merge adds nothing when no two siblings are equal
	if lt.text() == rt.text() && !hasEqualSiblings(L) {
		if gx.CountNodes(gedcom.Nodes{res}) != lt.size() || !gedcom.DeepEqual(res, L) {
			return "self-merge-adds-nodes", show
		}
	}
	// freshness
	if n := sharedNode(gedcom.Nodes{res}, gedcom.Nodes{L}, gedcom.Nodes{R}); n != nil {
		sig := "result-shares-node-with-input"
		// classify: is the shared node an unmatched right child (no Equals partner among the left's children)?
		for _, c := range R.Nodes() {
			if c == n {
				partner := false
				for _, lc := range L.Nodes() {
					if eq(lc, c) {
						partner = true
					}
				}
				if !partner {
					sig += ":unmatched-right-child"
				}
			}
		}
		return sig, fmt.Sprintf("result contains input node %q by reference\n%s", n.GEDCOMLine(0), show)
	}
	leak := mutationLeak(func() (gedcom.Nodes, func() string) {
		l, r := lt.build(), rt.build()
		m, _ := gedcom.MergeNodes(l, r, gedcom.NewDocument())
		return gedcom.Nodes{m}, func() string { return l.GEDCOMString(0) + "|" + r.GEDCOMString(0) }
	})
	if leak != "" {
		return "result-mutation-shows-in-input", leak
	}
	return "", ""
}

// ---- slices ----

var elements = [][]string{
	{"0 NOTE a"}, {"0 NOTE b"}, {"0 BIRT"}, {"0 NOTE a", "1 NOTE b"}, {"0 BIRT", "1 DATE 1 Jan 1900"}, {"0 RESI", "1 DATE 1 Jan 1900"},
}

func lists(maxLen int) [][]int {
	out := [][]int{{}}
	for l := 1; l <= maxLen; l++ {
		tot := gen.Pow(len(elements), l)
		for i := int64(0); i < tot; i++ {
			out = append(out, gen.Digits(i, len(elements), l))
		}
	}
	return out
}

func buildList(idx []int, side string) gedcom.Nodes { return buildListM(idx, side, true) }

// buildListM: marked=false leaves the marker leaf out, so that elements can be leaves (a bare record or event
// meeting its detailed counterpart); the marker accounting is then replaced by the Equals-path coverage alone.
func buildListM(idx []int, side string, marked bool) gedcom.Nodes {
	out := gedcom.Nodes{}
	for i, e := range idx {
		lines := append([]string{}, elements[e]...)
		if marked {
			// marker leaf directly under the element root
			lines = append([]string{lines[0], fmt.Sprintf("1 _M%s%d m", side, i)}, lines[1:]...)
		}
		out = append(out, buildOne(lines))
	}
	return out
}

var mergeFns = map[string]gedcom.MergeFunction{
	"equality": gedcom.EqualityMergeFunction,
	"always": func(l, r gedcom.Node, d *gedcom.Document) gedcom.Node {
		m, err := gedcom.MergeNodes(l, r, d)
		if err != nil {
			return nil
		}
		return m
	},
	"never": func(l, r gedcom.Node, d *gedcom.Document) gedcom.Node { return nil },
	// declines with a nil pointer of a concrete node type (a nil Node all the same: gedcom.IsNil)
	"never-typed-nil": func(l, r gedcom.Node, d *gedcom.Document) gedcom.Node { var m *gedcom.SimpleNode; return m },
	// merges only elements whose tags are equal and declines otherwise with a typed nil
	"same-tag-typed-nil": func(l, r gedcom.Node, d *gedcom.Document) gedcom.Node {
		if l.Tag().Tag() != r.Tag().Tag() {
			var m *gedcom.NameNode
			return m
		}
		m, err := gedcom.MergeNodes(l, r, d)
		if err != nil {
			return nil
		}
		return m
	},
}
var fnNames = []string{"equality", "always", "never", "never-typed-nil", "same-tag-typed-nil"}

func text(ns gedcom.Nodes) string {
	var sb strings.Builder
	for _, n := range ns {
		if gedcom.IsNil(n) {
			sb.WriteString("<nil>\n")
			continue
		}
		sb.WriteString(n.GEDCOMString(0))
	}
	return sb.String()
}

func markers(n gedcom.Node) (l, r []string) {
	var rec func(n gedcom.Node)
	rec = func(n gedcom.Node) {
		t := n.Tag().Tag()
		if strings.HasPrefix(t, "_ML") {
			l = append(l, t)
		}
		if strings.HasPrefix(t, "_MR") {
			r = append(r, t)
		}
		for _, c := range n.Nodes() {
			rec(c)
		}
	}
	rec(n)
	return
}

func judgeSlices(ll, rl []int, fn string) (sig, what string) { return judgeSlicesB(ll, rl, fn, 0) }

// bare: 0 both sides carry markers, 1 left elements bare, 2 right elements bare, 3 both
func judgeSlicesB(ll, rl []int, fn string, bare int) (sig, what string) {
	L, R := buildListM(ll, "L", bare&1 == 0), buildListM(rl, "R", bare&2 == 0)
	l0, r0 := text(L), text(R)
	var res gedcom.Nodes
	if p, msg, frame := vlib.Try(func() { res = gedcom.MergeNodeSlices(L, R, gedcom.NewDocument(), mergeFns[fn]) }); p {
		return "panic:MergeNodeSlices:" + frame + ":" + vlib.MsgClass(msg), msg
	}
	show := fmt.Sprintf("fn=%s\nleft:\n%sright:\n%sresult:\n%s", fn, l0, r0, text(res))
	if text(L) != l0 || text(R) != r0 {
		return "inputs-modified-by-merge", show
	}
	max := len(L)
	if len(R) > max {
		max = len(R)
	}
	if len(res) < max || len(res) > len(L)+len(R) {
		return "result-length-out-of-bounds", fmt.Sprintf("len=%d, want %d..%d\n%s", len(res), max, len(L)+len(R), show)
	}
	for _, e := range res {
		if gedcom.IsNil(e) {
			return "nil-element-in-result", show
		}
	}
	if strings.HasPrefix(fn, "never") && len(res) != len(L)+len(R) {
		return "never-merge-merged", show
	}
	if fn == "always" {
		// number of merges possible = pairs with equal tags, greedy; at least: result no longer than never-merge and each merge pairs one L with one R
	}
	if bare != 0 {
		// without markers: every input element is represented by a result element that equals it, with every
		// child covered by an Equals path
		for _, side := range []gedcom.Nodes{L, R} {
			for _, e := range side {
				ok := false
				for _, h := range res {
					// a merge function that merges whatever has the same tag identifies the two roots (as MergeNodes does)
					byTag := (fn == "always" || fn == "same-tag-typed-nil") && h.Tag().Tag() == e.Tag().Tag()
					if !eq(h, e) && !byTag {
						continue
					}
					all := true
					for _, c := range e.Nodes() {
						if !pathCovered(c, h.Nodes()) {
							all = false
						}
					}
					if all {
						ok = true
					}
				}
				if !ok {
					return "node-lost", fmt.Sprintf("input element %q is not represented in the result\n%s", e.GEDCOMLine(0), show)
				}
			}
		}
		return freshSlices(ll, rl, fn, bare, res, L, R, show)
	}
	// marker accounting
	seen := map[string]int{}
	for _, e := range res {
		ml, mr := markers(e)
		if len(ml) > 1 || len(mr) > 1 {
			return "element-merged-more-than-once", fmt.Sprintf("a result element holds markers %v %v\n%s", ml, mr, show)
		}
		for _, m := range append(ml, mr...) {
			seen[m]++
		}
		if len(ml) == 1 && len(mr) == 1 {
			// a merged element: the two originals must have had equal tags
		}
	}
	for i := range L {
		if seen[fmt.Sprintf("_ML%d", i)] != 1 {
			return "left-element-not-exactly-once", fmt.Sprintf("marker _ML%d occurs %d times\n%s", i, seen[fmt.Sprintf("_ML%d", i)], show)
		}
	}
	for i := range R {
		if seen[fmt.Sprintf("_MR%d", i)] != 1 {
			return "right-element-not-exactly-once", fmt.Sprintf("marker _MR%d occurs %d times\n%s", i, seen[fmt.Sprintf("_MR%d", i)], show)
		}
	}
	// nothing lost / nothing invented at element level. An element is found
	// through its marker; when the merge function merged it with an element of
	// the other side the two roots are identified (as in MergeNodes).
	holder := func(m string) gedcom.Node {
		for _, e := range res {
			ml, mr := markers(e)
			for _, x := range append(ml, mr...) {
				if x == m {
					return e
				}
			}
		}
		return nil
	}
	for si, side := range []gedcom.Nodes{L, R} {
		for i, e := range side {
			h := holder(fmt.Sprintf("_M%s%d", "LR"[si:si+1], i))
			ml, mr := markers(h)
			mergedHere := len(ml) == 1 && len(mr) == 1
			if !mergedHere && !eq(h, e) {
				return "node-lost", fmt.Sprintf("input element %q is carried over as %q\n%s", e.GEDCOMLine(0), h.GEDCOMLine(0), show)
			}
			if mergedHere && h.Tag().Tag() != e.Tag().Tag() {
				return "merged-elements-of-different-tags", show
			}
			for _, c := range e.Nodes() {
				if !pathCovered(c, h.Nodes()) {
					return "node-lost", fmt.Sprintf("child %q of input element %q has no Equals path in the result element\n%s", c.GEDCOMLine(1), e.GEDCOMLine(0), show)
				}
			}
		}
	}
	for _, e := range res {
		ml, mr := markers(e)
		var pool gedcom.Nodes
		for _, m := range ml {
			var i int
			fmt.Sscanf(m, "_ML%d", &i)
			pool = append(pool, L[i].Nodes()...)
		}
		for _, m := range mr {
			var i int
			fmt.Sscanf(m, "_MR%d", &i)
			pool = append(pool, R[i].Nodes()...)
		}
		for _, c := range e.Nodes() {
			if !stems(c, pool) {
				return "node-invented", fmt.Sprintf("child %q of result element %q does not stem from the merged inputs\n%s", c.GEDCOMLine(1), e.GEDCOMLine(0), show)
			}
		}
	}
	return freshSlices(ll, rl, fn, 0, res, L, R, show)
}

// freshSlices: the result is built from fresh nodes.
func freshSlices(ll, rl []int, fn string, bare int, res, L, R gedcom.Nodes, show string) (sig, what string) {
	if n := sharedNode(res, L, R); n != nil {
		sig := "result-shares-node-with-input"
		isRoot := false
		for _, e := range R {
			if e == n {
				isRoot = true
			}
		}
		if gx.Identities(R, nil)[n] && !isRoot {
			sig += ":unmatched-right-child"
		}
		return sig, fmt.Sprintf("result contains input node %q by reference\n%s", n.GEDCOMLine(0), show)
	}
	leak := mutationLeak(func() (gedcom.Nodes, func() string) {
		l, r := buildListM(ll, "L", bare&1 == 0), buildListM(rl, "R", bare&2 == 0)
		m := gedcom.MergeNodeSlices(l, r, gedcom.NewDocument(), mergeFns[fn])
		return m, func() string { return text(l) + "|" + text(r) }
	})
	if leak != "" {
		return "result-mutation-shows-in-input", leak
	}
	return "", ""
}

func run(tier, unit string, r *vlib.Rec) {
	name, lo, hi := vlib.ParseChunk(unit)
	switch name {
	case "nodes":
		N := 3
		trees := allTrees(N)
		for i := lo; i < hi; i++ {
			lt := trees[i]
			for _, rt := range trees {
				same := alphabet[lt.Labels[0]].Tag == alphabet[rt.Labels[0]].Tag
				if !same && len(rt.Levels) > 1 {
					continue // error path: one representative per root label
				}
				r.Eval()
				if same {
					r.Count("nodes:same-tag")
					if len(lt.Levels)+len(rt.Levels) >= 3 {
						r.Nontrivial(lt.text() + "|" + rt.text())
					}
				} else {
					r.Count("nodes:different-tag")
				}
				l, rr := lt, rt
				if s, w := judgeNodes(lt, rt); s != "" {
					r.Fail(s, w, kase{Kind: "nodes", L: &l, R: &rr})
				} else if same && r.WantSample() && len(lt.Levels) == 3 && len(rt.Levels) == 3 && lt.text() != rt.text() {
					m, _ := gedcom.MergeNodes(lt.build(), rt.build(), gedcom.NewDocument())
					r.Sample(map[string]string{"left": lt.text(), "right": rt.text(), "merged": m.GEDCOMString(0)})
				}
			}
		}
	case "classes": // sibling multisets around every specialised Equals rule (gen.EqualityClassPool)
		pool := gen.EqualityClassPool
		mk := func(parts ...string) Tree { return Tree{Extra: append([]string{"0 @I1@ INDI"}, parts...)} }
		for i := lo; i < hi; i++ {
			for j := int(i) - 1; j < len(pool); j++ { // j == i-1: no second element
				a := []string{pool[i]}
				if j >= int(i) {
					a = append(a, pool[j])
				}
				lt := mk(a...)
				others := []Tree{lt, mk()}
				if len(a) == 2 {
					others = append(others, mk(a[1], a[0]))
				}
				for _, b := range pool {
					others = append(others, mk(b))
				}
				for _, rt := range others {
					for _, pr := range [][2]Tree{{lt, rt}, {rt, lt}} {
						r.Eval()
						r.Count("classes")
						r.Nontrivial(pr[0].text() + "|" + pr[1].text())
						l, rr := pr[0], pr[1]
						if s, w := judgeNodes(l, rr); s != "" {
							r.Fail(s, w, kase{Kind: "nodes", L: &l, R: &rr})
						}
					}
				}
			}
		}
	case "nil":
		r.Eval()
		r.Count("nil")
		t := allTrees(1)[0]
		for _, c := range [][2]gedcom.Node{{nil, t.build()}, {t.build(), nil}, {nil, nil}, {(*gedcom.SimpleNode)(nil), t.build()}} {
			var res gedcom.Node
			var err error
			if p, msg, _ := vlib.Try(func() { res, err = gedcom.MergeNodes(c[0], c[1], gedcom.NewDocument()) }); p {
				r.Fail("panic:MergeNodes:nil-input", msg, kase{Kind: "errors"})
			} else if err == nil || !gedcom.IsNil(res) {
				r.Fail("nil-input-not-an-error", "MergeNodes with a nil input must return an error", kase{Kind: "errors"})
			}
		}
	case "slices":
		maxLen := 3
		ls := lists(maxLen)
		for i := lo; i < hi; i++ {
			for _, rl := range ls {
				if tier != "thorough" && len(ls[i])+len(rl) > 5 {
					continue
				}
				for _, fn := range fnNames {
					r.Eval()
					r.Count("slices:" + fn)
					if len(ls[i]) > 0 && len(rl) > 0 {
						r.Nontrivial(fmt.Sprintf("%v|%v|%s", ls[i], rl, fn))
					}
					if s, w := judgeSlices(ls[i], rl, fn); s != "" {
						r.Fail(s, w, kase{Kind: "slices", LL: ls[i], RL: rl, Fn: fn})
					}
					if len(ls[i])+len(rl) <= 4 {
						for bare := 1; bare <= 3; bare++ {
							r.Eval()
							r.Count("slices:bare")
							if s, w := judgeSlicesB(ls[i], rl, fn, bare); s != "" {
								r.Fail(s, w, kase{Kind: "slices", LL: ls[i], RL: rl, Fn: fn, Bare: bare})
							}
						}
					}
				}
			}
		}
	}
}

func plan(tier string) []string {
	out := vlib.Chunks("nodes", int64(len(allTrees(3))), 10)
	out = append(out, "nil:0:1")
	out = append(out, vlib.Chunks("slices", int64(len(lists(3))), 4)...)
	out = append(out, vlib.Chunks("classes", int64(len(gen.EqualityClassPool)), 1)...)
	return out
}

func replay(c json.RawMessage) (string, string) {
	var k kase
	json.Unmarshal(c, &k)
	switch k.Kind {
	case "nodes":
		return judgeNodes(*k.L, *k.R)
	case "slices":
		return judgeSlicesB(k.LL, k.RL, k.Fn, k.Bare)
	}
	return "", "error-path case; re-run the check"
}

func main() {
	vlib.Main(&vlib.Check{
		ID:    "C09",
		Level: "exploration",
		Rule: "cases: MergeNodes on every ordered pair of trees with <=3 nodes over {NOTE a, NOTE b, BIRT, RESI, DATE x2, pointered OCCU} with equal root tags (plus the different-tag and nil error paths); MergeNodeSlices on every ordered pair of lists of 0..3 elements from 6 small element trees (each element carrying a unique marker leaf) x {equality, always, never} merge functions; after each merge every single AddNode/DeleteNode/SetNodes(nil) at every position of the result. " +
			"Non-trivial = pairs with >=3 nodes in total / both lists non-empty; distinct by inputs.",
		Assumptions: []string{
			"for MergeNodes the two roots are identified with the result root (the call merges the children of two nodes of the same tag); paths are judged from the roots' children",
			"'represented by an equal node' uses Node.Equals in either direction",
			"quick tier skips list pairs with 6 elements in total",
		},
		Plan:   plan,
		Run:    run,
		Replay: replay,
		Required: func(string) []string {
			return []string{"nodes:same-tag", "nodes:different-tag", "nil", "slices:equality", "slices:always", "slices:never"}
		},
		Deadline: func(tier string) time.Duration {
			if tier == "thorough" {
				return 25 * time.Minute
			}
			return 8 * time.Minute
		},
	})
}
