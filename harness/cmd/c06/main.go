// C06 — date-range comparison returns the documented interval relation.
// Every ordered pair of day-resolution ranges inside day windows, and every
// pairing of day/month/year granularities, against the interval relation of
// the documentation drawing plus the algebraic laws.
package main

import (
	"encoding/json"
	"fmt"
	"strings"
	"time"

	"github.com/elliotchance/gedcom/v39"
	"verif/harness/ref"
	"verif/harness/vlib"
)

type rel = gedcom.DateRangeComparison

var converse = map[rel]rel{
	gedcom.DateRangeComparisonEqual:           gedcom.DateRangeComparisonEqual,
	gedcom.DateRangeComparisonInside:          gedcom.DateRangeComparisonOutside,
	gedcom.DateRangeComparisonOutside:         gedcom.DateRangeComparisonInside,
	gedcom.DateRangeComparisonInsideStart:     gedcom.DateRangeComparisonOutsideStart,
	gedcom.DateRangeComparisonOutsideStart:    gedcom.DateRangeComparisonInsideStart,
	gedcom.DateRangeComparisonInsideEnd:       gedcom.DateRangeComparisonOutsideEnd,
	gedcom.DateRangeComparisonOutsideEnd:      gedcom.DateRangeComparisonInsideEnd,
	gedcom.DateRangeComparisonPartiallyBefore: gedcom.DateRangeComparisonPartiallyAfter,
	gedcom.DateRangeComparisonPartiallyAfter:  gedcom.DateRangeComparisonPartiallyBefore,
	gedcom.DateRangeComparisonBefore:          gedcom.DateRangeComparisonAfter,
	gedcom.DateRangeComparisonAfter:           gedcom.DateRangeComparisonBefore,
	gedcom.DateRangeComparisonEntirelyBefore:  gedcom.DateRangeComparisonEntirelyAfter,
	gedcom.DateRangeComparisonEntirelyAfter:   gedcom.DateRangeComparisonEntirelyBefore,
}

// admissible returns the relations the documentation drawing allows for the
// receiver [a,b] against the argument [c,d] (day numbers).
func admissible(a, b, c, d int) []rel {
	var out []rel
	add := func(ok bool, r rel) {
		if ok {
			out = append(out, r)
		}
	}
	add(a == c && b == d, gedcom.DateRangeComparisonEqual)
	add(c < a && b < d, gedcom.DateRangeComparisonInside)
	add(a == c && b < d, gedcom.DateRangeComparisonInsideStart)
	add(c < a && b == d, gedcom.DateRangeComparisonInsideEnd)
	add(a < c && d < b, gedcom.DateRangeComparisonOutside)
	add(a == c && d < b, gedcom.DateRangeComparisonOutsideStart)
	add(a < c && b == d, gedcom.DateRangeComparisonOutsideEnd)
	add(a < c && c < b && b < d, gedcom.DateRangeComparisonPartiallyBefore)
	add(c < a && a < d && d < b, gedcom.DateRangeComparisonPartiallyAfter)
	add(a < c && b == c, gedcom.DateRangeComparisonBefore)
	add(a == d && d < b, gedcom.DateRangeComparisonAfter)
	add(b < c, gedcom.DateRangeComparisonEntirelyBefore)
	add(d < a, gedcom.DateRangeComparisonEntirelyAfter)
	return out
}

func in(r rel, set []rel) bool {
	for _, x := range set {
		if x == r {
			return true
		}
	}
	return false
}

// PDate is a (possibly partial) date.
type PDate struct{ Y, M, D int }

func (p PDate) first() int {
	switch {
	case p.D != 0:
		return ref.DayNumber(p.Y, p.M, p.D)
	case p.M != 0:
		return ref.DayNumber(p.Y, p.M, 1)
	}
	return ref.DayNumber(p.Y, 1, 1)
}
func (p PDate) last() int {
	switch {
	case p.D != 0:
		return ref.DayNumber(p.Y, p.M, p.D)
	case p.M != 0:
		return ref.DayNumber(p.Y, p.M, ref.DaysInMonth(p.Y, p.M))
	}
	return ref.DayNumber(p.Y, 12, 31)
}
func (p PDate) date() gedcom.Date { return gedcom.Date{Day: p.D, Month: time.Month(p.M), Year: p.Y} }
func (p PDate) String() string {
	var parts []string
	if p.D != 0 {
		parts = append(parts, fmt.Sprint(p.D))
	}
	if p.M != 0 {
		parts = append(parts, ref.MonthAbbr[p.M])
	}
	parts = append(parts, fmt.Sprint(p.Y))
	return strings.Join(parts, " ")
}

type Rng struct {
	S, E   PDate
	Parsed bool   `json:"parsed,omitempty"` // built through the string parser
	CS, CE string `json:"cs,omitempty"`     // constraint words written in front of the two ends (parsed only): the relation is one of intervals, the words must not matter
}

func (r Rng) lo() int { return r.S.first() }
func (r Rng) hi() int { return r.E.last() }
func (r Rng) build() gedcom.DateRange {
	if r.Parsed {
		return gedcom.NewDateRangeWithString("Bet. " + r.CS + r.S.String() + " and " + r.CE + r.E.String())
	}
	return gedcom.NewDateRange(r.S.date(), r.E.date())
}

type kase struct {
	X, Y Rng
}

func judgePair(x, y Rng) (sig, what string) {
	X, Y := x.build(), y.build()
	a, b, c, d := x.lo(), x.hi(), y.lo(), y.hi()
	var xy, yx, xx rel
	if p, msg, frame := vlib.Try(func() { xy, yx, xx = X.Compare(Y), Y.Compare(X), X.Compare(X) }); p {
		return "panic:" + frame + ":" + vlib.MsgClass(msg), msg
	}
	// the known root cause: a single-day argument makes the receiver's end point classify as its start
	degenerate := (c == d && b == c) || (a == b && d == a)
	tag := func(s string) string {
		if degenerate {
			return s + ":single-day-argument-end-classified-as-start"
		}
		return s
	}
	desc := fmt.Sprintf("x=[%s .. %s] (days %d..%d) y=[%s .. %s] (days %d..%d): x.Compare(y)=%v y.Compare(x)=%v", x.S, x.E, a, b, y.S, y.E, c, d, xy, yx)
	if xx != gedcom.DateRangeComparisonEqual {
		s := "self-comparison-not-equal"
		if a == b {
			s += ":single-day-argument-end-classified-as-start"
		}
		return s, fmt.Sprintf("x=[%s .. %s]: x.Compare(x)=%v", x.S, x.E, xx)
	}
	if xy == gedcom.DateRangeComparisonInvalid {
		return tag("invalid-for-forward-ranges"), desc
	}
	adm := admissible(a, b, c, d)
	if !in(xy, adm) {
		return tag("relation-wrong"), desc + fmt.Sprintf("; documented relation(s): %v", adm)
	}
	if converse[xy] != yx {
		return tag("converse-broken"), desc + fmt.Sprintf("; converse of %v is %v", xy, converse[xy])
	}
	n := 0
	for _, v := range []bool{xy.IsEqual(), xy.IsPartiallyEqual(), xy.IsNotEqual()} {
		if v {
			n++
		}
	}
	if n != 1 {
		return "simplified-verdicts-not-exactly-one", desc
	}
	// the simplified verdict agrees with the relation class
	wantEq := xy == gedcom.DateRangeComparisonEqual
	wantNot := xy == gedcom.DateRangeComparisonBefore || xy == gedcom.DateRangeComparisonAfter || xy == gedcom.DateRangeComparisonEntirelyBefore || xy == gedcom.DateRangeComparisonEntirelyAfter
	if xy.IsEqual() != wantEq || xy.IsNotEqual() != wantNot {
		return "simplified-verdict-wrong-class", desc
	}
	return "", ""
}

type window struct {
	Name  string
	Start PDate
	Days  int
}

func windows(tier string) []window {
	if tier == "thorough" {
		return []window{
			{"year-change", PDate{1999, 12, 1}, 64}, {"leap-year-end", PDate{2000, 12, 1}, 64}, {"leap-feb", PDate{2000, 1, 30}, 64}, {"nonleap-feb", PDate{1900, 1, 30}, 64},
			{"start-of-time", PDate{1, 1, 1}, 64}, {"end-of-time", PDate{9999, 10, 29}, 64}, {"mid-year", PDate{1943, 8, 1}, 64}, {"century-change", PDate{1899, 12, 1}, 64},
			{"julian-gap-1582", PDate{1582, 9, 20}, 64}, {"year-99-to-100", PDate{99, 12, 1}, 64},
		}
	}
	return []window{
		{"year-change", PDate{1999, 12, 20}, 24}, {"leap-year-end", PDate{2000, 12, 24}, 16}, {"leap-feb", PDate{2000, 2, 18}, 22}, {"nonleap-feb", PDate{1900, 2, 20}, 18},
		{"start-of-time", PDate{1, 1, 1}, 16}, {"end-of-time", PDate{9999, 12, 16}, 16},
	}
}

func windowRanges(w window) []Rng {
	base := w.Start.first()
	var out []Rng
	for i := 0; i < w.Days; i++ {
		for j := i; j < w.Days; j++ {
			y1, m1, d1 := ref.FromDayNumber(base + i)
			y2, m2, d2 := ref.FromDayNumber(base + j)
			out = append(out, Rng{S: PDate{y1, m1, d1}, E: PDate{y2, m2, d2}})
		}
	}
	return out
}

func granularityRanges() []Rng {
	dates := []PDate{
		{1999, 0, 0}, {2000, 0, 0}, {2001, 0, 0},
		{1999, 12, 0}, {2000, 1, 0}, {2000, 2, 0}, {2000, 3, 0}, {2000, 12, 0}, {2001, 1, 0},
		{1999, 12, 31}, {2000, 1, 1}, {2000, 1, 31}, {2000, 2, 1}, {2000, 2, 15}, {2000, 2, 28}, {2000, 2, 29}, {2000, 3, 1}, {2000, 12, 31}, {2001, 1, 1},
		// February of a century year that is not a leap year, at every granularity
		{1900, 0, 0}, {1900, 2, 0}, {1900, 3, 0}, {1900, 2, 28}, {1900, 3, 1},
	}
	var out []Rng
	for _, s := range dates {
		for _, e := range dates {
			if s.first() <= e.last() {
				out = append(out, Rng{S: s, E: e}, Rng{S: s, E: e, Parsed: true})
				if s.Y == 2000 && e.Y == 2000 && s.D == 0 && e.D == 0 {
					out = append(out, Rng{S: s, E: e, Parsed: true, CS: "Bef. ", CE: "Bef. "}, Rng{S: s, E: e, Parsed: true, CS: "Aft. ", CE: "Abt. "})
				}
			}
		}
	}
	return out
}

func gran(p PDate) string {
	switch {
	case p.D != 0:
		return "day"
	case p.M != 0:
		return "month"
	}
	return "year"
}

func run(tier, unit string, r *vlib.Rec) {
	name, lo, hi := vlib.ParseChunk(unit)
	var rs []Rng
	if name == "gran" {
		rs = granularityRanges()
	} else {
		for _, w := range windows(tier) {
			if w.Name == name {
				rs = windowRanges(w)
			}
		}
	}
	for i := lo; i < hi; i++ {
		x := rs[i]
		for _, y := range rs {
			r.Eval()
			a, b, c, d := x.lo(), x.hi(), y.lo(), y.hi()
			adm := admissible(a, b, c, d)
			for _, rl := range adm {
				r.Count("relation:" + rl.String())
			}
			if len(adm) > 1 {
				r.Count("two-admissible")
			}
			if name == "gran" {
				r.Count("gran:" + gran(x.S) + "-" + gran(x.E) + "/" + gran(y.S) + "-" + gran(y.E))
				if x.Parsed || y.Parsed {
					r.Count("parsed")
				}
			}
			if x.Parsed && !x.build().IsValid() {
				r.Fail("granularity-range-not-parsed", "range string not valid: "+x.S.String()+" .. "+x.E.String(), kase{x, y})
				continue
			}
			r.Nontrivial(fmt.Sprintf("%s|%v|%v", name, x, y))
			sig, what := judgePair(x, y)
			if sig != "" {
				r.Fail(sig, what, kase{x, y})
			} else if r.WantSample() && len(adm) == 1 && adm[0] == gedcom.DateRangeComparisonPartiallyBefore {
				r.Sample(map[string]interface{}{"x": x.S.String() + " .. " + x.E.String(), "y": y.S.String() + " .. " + y.E.String(), "x.Compare(y)": x.build().Compare(y.build()).String()})
			}
		}
	}
}

func plan(tier string) []string {
	var out []string
	for _, w := range windows(tier) {
		out = append(out, vlib.Chunks(w.Name, int64(len(windowRanges(w))), 20)...)
	}
	out = append(out, vlib.Chunks("gran", int64(len(granularityRanges())), 20)...)
	return out
}

func replay(c json.RawMessage) (string, string) {
	var k kase
	json.Unmarshal(c, &k)
	sig, what := judgePair(k.X, k.Y)
	return sig, what
}

func main() {
	vlib.Main(&vlib.Check{
		ID:    "C06",
		Level: "exploration",
		Rule: "cases: every ordered pair of ranges [a,b] x [c,d] (a<=b, c<=d, day resolution) inside each day window (year change, leap and non-leap February, first and last days of the supported range), and every ordered pair of ranges whose ends are drawn from 19 day/month/year dates around Feb 2000 (as Date structs and through the string parser). " +
			"Distinct = distinct (window, x, y); all are non-trivial (each ordered pair has its own endpoint ordering or calendar position).",
		Assumptions: []string{
			"orientation of the drawing fixed by TestDateRange_Compare: the receiver is the drawn 'Right' range, the argument is '|====|'",
			"for a single-day argument touching an end of a longer receiver two drawn relations hold ({Before,OutsideEnd} / {After,OutsideStart}); either is accepted and the converse law decides",
			"day numbers from own calendar arithmetic (ref/cal.go)",
		},
		Plan:   plan,
		Run:    run,
		Replay: replay,
		Required: func(string) []string {
			req := []string{"two-admissible", "parsed", "gran:year-year/day-day", "gran:month-day/year-month"}
			for r := range converse {
				req = append(req, "relation:"+r.String())
			}
			return req
		},
		Deadline: func(tier string) time.Duration {
			if tier == "thorough" {
				return 25 * time.Minute
			}
			return 6 * time.Minute
		},
		Bounds: func(tier string) interface{} { return windows(tier) },
	})
}
