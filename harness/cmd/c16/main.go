// C16 — query results equal what the Go API gives.
// All well-typed queries up to pipeline depth d from a typed grammar, rendered
// to text and evaluated by the real engine, are compared (JSON-normalised)
// with a reference interpreter that calls the gedcom Go API directly; plus
// algebraic equivalences and determinism.
package main

import (
	"encoding/json"
	"fmt"
	"reflect"
	"sort"
	"strconv"
	"strings"
	"time"

	"github.com/elliotchance/gedcom/v39"
	"github.com/elliotchance/gedcom/v39/q"
	"verif/harness/vlib"
)

// ---------- value types of the grammar ----------

type typ string

const (
	tDoc  typ = "Doc"
	tIndi typ = "Indi"
	tFam  typ = "Fam"
	tRole typ = "Role" // HusbandNode / WifeNode / ChildNode
	tName typ = "Name"
	tDate typ = "Date"
	tNode typ = "Node"
	tStr  typ = "string"
	tNum  typ = "number"
	tBool typ = "bool"
	tObj  typ = "object"
)

// a type is an element type plus a list nesting depth
type vt struct {
	E    typ
	List int
}

// list is the reference interpreter's list value
type list []interface{}

type accessor struct {
	Name string
	In   typ
	Out  vt
	Fn   func(v interface{}) interface{}
}

func indis(ns gedcom.IndividualNodes) list {
	l := list{}
	for _, n := range ns {
		l = append(l, n)
	}
	return l
}
func fams(ns gedcom.FamilyNodes) list {
	l := list{}
	for _, n := range ns {
		l = append(l, n)
	}
	return l
}
func nodes(ns gedcom.Nodes) list {
	l := list{}
	for _, n := range ns {
		l = append(l, n)
	}
	return l
}

var accessors = []accessor{
	{"Individuals", tDoc, vt{tIndi, 1}, func(v interface{}) interface{} { return indis(v.(*gedcom.Document).Individuals()) }},
	{"Families", tDoc, vt{tFam, 1}, func(v interface{}) interface{} { return fams(v.(*gedcom.Document).Families()) }},
	{"Nodes", tDoc, vt{tNode, 1}, func(v interface{}) interface{} { return nodes(v.(*gedcom.Document).Nodes()) }},

	{"Name", tIndi, vt{tName, 0}, func(v interface{}) interface{} { return v.(*gedcom.IndividualNode).Name() }},
	{"Names", tIndi, vt{tName, 1}, func(v interface{}) interface{} {
		l := list{}
		for _, n := range v.(*gedcom.IndividualNode).Names() {
			l = append(l, n)
		}
		return l
	}},
	{"String", tIndi, vt{tStr, 0}, func(v interface{}) interface{} { return v.(*gedcom.IndividualNode).String() }},
	{"Pointer", tIndi, vt{tStr, 0}, func(v interface{}) interface{} { return v.(*gedcom.IndividualNode).Pointer() }},
	{"IsLiving", tIndi, vt{tBool, 0}, func(v interface{}) interface{} { return v.(*gedcom.IndividualNode).IsLiving() }},
	{"Birth", tIndi, vt{tDate, 0}, func(v interface{}) interface{} { d, _ := v.(*gedcom.IndividualNode).Birth(); return d }},
	{"Death", tIndi, vt{tDate, 0}, func(v interface{}) interface{} { d, _ := v.(*gedcom.IndividualNode).Death(); return d }},
	// accessors with a second result that is NOT an "ok" flag: the date is valid also when the flag is false
	// (it then comes from a baptism / a burial)
	{"EstimatedBirthDate", tIndi, vt{tDate, 0}, func(v interface{}) interface{} {
		d, _ := v.(*gedcom.IndividualNode).EstimatedBirthDate()
		return d
	}},
	{"EstimatedDeathDate", tIndi, vt{tDate, 0}, func(v interface{}) interface{} {
		d, _ := v.(*gedcom.IndividualNode).EstimatedDeathDate()
		return d
	}},
	{"Spouses", tIndi, vt{tIndi, 1}, func(v interface{}) interface{} { return indis(v.(*gedcom.IndividualNode).Spouses()) }},
	{"Families", tIndi, vt{tFam, 1}, func(v interface{}) interface{} { return fams(v.(*gedcom.IndividualNode).Families()) }},
	{"Parents", tIndi, vt{tFam, 1}, func(v interface{}) interface{} { return fams(v.(*gedcom.IndividualNode).Parents()) }},
	{"Nodes", tIndi, vt{tNode, 1}, func(v interface{}) interface{} { return nodes(v.(*gedcom.IndividualNode).Nodes()) }},

	{"Husband", tFam, vt{tRole, 0}, func(v interface{}) interface{} { return v.(*gedcom.FamilyNode).Husband() }},
	{"Wife", tFam, vt{tRole, 0}, func(v interface{}) interface{} { return v.(*gedcom.FamilyNode).Wife() }},
	{"String", tFam, vt{tStr, 0}, func(v interface{}) interface{} { return v.(*gedcom.FamilyNode).String() }},
	{"Pointer", tFam, vt{tStr, 0}, func(v interface{}) interface{} { return v.(*gedcom.FamilyNode).Pointer() }},
	{"Children", tFam, vt{tRole, 1}, func(v interface{}) interface{} {
		l := list{}
		for _, c := range v.(*gedcom.FamilyNode).Children() {
			l = append(l, c)
		}
		return l
	}},

	{"String", tRole, vt{tStr, 0}, func(v interface{}) interface{} { return v.(fmt.Stringer).String() }},
	{"Individual", tRole, vt{tIndi, 0}, func(v interface{}) interface{} {
		return v.(interface{ Individual() *gedcom.IndividualNode }).Individual()
	}},

	{"String", tName, vt{tStr, 0}, func(v interface{}) interface{} { return v.(*gedcom.NameNode).String() }},
	{"GivenName", tName, vt{tStr, 0}, func(v interface{}) interface{} { return v.(*gedcom.NameNode).GivenName() }},
	{"Surname", tName, vt{tStr, 0}, func(v interface{}) interface{} { return v.(*gedcom.NameNode).Surname() }},

	{"String", tDate, vt{tStr, 0}, func(v interface{}) interface{} { return v.(*gedcom.DateNode).String() }},
	{"Years", tDate, vt{tNum, 0}, func(v interface{}) interface{} { return v.(*gedcom.DateNode).Years() }},
	{"IsValid", tDate, vt{tBool, 0}, func(v interface{}) interface{} { return v.(*gedcom.DateNode).IsValid() }},

	{"Value", tNode, vt{tStr, 0}, func(v interface{}) interface{} { return v.(gedcom.Node).Value() }},
	{"Pointer", tNode, vt{tStr, 0}, func(v interface{}) interface{} { return v.(gedcom.Node).Pointer() }},
	{"Nodes", tNode, vt{tNode, 1}, func(v interface{}) interface{} { return nodes(v.(gedcom.Node).Nodes()) }},
}

// ---------- program steps ----------

type step struct {
	Text string
	Out  func(in vt) (vt, bool)                                               // result type; ok=false when not applicable
	Ref  func(in interface{}, t vt, doc *gedcom.Document) (interface{}, bool) // reference evaluation; ok=false = outside the model (no demand)
}

func isNilValue(v interface{}) bool {
	if v == nil {
		return true
	}
	rv := reflect.ValueOf(v)
	return rv.Kind() == reflect.Ptr && rv.IsNil()
}

// mapList applies f to every scalar below the list structure.
func mapList(v interface{}, depth int, f func(interface{}) (interface{}, bool)) (interface{}, bool) {
	if depth == 0 {
		return f(v)
	}
	out := list{}
	for _, e := range v.(list) {
		r, ok := mapList(e, depth-1, f)
		if !ok {
			return nil, false
		}
		out = append(out, r)
	}
	return out, true
}

func accessorStep(a accessor) step {
	return step{
		Text: "." + a.Name,
		Out: func(in vt) (vt, bool) {
			if in.E != a.In {
				return vt{}, false
			}
			return vt{a.Out.E, in.List + a.Out.List}, true
		},
		Ref: func(in interface{}, t vt, doc *gedcom.Document) (interface{}, bool) {
			return mapList(in, t.List, func(v interface{}) (r interface{}, ok bool) {
				if v == nil {
					return nil, false
				}
				// a missing value (nil husband, nil name): the Go API call decides; if it panics nothing is demanded
				defer func() {
					if recover() != nil {
						r, ok = nil, false
					}
				}()
				return a.Fn(v), true
			})
		},
	}
}

func firstLast(name string, n int) step {
	return step{
		Text: fmt.Sprintf("%s(%d)", name, n),
		Out: func(in vt) (vt, bool) {
			if in.List != 1 {
				return vt{}, false
			}
			return in, true
		},
		Ref: func(in interface{}, t vt, doc *gedcom.Document) (interface{}, bool) {
			l := in.(list)
			k := n
			if k > len(l) {
				k = len(l)
			}
			if name == "First" {
				return append(list{}, l[:k]...), true
			}
			return append(list{}, l[len(l)-k:]...), true
		},
	}
}

var lengthStep = step{
	Text: "Length",
	Out: func(in vt) (vt, bool) {
		if in.List != 1 {
			return vt{}, false
		}
		return vt{tNum, 0}, true
	},
	Ref: func(in interface{}, t vt, doc *gedcom.Document) (interface{}, bool) { return len(in.(list)), true },
}

func tagPathStep(tags ...string) step {
	var qs []string
	for _, t := range tags {
		qs = append(qs, strconv.Quote(t))
	}
	return step{
		Text: "NodesWithTagPath(" + strings.Join(qs, ", ") + ")",
		Out: func(in vt) (vt, bool) {
			if (in.E != tIndi && in.E != tNode && in.E != tFam) || in.List != 1 {
				return vt{}, false
			}
			return vt{tNode, 1}, true
		},
		Ref: func(in interface{}, t vt, doc *gedcom.Document) (interface{}, bool) {
			var ts []gedcom.Tag
			for _, x := range tags {
				ts = append(ts, gedcom.TagFromString(x))
			}
			out := list{}
			for _, e := range in.(list) {
				out = append(out, nodes(gedcom.NodesWithTagPath(e.(gedcom.Node), ts...))...)
			}
			return out, true
		},
	}
}

// ---------- conditions (Only) ----------

type cond struct {
	Chain []accessor // accessor chain from the element to a string/number/bool
	Op    string
	Const string // as written (number token or quoted string)
}

func (c cond) text() string {
	var parts []string
	for _, a := range c.Chain {
		parts = append(parts, "."+a.Name)
	}
	return strings.Join(parts, " | ") + " " + c.Op + " " + c.Const
}

// documented comparison: numeric when both sides are numeric, else trimmed lower-case text
func compare(left interface{}, op, constant string) bool {
	ls := fmt.Sprintf("%v", left)
	if s, ok := left.(string); ok {
		ls = s
	}
	rs := constant
	if strings.HasPrefix(rs, `"`) {
		rs = rs[1 : len(rs)-1]
	}
	lf, e1 := strconv.ParseFloat(ls, 64)
	rf, e2 := strconv.ParseFloat(rs, 64)
	var lt, eq bool
	if e1 == nil && e2 == nil {
		lt, eq = lf < rf, lf == rf
	} else {
		a, b := strings.TrimSpace(strings.ToLower(ls)), strings.TrimSpace(strings.ToLower(rs))
		lt, eq = a < b, a == b
	}
	switch op {
	case "=":
		return eq
	case "!=":
		return !eq
	case "<":
		return lt
	case "<=":
		return lt || eq
	case ">":
		return !lt && !eq
	case ">=":
		return !lt
	}
	panic(op)
}

func onlyStep(c cond) step {
	return step{
		Text: "Only(" + c.text() + ")",
		Out: func(in vt) (vt, bool) {
			if in.List != 1 || in.E != c.Chain[0].In {
				return vt{}, false
			}
			return in, true
		},
		Ref: func(in interface{}, t vt, doc *gedcom.Document) (interface{}, bool) {
			out := list{}
			for _, e := range in.(list) {
				var v interface{} = e
				for _, a := range c.Chain {
					if isNilValue(v) {
						return nil, false
					}
					v = a.Fn(v)
				}
				if compare(v, c.Op, c.Const) {
					out = append(out, e)
				}
			}
			return out, true
		},
	}
}

func acc(in typ, name string) accessor {
	for _, a := range accessors {
		if a.In == in && a.Name == name {
			return a
		}
	}
	panic(name)
}

var ops = []string{"=", "!=", "<", "<=", ">", ">="}

func conditions() []cond {
	var out []cond
	chains := []struct {
		c      []accessor
		consts []string
	}{
		{[]accessor{acc(tIndi, "Pointer")}, []string{`"I1"`, `" i1 "`, `"10"`, `"9"`, `9`}},
		{[]accessor{acc(tIndi, "Name"), acc(tName, "GivenName")}, []string{`"ann"`, `" Ann "`, `"10"`, `9`, `""`}},
		{[]accessor{acc(tIndi, "Birth"), acc(tDate, "Years")}, []string{`1849`, `"1850.0027397260274"`, `"x"`}},
		{[]accessor{acc(tIndi, "IsLiving")}, []string{`"true"`, `"FALSE"`, `1`}},
		{[]accessor{acc(tFam, "Pointer")}, []string{`"F1"`, `"f2"`}},
		{[]accessor{acc(tNode, "Value")}, []string{`""`, `"10"`, `9`, `"Ann /Ash/"`}},
		{[]accessor{acc(tName, "Surname")}, []string{`"ASH"`, `"9"`}},
	}
	for _, ch := range chains {
		for _, k := range ch.consts {
			for _, op := range ops {
				out = append(out, cond{ch.c, op, k})
			}
		}
	}
	return out
}

// ---------- objects ----------

func objectStep(keys []string, chains [][]accessor) step {
	var parts []string
	for i, k := range keys {
		var cs []string
		for _, a := range chains[i] {
			cs = append(cs, "."+a.Name)
		}
		parts = append(parts, k+": "+strings.Join(cs, " | "))
	}
	return step{
		Text: "{ " + strings.Join(parts, ", ") + " }",
		Out: func(in vt) (vt, bool) {
			if in.List > 1 || in.E != chains[0][0].In {
				return vt{}, false
			}
			return vt{tObj, in.List}, true
		},
		Ref: func(in interface{}, t vt, doc *gedcom.Document) (interface{}, bool) {
			return mapList(in, t.List, func(v interface{}) (interface{}, bool) {
				m := map[string]interface{}{}
				for i, k := range keys {
					var x interface{} = v
					for _, a := range chains[i] {
						if isNilValue(x) {
							return nil, false
						}
						x = a.Fn(x)
					}
					m[k] = x
				}
				return m, true
			})
		},
	}
}

func allSteps() []step {
	var out []step
	for _, a := range accessors {
		if a.In != tDoc {
			out = append(out, accessorStep(a))
		}
	}
	for _, n := range []int{0, 1, 2, 3, 4} {
		out = append(out, firstLast("First", n), firstLast("Last", n))
	}
	out = append(out, lengthStep)
	for _, p := range [][]string{{"BIRT"}, {"BIRT", "DATE"}, {"NAME"}, {"NOPE"}, {"HUSB"}, {"_MYTAG"}, {"BIRT", "_MYTAG"}} {
		out = append(out, tagPathStep(p...))
	}
	for _, c := range conditions() {
		out = append(out, onlyStep(c))
	}
	out = append(out,
		objectStep([]string{"name"}, [][]accessor{{acc(tIndi, "Name"), acc(tName, "String")}}),
		objectStep([]string{"p", "born"}, [][]accessor{{acc(tIndi, "Pointer")}, {acc(tIndi, "Birth"), acc(tDate, "String")}}),
		objectStep([]string{"h"}, [][]accessor{{acc(tFam, "Husband"), acc(tRole, "String")}}),
	)
	return out
}

// ---------- programs ----------

type program struct {
	Start accessor
	Steps []int  // indices into allSteps()
	Form  string // plain | variable | shadow | unused | combine
}

func (p program) pipeline(steps []step) string {
	parts := []string{"." + p.Start.Name}
	for _, s := range p.Steps {
		parts = append(parts, steps[s].Text)
	}
	return strings.Join(parts, " | ")
}

func (p program) text(steps []step) string {
	pl := p.pipeline(steps)
	switch p.Form {
	case "variable": // the first step sits behind a variable
		head := "." + p.Start.Name
		rest := strings.TrimPrefix(pl, head)
		return "V is " + head + "; V" + rest
	case "two-variables": // a variable defined through another variable
		return "W is " + pl + "; V is W; V"
	case "unused":
		return "U is .Families | Length; " + pl
	case "combine":
		return "V is " + pl + "; Combine(V, V)"
	case "combine-length":
		return "V is " + pl + "; Combine(V, V) | Length"
	}
	return pl
}

func (p program) ref(steps []step, doc *gedcom.Document) (interface{}, vt, bool) {
	var v interface{} = p.Start.Fn(doc)
	t := p.Start.Out
	for _, si := range p.Steps {
		s := steps[si]
		nt, ok := s.Out(t)
		if !ok {
			panic("ill-typed program")
		}
		var rok bool
		v, rok = s.Ref(v, t, doc)
		if !rok {
			return nil, nt, false
		}
		t = nt
	}
	switch p.Form {
	case "combine":
		l := v.(list)
		return append(append(list{}, l...), l...), t, true
	case "combine-length":
		return 2 * len(v.(list)), vt{tNum, 0}, true
	}
	return v, t, true
}

// reducedStep: accessors, First(1)/Last(1)/First(2), Length, one tag path, one condition per accessor chain and operator family, one object.
func reducedStep(s step) bool {
	t := s.Text
	switch {
	case strings.HasPrefix(t, "."):
		return true
	case t == "First(1)" || t == "Last(1)" || t == "First(2)" || t == "Length" || t == `NodesWithTagPath("BIRT", "DATE")`:
		return true
	case strings.HasPrefix(t, "Only("):
		return strings.Contains(t, `.Pointer != "I1"`) || strings.Contains(t, `.Years > 1849`) || strings.Contains(t, `.Value = ""`) || strings.Contains(t, `.GivenName <= " Ann "`)
	case strings.HasPrefix(t, "{ name"):
		return true
	}
	return false
}

func programs(depth int) []program {
	steps := allSteps()
	var out []program
	var rec func(p program, t vt)
	rec = func(p program, t vt) {
		out = append(out, p)
		if len(p.Steps) == depth {
			return
		}
		for si, s := range steps {
			if len(p.Steps) >= 2 && !reducedStep(s) {
				continue // from the third step on: the reduced step alphabet
			}
			if nt, ok := s.Out(t); ok {
				if nt.List > 2 {
					continue
				}
				np := program{Start: p.Start, Steps: append(append([]int{}, p.Steps...), si), Form: "plain"}
				rec(np, nt)
			}
		}
	}
	for _, a := range accessors {
		if a.In == tDoc {
			rec(program{Start: a, Form: "plain"}, a.Out)
		}
	}
	// variable forms on every program of depth <= 2
	n := len(out)
	for i := 0; i < n; i++ {
		p := out[i]
		if len(p.Steps) > 2 {
			continue
		}
		for _, f := range []string{"variable", "two-variables", "unused"} {
			out = append(out, program{p.Start, p.Steps, f})
		}
		// Combine needs a list
		t := p.Start.Out
		ok := true
		for _, si := range p.Steps {
			t, ok = steps[si].Out(t)
		}
		if ok && t.List == 1 {
			out = append(out, program{p.Start, p.Steps, "combine"}, program{p.Start, p.Steps, "combine-length"})
		}
	}
	return out
}

// ---------- documents ----------

var docTexts = map[string]string{
	"empty": "",
	"one":   "0 @I1@ INDI\n1 NAME Ann /Ash/\n1 BIRT\n2 DATE 1 Jan 1850\n",
	"family": "0 @I1@ INDI\n1 NAME Ann /Ash/\n1 SEX F\n1 BIRT\n2 DATE 1 Jan 1850\n2 PLAC Oldtown\n2 _MYTAG below birth\n1 DEAT\n2 DATE 5 May 1900\n1 _MYTAG user defined\n1 FAMS @F1@\n" +
		"0 @I2@ INDI\n1 NAME Bob /Birch/\n1 NAME Robert /Birch/\n1 SEX M\n1 BIRT\n2 DATE 2 Feb 1848\n1 DEAT Y\n1 FAMS @F1@\n" +
		"0 @I3@ INDI\n1 NAME Cy /Birch/\n1 BIRT\n2 DATE 3 Mar 1875\n1 DEAT\n2 DATE 1950\n1 FAMC @F1@\n0 @F1@ FAM\n1 HUSB @I2@\n1 WIFE @I1@\n1 CHIL @I3@\n",
	"shared-spouse": "0 @I1@ INDI\n1 NAME Ann /Ash/\n1 BIRT\n2 DATE 1 Jan 1850\n1 DEAT Y\n1 FAMS @F1@\n0 @I2@ INDI\n1 NAME Bob /Birch/\n1 BIRT\n2 DATE 2 Feb 1848\n1 DEAT Y\n1 FAMS @F1@\n1 FAMS @F2@\n" +
		"0 @I3@ INDI\n1 NAME Di /Dale/\n1 BAPM\n2 DATE 7 Jul 1807\n1 DEAT Y\n1 BURI\n2 DATE 8 Aug 1888\n1 FAMS @F2@\n0 @F1@ FAM\n1 HUSB @I2@\n1 WIFE @I1@\n0 @F2@ FAM\n1 HUSB @I2@\n1 WIFE @I3@\n",
	"numeric-names": "0 @I1@ INDI\n1 NAME 10 /9/\n1 DEAT Y\n0 @I2@ INDI\n1 NAME 9 /10/\n1 DEAT Y\n0 @I3@ INDI\n1 NAME  ann  /ASH/\n1 DEAT Y\n0 @I4@ INDI\n1 DEAT Y\n0 @F1@ FAM\n1 WIFE @I3@\n0 @F2@ FAM\n",
}
var docNames = []string{"empty", "one", "family", "shared-spouse", "numeric-names", "three-families"}

func init() {
	docTexts["three-families"] = "0 @I1@ INDI\n1 NAME Ann /Ash/\n1 DEAT Y\n0 @I2@ INDI\n1 NAME Bob /Birch/\n1 DEAT Y\n0 @F1@ FAM\n1 HUSB @I2@\n1 WIFE @I1@\n0 @F2@ FAM\n1 HUSB @I2@\n0 @F3@ FAM\n1 WIFE @I1@\n"
}

func decode(name string) *gedcom.Document {
	d, err := gedcom.NewDocumentFromString(docTexts[name])
	if err != nil {
		panic(err)
	}
	return d
}

// ---------- judging ----------

func normalise(v interface{}) (interface{}, error) {
	b, err := json.Marshal(toJSONable(v))
	if err != nil {
		return nil, err
	}
	var out interface{}
	if err := json.Unmarshal(b, &out); err != nil {
		return nil, err
	}
	// an empty or nil list and null are the same "nothing" for a typed-nil slice result
	return out, nil
}

func toJSONable(v interface{}) interface{} {
	switch x := v.(type) {
	case list:
		out := make([]interface{}, 0, len(x))
		for _, e := range x {
			out = append(out, toJSONable(e))
		}
		return out
	case map[string]interface{}:
		m := map[string]interface{}{}
		for k, e := range x {
			m[k] = toJSONable(e)
		}
		return m
	}
	return v
}

// sameJSON is deep equality in which null and an empty list are the same "nothing" at every level.
func sameJSON(a, b interface{}) bool {
	if emptyish(a) && emptyish(b) {
		return true
	}
	switch x := a.(type) {
	case []interface{}:
		y, ok := b.([]interface{})
		if !ok || len(x) != len(y) {
			return false
		}
		for i := range x {
			if !sameJSON(x[i], y[i]) {
				return false
			}
		}
		return true
	case map[string]interface{}:
		y, ok := b.(map[string]interface{})
		if !ok || len(x) != len(y) {
			return false
		}
		for k := range x {
			if !sameJSON(x[k], y[k]) {
				return false
			}
		}
		return true
	}
	return reflect.DeepEqual(a, b)
}

func emptyish(v interface{}) bool {
	if v == nil {
		return true
	}
	if l, ok := v.([]interface{}); ok {
		for _, e := range l {
			if !emptyish(e) {
				return false
			}
		}
		return true
	}
	return false
}

type kase struct {
	Query string `json:"query"`
	Doc   string `json:"doc"`
	Prog  int    `json:"program"`
	Depth int    `json:"depth"`
}

var lastDoc *gedcom.Document

func evalEngine(query, doc string) (interface{}, error, string) {
	var v interface{}
	var err error
	lastDoc = decode(doc)
	p, msg, _ := vlib.Try(func() {
		var eng *q.Engine
		eng, err = q.NewParser().ParseString(query)
		if err == nil {
			v, err = eng.Evaluate([]*gedcom.Document{lastDoc})
		}
	})
	if p {
		return nil, nil, msg
	}
	return v, err, ""
}

// docState: what the document looks like through the API.
func docState(d *gedcom.Document) string {
	var sb strings.Builder
	for _, i := range d.Individuals() {
		sb.WriteString("I:" + i.Pointer() + " ")
	}
	for _, f := range d.Families() {
		sb.WriteString("F:" + f.Pointer() + " ")
	}
	for _, n := range d.Nodes() {
		sb.WriteString("N:" + n.Pointer() + " ")
	}
	return sb.String() + "\n" + d.String()
}

func judge(p program, steps []step, doc string) (sig, what, outcome string) {
	query := p.text(steps)
	want, _, defined := p.ref(steps, decode(doc))
	got, err, pmsg := evalEngine(query, doc)
	switch {
	case pmsg != "":
		return "", "", "engine-panic" // C15
	case err != nil:
		if defined {
			// the reference defines a value but the engine reports an error: only a demand when the program
			// stays inside the documented core (no nested lists, no nil elements)
			if simple(p, steps) {
				if nilListThroughFirstLast(p, steps, doc) {
					return "nil-list-becomes-nothing-after-First/Last", fmt.Sprintf("%q on %s: engine error %q, the Go API gives %s", query, doc, firstLine(err.Error()), js(want)), "viol"
				}
				return "engine-error-on-defined-query:" + kindOfLast(p, steps), fmt.Sprintf("%q on %s: engine error %q, the Go API gives %s", query, doc, firstLine(err.Error()), js(want)), "viol"
			}
		}
		return "", "", "engine-error"
	case !defined:
		return "", "", "reference-undefined"
	}
	g, e1 := normalise(got)
	w, e2 := normalise(want)
	if e1 != nil || e2 != nil {
		return "", "", "not-json"
	}
	if !sameJSON(g, w) {
		if nilListThroughFirstLast(p, steps, doc) {
			return "nil-list-becomes-nothing-after-First/Last", fmt.Sprintf("%q on %s:\n engine: %s\n Go API: %s", query, doc, js(g), js(w)), "viol"
		}
		return "result-differs:" + kindOfLast(p, steps) + formSuffix(p), fmt.Sprintf("%q on %s:\n engine: %s\n Go API: %s", query, doc, js(g), js(w)), "viol"
	}
	// a query only reads: the document the engine worked on must look like a fresh one afterwards
	if st, fresh := docState(lastDoc), docState(decode(doc)); st != fresh {
		return "query-modifies-document:" + kindOfLast(p, steps) + formSuffix(p), fmt.Sprintf("%q on %s leaves the document as\n%s\ninstead of\n%s", query, doc, st, fresh), "viol"
	}
	// determinism: a second evaluation on a fresh engine and document
	got2, err2, _ := evalEngine(query, doc)
	g2, _ := normalise(got2)
	if err2 != nil || !sameJSON(g, g2) {
		return "not-deterministic", fmt.Sprintf("%q on %s gives %s, then %s", query, doc, js(g), js(g2)), "viol"
	}
	return "", "", "agree"
}

// nilListThroughFirstLast: the known quirk (pinned by the repository's own
// tests) that First/Last turn a nil list - only an empty document's .Nodes is
// one - into "nothing", which Length counts as 1 and Combine cannot take.
func nilListThroughFirstLast(p program, steps []step, doc string) bool {
	// a NIL list enters a First/Last step: the value of the pipeline in front of that step, as the real
	// engine computes it, is a nil slice (an empty but non-nil list is handled correctly and gives no
	// finding; a wrong answer for it is NOT this known finding)
	for i, si := range p.Steps {
		s := steps[si]
		if !(strings.HasPrefix(s.Text, "First(") || strings.HasPrefix(s.Text, "Last(")) {
			continue
		}
		prefix := program{Start: p.Start, Steps: p.Steps[:i], Form: "plain"}
		v, err, pmsg := evalEngine(prefix.text(steps), doc)
		if err != nil || pmsg != "" {
			return false
		}
		if v == nil {
			return true
		}
		if rv := reflect.ValueOf(v); rv.Kind() == reflect.Slice && rv.IsNil() {
			return true
		}
		// this First/Last got a real list: look at the next one
	}
	return false
}

func formSuffix(p program) string {
	if p.Form != "plain" {
		return ":" + p.Form
	}
	return ""
}

// simple: no nested lists anywhere in the program
func simple(p program, steps []step) bool {
	t := p.Start.Out
	for _, si := range p.Steps {
		t, _ = steps[si].Out(t)
		if t.List > 1 {
			return false
		}
	}
	return true
}

func kindOfLast(p program, steps []step) string {
	if len(p.Steps) == 0 {
		return "accessor"
	}
	t := steps[p.Steps[len(p.Steps)-1]].Text
	switch {
	case strings.HasPrefix(t, "."):
		return "accessor"
	case strings.HasPrefix(t, "Only"):
		for _, op := range []string{"!=", "<=", ">=", "=", "<", ">"} {
			if strings.Contains(t, " "+op+" ") {
				return "only" + op
			}
		}
		return "only"
	case strings.HasPrefix(t, "{"):
		return "object"
	}
	return t[:strings.IndexAny(t+"(", "(")]
}

func js(v interface{}) string {
	b, _ := json.Marshal(toJSONable(v))
	s := string(b)
	if len(s) > 500 {
		s = s[:500] + "..."
	}
	return s
}

func firstLine(s string) string {
	if i := strings.Index(s, "\n"); i >= 0 {
		return s[:i]
	}
	return s
}

func depth(tier string) int {
	if tier == "thorough" {
		return 4
	}
	return 3
}

var progCache = map[int][]program{}

func progs(d int) []program {
	if p, ok := progCache[d]; ok {
		return p
	}
	progCache[d] = programs(d)
	return progCache[d]
}

func run(tier, unit string, r *vlib.Rec) {
	uname, lo, hi := vlib.ParseChunk(unit)
	if uname == "compare" {
		runCompare(r, lo, hi)
		return
	}
	if uname == "pervar" {
		runPV(r, lo, hi)
		return
	}
	if uname == "pervaredit" {
		runPVEdit(r, lo, hi)
		return
	}
	steps := allSteps()
	ps := progs(depth(tier))
	for i := lo; i < hi; i++ {
		p := ps[i]
		r.Count("form:" + p.Form)
		r.Count("last:" + kindOfLast(p, steps))
		for _, doc := range docNames {
			r.Eval()
			sig, what, outcome := judge(p, steps, doc)
			r.Count("outcome:" + outcome)
			if outcome == "agree" && len(p.Steps) >= 1 {
				r.Nontrivial(p.text(steps) + "|" + doc)
				if r.WantSample() && len(p.Steps) == depth(tier) && doc == "family" {
					r.Sample(map[string]string{"query": p.text(steps), "doc": doc})
				}
			}
			if sig != "" {
				r.Fail(sig, what, kase{Query: p.text(steps), Doc: doc, Prog: int(i), Depth: depth(tier)})
			}
		}
	}
}

func plan(tier string) []string {
	out := vlib.Chunks("programs", int64(len(progs(depth(tier)))), 400)
	out = append(out, vlib.Chunks("pervar", int64(len(pvPrograms())), 4)...)
	out = append(out, vlib.Chunks("pervaredit", int64(len(pvPrograms())), 4)...)
	return append(out, vlib.Chunks("compare", int64(len(cmpCases())), 40)...)
}

func replay(c json.RawMessage) (string, string) {
	var k kase
	json.Unmarshal(c, &k)
	if k.Depth == -2 {
		return judgePV(k.Prog, strings.Split(k.Doc, ","))
	}
	if k.Depth == -3 {
		p := strings.Split(k.Doc, ",")
		e1, _ := strconv.Atoi(p[1])
		e2, _ := strconv.Atoi(p[2])
		return judgePVEdit(k.Prog, p[0], e1, e2)
	}
	if k.Depth == -1 {
		cs := cmpCases()
		if k.Prog >= len(cs) || cs[k.Prog].query() != k.Query {
			return "", "case index does not match the query text"
		}
		return judgeCompare(cs[k.Prog])
	}
	steps := allSteps()
	ps := progs(k.Depth)
	if k.Prog >= len(ps) || ps[k.Prog].text(steps) != k.Query {
		return "", "program index does not match the query text (grammar changed)"
	}
	sig, what, outcome := judge(ps[k.Prog], steps, k.Doc)
	return sig, outcome + " " + what
}

var _ = sort.Strings

func main() {
	vlib.Main(&vlib.Check{
		ID:    "C16",
		Level: "translation_validation",
		Rule: "programs: every well-typed query of pipeline depth <=d (3 quick, 4 thorough) from a typed grammar over {Doc, Indi, Fam, role nodes, Name, Date, Node, string, number, bool, object} x list nesting: 36 accessors from a hand-written signature table, First/Last(0..4), Length, NodesWithTagPath (7 tag paths incl. a user-defined tag), Only over 7 accessor chains x 6 operators x numeric/text/mixed constants, 3 object constructions; plus variable forms (definition, a variable defined through another variable, unused definition) and Combine(V,V) / Combine(V,V)|Length on every program of depth <=2; plus variables evaluated per item (in Only conditions and object fields, through a second variable) and one parsed engine evaluated on every ordered pair/triple of documents (30 hand-written programs with Go closures as reference); plus the comparison table: every operator x every constant of a 43-operand set (signed, leading dot/zero/plus, exponent, numeric-looking text, both cases, empty; quoted and as number token) against all 43 operands as values; each rendered to text and evaluated by the real engine on 6 documents, and by the reference interpreter (Go closures calling the gedcom API directly: map over lists in order, prefix/suffix, len, order-preserving filter with the documented comparison rule, concatenation, gedcom.NodesWithTagPath, substitution for variables). " +
			"Non-trivial = (program with >=1 step, document) pairs where both sides produce a value and agree; distinct by (query text, document).",
		Assumptions: []string{
			"results are compared after JSON normalisation (what the json formatter prints); an empty list and null are the same 'nothing'",
			"accessors applied to a missing value (nil husband, nil name) and programs whose engine evaluation errors on nested lists are outside the documented semantics: counted, not judged; an engine error on a query without nested lists and nil elements is a violation",
			"comparison rule in the reference: numeric when both sides parse as numbers, else trimmed lower-case text",
		},
		Plan:   plan,
		Run:    run,
		Replay: replay,
		Required: func(string) []string {
			return []string{"outcome:agree", "form:plain", "form:variable", "form:two-variables", "form:unused", "form:combine", "form:combine-length", "last:First", "last:Last", "last:Length", "last:NodesWithTagPath", "last:only=", "last:only!=", "last:only<", "last:only>", "last:only<=", "last:only>=", "last:object", "last:accessor", "variables-per-item", "same-document-reuse"}
		},
		Deadline: func(tier string) time.Duration {
			if tier == "thorough" {
				return 25 * time.Minute
			}
			return 10 * time.Minute
		},
		Finish: func(tier string, cov map[string]interface{}, c map[string]int64) {
			cov["programs"] = c["form:plain"] + c["form:variable"] + c["form:two-variables"] + c["form:unused"] + c["form:combine"] + c["form:combine-length"]
			cov["disagreements_checked"] = cov["evaluations"]
		},
	})
}
