package main

// Variables are statements: a reference evaluates the variable's statement on the value it is
// given - inside Only(...) and inside object fields that is the current ITEM, and an Engine that
// is evaluated again (on another document) starts from nothing. Hand-written programs with Go
// closures as reference; every program is evaluated on every document, and by ONE parsed engine on
// every ordered pair and triple of documents.

import (
	"fmt"
	"reflect"
	"strings"

	"github.com/elliotchance/gedcom/v39"
	"github.com/elliotchance/gedcom/v39/q"
	"verif/harness/vlib"
)

type pvProgram struct {
	Text string
	Ref  func(d *gedcom.Document) interface{}
}

func pvPrograms() []pvProgram {
	var out []pvProgram
	ptrsIf := func(d *gedcom.Document, f func(i *gedcom.IndividualNode) bool) interface{} {
		l := []interface{}{}
		for _, i := range d.Individuals() {
			if f(i) {
				l = append(l, i.Pointer())
			}
		}
		return l
	}
	for k := 0; k <= 8; k++ {
		k := k
		out = append(out, pvProgram{fmt.Sprintf("N is .Nodes | Length; .Individuals | Only(N > %d) | .Pointer", k),
			func(d *gedcom.Document) interface{} {
				return ptrsIf(d, func(i *gedcom.IndividualNode) bool { return len(i.Nodes()) > k })
			}})
		out = append(out, pvProgram{fmt.Sprintf("N is .Nodes | Length; M is N; .Individuals | Only(M = %d) | .Pointer", k),
			func(d *gedcom.Document) interface{} {
				return ptrsIf(d, func(i *gedcom.IndividualNode) bool { return len(i.Nodes()) == k })
			}})
	}
	// (every statement is also evaluated on the Document first, so a definition has to be something
	// a Document answers as well: .Nodes does, .Pointer does not)
	out = append(out, pvProgram{"N is .Nodes | Length; .Individuals | { p: .Pointer, n: N }",
		func(d *gedcom.Document) interface{} {
			l := []interface{}{}
			for _, i := range d.Individuals() {
				l = append(l, map[string]interface{}{"p": i.Pointer(), "n": len(i.Nodes())})
			}
			return l
		}})
	out = append(out, pvProgram{"N is .Nodes | Length; M is N; .Families | { f: .Pointer, n: M }",
		func(d *gedcom.Document) interface{} {
			l := []interface{}{}
			for _, f := range d.Families() {
				l = append(l, map[string]interface{}{"f": f.Pointer(), "n": len(f.Nodes())})
			}
			return l
		}})
	out = append(out, pvProgram{"V is .Nodes | .Value; .Individuals | { v: V }",
		func(d *gedcom.Document) interface{} {
			l := []interface{}{}
			for _, i := range d.Individuals() {
				vs := []interface{}{}
				for _, n := range i.Nodes() {
					vs = append(vs, n.Value())
				}
				l = append(l, map[string]interface{}{"v": vs})
			}
			return l
		}})
	// the DocumentN variables are the documents of THIS evaluation
	out = append(out, pvProgram{"Document1 | .Individuals | .Pointer",
		func(d *gedcom.Document) interface{} { return ptrsIf(d, func(*gedcom.IndividualNode) bool { return true }) }})
	out = append(out, pvProgram{"D is Document1; D | .Families | Length",
		func(d *gedcom.Document) interface{} { return len(d.Families()) }})
	out = append(out, pvProgram{"Document1 | .Individuals | Only(.Pointer != \"I1\") | Length",
		func(d *gedcom.Document) interface{} {
			return len(ptrsIf(d, func(i *gedcom.IndividualNode) bool { return i.Pointer() != "I1" }).([]interface{}))
		}})
	out = append(out, pvProgram{"All is .Individuals | .Pointer; All",
		func(d *gedcom.Document) interface{} {
			return ptrsIf(d, func(*gedcom.IndividualNode) bool { return true })
		}})
	out = append(out, pvProgram{"Count is .Individuals | Length; Count",
		func(d *gedcom.Document) interface{} { return len(d.Individuals()) }})
	return out
}

var pvDocs = []string{"one", "family", "shared-spouse", "numeric-names", "three-families"}

// pvSequences: every document alone, every ordered pair and every ordered triple of three of them
func pvSequences() [][]string {
	var out [][]string
	for _, a := range pvDocs {
		out = append(out, []string{a})
		for _, b := range pvDocs {
			out = append(out, []string{a, b})
		}
	}
	three := []string{"one", "family", "numeric-names"}
	for _, a := range three {
		for _, b := range three {
			for _, c := range three {
				out = append(out, []string{a, b, c})
			}
		}
	}
	return out
}

// judgePV: one program, one parsed engine, evaluated on the documents of seq in turn.
func judgePV(pi int, seq []string) (sig, what string) {
	p := pvPrograms()[pi]
	var eng *q.Engine
	var err error
	if pn, msg, _ := vlib.Try(func() { eng, err = q.NewParser().ParseString(p.Text) }); pn || err != nil {
		return "engine-error-on-defined-query:variables", fmt.Sprintf("%q does not parse: %v %s", p.Text, err, msg)
	}
	for step, dn := range seq {
		doc := decode(dn)
		var got interface{}
		if pn, msg, _ := vlib.Try(func() { got, err = eng.Evaluate([]*gedcom.Document{doc}) }); pn {
			return "", "engine panic (C15): " + msg
		}
		if err != nil {
			return "engine-error-on-defined-query:variables", fmt.Sprintf("%q on %s (use %d of one engine on %v): %v", p.Text, dn, step+1, seq, err)
		}
		g, e1 := normalise(got)
		w, e2 := normalise(p.Ref(decode(dn)))
		if e1 != nil || e2 != nil {
			return "", "not json"
		}
		if !sameJSON(g, w) {
			s := "result-differs:variable-per-item"
			if step > 0 {
				s = "result-differs:engine-reused-on-another-document"
			}
			return s, fmt.Sprintf("%q on %s (use %d of one engine on %v):\n engine: %s\n Go API: %s", p.Text, dn, step+1, seq, js(g), js(w))
		}
	}
	return "", ""
}

func runPV(r *vlib.Rec, lo, hi int64) {
	seqs := pvSequences()
	for pi := lo; pi < hi; pi++ {
		for _, seq := range seqs {
			r.Eval()
			r.Count("variables-per-item")
			k := kase{Query: pvPrograms()[pi].Text, Doc: strings.Join(seq, ","), Prog: int(pi), Depth: -2}
			r.Enter(k)
			sig, what := judgePV(int(pi), seq)
			r.Nontrivial("pv|" + k.Query + "|" + k.Doc)
			if sig != "" {
				r.Fail(sig, what, k)
			}
		}
	}
}

// ---- the same engine on the same document object, edited in between ----

type pvEdit struct {
	Name string
	Do   func(d *gedcom.Document)
}

var pvEdits = []pvEdit{
	{"nothing", func(d *gedcom.Document) {}},
	{"AddIndividual", func(d *gedcom.Document) { d.AddIndividual("I99", gedcom.NewNameNode("Zed /Zulu/")) }},
	{"DeleteNode(first individual)", func(d *gedcom.Document) {
		if is := d.Individuals(); len(is) > 0 {
			d.DeleteNode(is[0])
		}
	}},
	{"first individual AddName", func(d *gedcom.Document) {
		if is := d.Individuals(); len(is) > 0 {
			is[0].AddName("Zed /Zulu/")
		}
	}},
	{"last individual DeleteNode(first child)", func(d *gedcom.Document) {
		if is := d.Individuals(); len(is) > 0 && len(is[len(is)-1].Nodes()) > 0 {
			i := is[len(is)-1]
			i.DeleteNode(i.Nodes()[0])
		}
	}},
	{"AddFamily", func(d *gedcom.Document) { d.AddFamily("F99") }},
}

// spoil overwrites what the caller was handed (a caller may do with a result what it likes).
func spoil(v interface{}) {
	defer func() { recover() }()
	rv := reflect.ValueOf(v)
	if rv.Kind() == reflect.Slice && rv.Len() > 0 && rv.Index(0).CanSet() {
		rv.Index(0).Set(reflect.Zero(rv.Index(0).Type()))
	}
	if rv.Kind() == reflect.Map {
		for _, k := range rv.MapKeys() {
			rv.SetMapIndex(k, reflect.Value{})
		}
	}
}

// judgePVEdit: parse once; evaluate on a document; spoil the returned value; edit the document through the
// API; evaluate again with the same engine on the same document object. Every answer must be what the Go API
// says about a fresh decode of the document's text at that moment (and what a newly parsed engine says).
func judgePVEdit(pi int, dn string, e1, e2 int) (sig, what string) {
	p := pvPrograms()[pi]
	var eng *q.Engine
	var err error
	if pn, msg, _ := vlib.Try(func() { eng, err = q.NewParser().ParseString(p.Text) }); pn || err != nil {
		return "engine-error-on-defined-query:variables", fmt.Sprintf("%q does not parse: %v %s", p.Text, err, msg)
	}
	doc := decode(dn)
	history := "evaluate"
	for step, e := range []int{-1, e1, e2} {
		if e >= 0 {
			pvEdits[e].Do(doc)
			history += ", " + pvEdits[e].Name + ", evaluate"
		}
		var got interface{}
		if pn, msg, _ := vlib.Try(func() { got, err = eng.Evaluate([]*gedcom.Document{doc}) }); pn {
			return "", "engine panic (C15): " + msg
		}
		if err != nil {
			return "engine-error-on-defined-query:variables", fmt.Sprintf("%q on %s (%s): %v", p.Text, dn, history, err)
		}
		g, e1 := normalise(got)
		fresh, derr := gedcom.NewDocumentFromString(doc.String())
		if derr != nil {
			return "", "text not decodable"
		}
		w, e2 := normalise(p.Ref(fresh))
		if e1 != nil || e2 != nil {
			return "", "not json"
		}
		if !sameJSON(g, w) {
			s := "result-differs:variable-per-item"
			if step > 0 {
				s = "result-differs:engine-reused-on-the-same-document"
			}
			return s, fmt.Sprintf("%q on %s, one engine, one document object (%s; every returned value overwritten by the caller):\n engine: %s\n Go API on a fresh decode of the document's text: %s", p.Text, dn, history, js(g), js(w))
		}
		spoil(got)
	}
	return "", ""
}

func runPVEdit(r *vlib.Rec, lo, hi int64) {
	for pi := lo; pi < hi; pi++ {
		for _, dn := range pvDocs {
			for e1 := range pvEdits {
				for e2 := range pvEdits {
					r.Eval()
					r.Count("same-document-reuse")
					k := kase{Query: pvPrograms()[pi].Text, Doc: fmt.Sprintf("%s,%d,%d", dn, e1, e2), Prog: int(pi), Depth: -3}
					r.Enter(k)
					sig, what := judgePVEdit(int(pi), dn, e1, e2)
					r.Nontrivial("pve|" + k.Query + "|" + k.Doc)
					if sig != "" {
						r.Fail(sig, what, k)
					}
				}
			}
		}
	}
}
