package main

// Variables are statements: a reference evaluates the variable's statement on the value it is
// given - inside Only(...) and inside object fields that is the current ITEM, and an Engine that
// is evaluated again (on another document) starts from nothing. Hand-written programs with Go
// closures as reference; every program is evaluated on every document, and by ONE parsed engine on
// every ordered pair and triple of documents.

import (
	"fmt"
	"strings"

	"github.com/elliotchance/gedcom/v39"
	"github.com/elliotchance/gedcom/v39/q"
	"verif/harness/vlib"
)

type pvProgram struct {
	Text string
	Ref  func(d *gedcom.Document) interface{}
}

func pvPrograms() []pvProgram {
	var out []pvProgram
	ptrsIf := func(d *gedcom.Document, f func(i *gedcom.IndividualNode) bool) interface{} {
		l := []interface{}{}
		for _, i := range d.Individuals() {
			if f(i) {
				l = append(l, i.Pointer())
			}
		}
		return l
	}
	for k := 0; k <= 8; k++ {
		k := k
		out = append(out, pvProgram{fmt.Sprintf("N is .Nodes | Length; .Individuals | Only(N > %d) | .Pointer", k),
			func(d *gedcom.Document) interface{} {
				return ptrsIf(d, func(i *gedcom.IndividualNode) bool { return len(i.Nodes()) > k })
			}})
		out = append(out, pvProgram{fmt.Sprintf("N is .Nodes | Length; M is N; .Individuals | Only(M = %d) | .Pointer", k),
			func(d *gedcom.Document) interface{} {
				return ptrsIf(d, func(i *gedcom.IndividualNode) bool { return len(i.Nodes()) == k })
			}})
	}
	// (every statement is also evaluated on the Document first, so a definition has to be something
	// a Document answers as well: .Nodes does, .Pointer does not)
	out = append(out, pvProgram{"N is .Nodes | Length; .Individuals | { p: .Pointer, n: N }",
		func(d *gedcom.Document) interface{} {
			l := []interface{}{}
			for _, i := range d.Individuals() {
				l = append(l, map[string]interface{}{"p": i.Pointer(), "n": len(i.Nodes())})
			}
			return l
		}})
	out = append(out, pvProgram{"N is .Nodes | Length; M is N; .Families | { f: .Pointer, n: M }",
		func(d *gedcom.Document) interface{} {
			l := []interface{}{}
			for _, f := range d.Families() {
				l = append(l, map[string]interface{}{"f": f.Pointer(), "n": len(f.Nodes())})
			}
			return l
		}})
	out = append(out, pvProgram{"V is .Nodes | .Value; .Individuals | { v: V }",
		func(d *gedcom.Document) interface{} {
			l := []interface{}{}
			for _, i := range d.Individuals() {
				vs := []interface{}{}
				for _, n := range i.Nodes() {
					vs = append(vs, n.Value())
				}
				l = append(l, map[string]interface{}{"v": vs})
			}
			return l
		}})
	// the DocumentN variables are the documents of THIS evaluation
	out = append(out, pvProgram{"Document1 | .Individuals | .Pointer",
		func(d *gedcom.Document) interface{} { return ptrsIf(d, func(*gedcom.IndividualNode) bool { return true }) }})
	out = append(out, pvProgram{"D is Document1; D | .Families | Length",
		func(d *gedcom.Document) interface{} { return len(d.Families()) }})
	out = append(out, pvProgram{"Document1 | .Individuals | Only(.Pointer != \"I1\") | Length",
		func(d *gedcom.Document) interface{} {
			return len(ptrsIf(d, func(i *gedcom.IndividualNode) bool { return i.Pointer() != "I1" }).([]interface{}))
		}})
	out = append(out, pvProgram{"All is .Individuals | .Pointer; All",
		func(d *gedcom.Document) interface{} {
			return ptrsIf(d, func(*gedcom.IndividualNode) bool { return true })
		}})
	out = append(out, pvProgram{"Count is .Individuals | Length; Count",
		func(d *gedcom.Document) interface{} { return len(d.Individuals()) }})
	return out
}

var pvDocs = []string{"one", "family", "shared-spouse", "numeric-names", "three-families"}

// pvSequences: every document alone, every ordered pair and every ordered triple of three of them
func pvSequences() [][]string {
	var out [][]string
	for _, a := range pvDocs {
		out = append(out, []string{a})
		for _, b := range pvDocs {
			out = append(out, []string{a, b})
		}
	}
	three := []string{"one", "family", "numeric-names"}
	for _, a := range three {
		for _, b := range three {
			for _, c := range three {
				out = append(out, []string{a, b, c})
			}
		}
	}
	return out
}

// judgePV: one program, one parsed engine, evaluated on the documents of seq in turn.
func judgePV(pi int, seq []string) (sig, what string) {
	p := pvPrograms()[pi]
	var eng *q.Engine
	var err error
	if pn, msg, _ := vlib.Try(func() { eng, err = q.NewParser().ParseString(p.Text) }); pn || err != nil {
		return "engine-error-on-defined-query:variables", fmt.Sprintf("%q does not parse: %v %s", p.Text, err, msg)
	}
	for step, dn := range seq {
		doc := decode(dn)
		var got interface{}
		if pn, msg, _ := vlib.Try(func() { got, err = eng.Evaluate([]*gedcom.Document{doc}) }); pn {
			return "", "engine panic (C15): " + msg
		}
		if err != nil {
			return "engine-error-on-defined-query:variables", fmt.Sprintf("%q on %s (use %d of one engine on %v): %v", p.Text, dn, step+1, seq, err)
		}
		g, e1 := normalise(got)
		w, e2 := normalise(p.Ref(decode(dn)))
		if e1 != nil || e2 != nil {
			return "", "not json"
		}
		if !sameJSON(g, w) {
			s := "result-differs:variable-per-item"
			if step > 0 {
				s = "result-differs:engine-reused-on-another-document"
			}
			return s, fmt.Sprintf("%q on %s (use %d of one engine on %v):\n engine: %s\n Go API: %s", p.Text, dn, step+1, seq, js(g), js(w))
		}
	}
	return "", ""
}

func runPV(r *vlib.Rec, lo, hi int64) {
	seqs := pvSequences()
	for pi := lo; pi < hi; pi++ {
		for _, seq := range seqs {
			r.Eval()
			r.Count("variables-per-item")
			k := kase{Query: pvPrograms()[pi].Text, Doc: strings.Join(seq, ","), Prog: int(pi), Depth: -2}
			r.Enter(k)
			sig, what := judgePV(int(pi), seq)
			r.Nontrivial("pv|" + k.Query + "|" + k.Doc)
			if sig != "" {
				r.Fail(sig, what, k)
			}
		}
	}
}
