package main

import (
	"fmt"
	"strings"

	"github.com/elliotchance/gedcom/v39"
	"github.com/elliotchance/gedcom/v39/q"
	"verif/harness/vlib"
)

// operands of the comparison table: integers, signed and unsigned, leading dot / zero / plus,
// exponents, numeric-looking text, plain text in both cases, empty
var cmpOperands = []string{"", "0", "-0", "1", "-1", "+2", "2", ".5", "0.5", "-.5", "1e3", "1000", "-5", "-3", "-10", "-9", "10", "9", "010", "10.0",
	"1.50", "1.5", "a", "A", "b", "B", "-a", "1a", "a1", "ann", "Ann", "-", "+", ".", "1.", "1 2",
	// backslashes are ordinary characters (a string constant is raw text between the quotes)
	`a\tb`, `a\\b`, `\x41`, `\u00e9`, `a\`,
	// numbers at the edge of float64: infinities in the spellings strconv accepts, neighbours closer than any
	// "tolerance" (a tolerant = would hold together with < or >)
	"Inf", "-inf", "+Infinity", "0.3", "0.30000000000000004", "1e-10", "1e309"}

func cmpDocText() string {
	var sb strings.Builder
	for i, a := range cmpOperands {
		fmt.Fprintf(&sb, "0 @N%d@ NOTE", i)
		if a != "" {
			sb.WriteString(" " + a)
		}
		sb.WriteString("\n")
	}
	return sb.String()
}

// cmpCase: one constant x one operator over all operands as left-hand values
type cmpCase struct {
	Const  string `json:"const"`
	Quoted bool   `json:"quoted"`
	Op     string `json:"op"`
}

func (c cmpCase) query() string {
	k := c.Const
	if c.Quoted {
		k = `"` + k + `"` // raw: the language has no escapes
	}
	return ".Nodes | Only(.Value " + c.Op + " " + k + ") | .Pointer"
}

func judgeCompare(c cmpCase) (sig, what string) {
	doc, err := gedcom.NewDocumentFromString(cmpDocText())
	if err != nil {
		panic(err)
	}
	var want []string
	k := c.Const
	if c.Quoted {
		k = `"` + k + `"`
	}
	for i, a := range cmpOperands {
		if compare(a, c.Op, k) {
			want = append(want, fmt.Sprintf("N%d", i))
		}
	}
	var got interface{}
	var everr error
	if p, msg, _ := vlib.Try(func() {
		var eng *q.Engine
		eng, everr = q.NewParser().ParseString(c.query())
		if everr == nil {
			got, everr = eng.Evaluate([]*gedcom.Document{doc})
		}
	}); p {
		return "", "engine panic (C15): " + msg
	}
	if everr != nil {
		return "engine-error-on-defined-query:compare-table", fmt.Sprintf("%q: %v", c.query(), everr)
	}
	var gs []string
	if l, ok := got.([]string); ok {
		gs = l
	} else if l, ok := got.([]interface{}); ok {
		for _, e := range l {
			gs = append(gs, fmt.Sprint(e))
		}
	} else if got != nil {
		return "result-differs:compare-table", fmt.Sprintf("%q gives a %T", c.query(), got)
	}
	if strings.Join(gs, ",") != strings.Join(want, ",") {
		var diff []string
		in := func(l []string, s string) bool {
			for _, x := range l {
				if x == s {
					return true
				}
			}
			return false
		}
		for i, a := range cmpOperands {
			p := fmt.Sprintf("N%d", i)
			if in(gs, p) != in(want, p) {
				diff = append(diff, fmt.Sprintf("%q %s %q: engine %v, documented rule %v", a, c.Op, c.Const, in(gs, p), in(want, p)))
			}
		}
		return "result-differs:compare-table", fmt.Sprintf("%q: %s", c.query(), strings.Join(diff, "; "))
	}
	return "", ""
}

// constants may also be padded (values cannot: the decoder trims them)
var cmpPadded = []string{" 10", "10 ", " 9 ", " 10.0", "07 ", " a", "a ", " A ", " ", "  "}

func cmpCases() []cmpCase {
	var out []cmpCase
	for _, k := range append(append([]string{}, cmpOperands...), cmpPadded...) {
		for _, op := range ops {
			out = append(out, cmpCase{k, true, op})
			// unquoted number tokens (the language has unsigned integer tokens only)
			if k != "" && strings.Trim(k, "0123456789") == "" && len(k) < 18 {
				out = append(out, cmpCase{k, false, op})
			}
		}
	}
	return out
}

func runCompare(r *vlib.Rec, lo, hi int64) {
	cs := cmpCases()
	for i := lo; i < hi; i++ {
		c := cs[i]
		r.Eval()
		r.Add("compare-table", int64(len(cmpOperands)))
		r.Enter(c)
		sig, what := judgeCompare(c)
		r.Nontrivial("cmp|" + c.query())
		if sig != "" {
			r.Fail(sig, what, kase{Query: c.query(), Doc: "compare-table", Prog: int(i), Depth: -1})
		}
	}
}
