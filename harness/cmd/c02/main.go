// C02 — decoding attaches every line exactly where its level says.
// Bounded-exhaustive level walks x line deviations and byte strings, each run
// through the real decoder and through the reference decoder (ref/decode.go);
// whenever the implementation accepts, its tree must be the reference tree and
// the encode/decode fixpoint must hold.
package main

import (
	"encoding/json"
	"fmt"
	"strconv"
	"strings"
	"time"

	"github.com/elliotchance/gedcom/v39"
	"verif/harness/gen"
	"verif/harness/gx"
	"verif/harness/ref"
	"verif/harness/vlib"
)

var levelAlphabet = []string{"0", "1", "2", "3", "4", "10"}
var byteAlphabet = []byte{'0', '1', ' ', '@', 'A', '\n', '\r', 0xFF}

type kase struct {
	Data           string `json:"data"` // quoted Go string (non-UTF-8 safe)
	MultiLine      bool   `json:"multiline"`
	InvalidIndents bool   `json:"invalid_indents"`
}

func mkCase(data string, ml, ii bool) kase {
	return kase{Data: strconv.Quote(data), MultiLine: ml, InvalidIndents: ii}
}

// judge runs one input under one option combination. Returns signature ("" =
// clean), description, and outcome class for the counters.
func judge(data string, ml, ii bool) (sig, what, class string, nodes int) {
	model := ref.Decode(data, ml, ii)
	r := gx.Decode(data, ml, ii)
	switch {
	case r.Panicked:
		return "", "", "impl-panic", 0 // C03's business
	case r.Err != nil:
		if model.Outcome == ref.Accept {
			return "", "", "impl-rejects-model-accepts", 0 // not a C02 matter (see C01)
		}
		return "", "", "both-reject", 0
	}
	doc := r.Doc
	switch model.Outcome {
	case ref.Undefined:
		return "", "", "model-undefined", 0
	case ref.Reject:
		return "accepted-unreadable-line", fmt.Sprintf("decoder accepted a stream whose line %d the grammar cannot read (%s): that line was dropped or turned into something else", model.Line, model.Why), "viol", 0
	case ref.TooDeep:
		return "accepted-overdeep-line", fmt.Sprintf("decoder accepted an over-deep line %d without AllowInvalidIndents", model.Line), "viol", 0
	}
	nodes = ref.Count(model.Roots)
	if sh := gx.Shared(doc.Nodes()); sh != "" {
		return "node-object-shared", "every line must become its own node: " + sh, "viol", nodes
	}
	got := gx.Dump(doc.Nodes(), false)
	want := gx.DumpRef(model.Roots)
	if got != want {
		sig := "tree-differs"
		if strings.Count(got, "\n") != strings.Count(want, "\n") {
			sig = "tree-differs:node-count"
		} else if stripValues(got) == stripValues(want) {
			sig = "tree-differs:value"
			if ml && recordHasValue(got) != recordHasValue(want) {
				sig = "tree-differs:value:record-line-continued"
			}
		} else if levelsOf(got) != levelsOf(want) {
			sig = "tree-differs:parent"
		}
		return sig, fmt.Sprintf("decoded tree differs from the line grammar's tree\n got:\n%s want:\n%s", got, want), "viol", nodes
	}
	if doc.HasBOM != model.HasBOM {
		return "bom-flag-wrong", "HasBOM differs from the stream", "viol", nodes
	}
	if s := gx.CheckTypes(doc.Nodes()); s != "" {
		return "node-kind-wrong", s, "viol", nodes
	}
	// NodeByPointer for unique root pointers
	seen := map[string]int{}
	for _, n := range model.Roots {
		if n.Pointer != "" {
			seen[n.Pointer]++
		}
	}
	for i, n := range model.Roots {
		if n.Pointer != "" && seen[n.Pointer] == 1 {
			if doc.NodeByPointer(n.Pointer) != doc.Nodes()[i] {
				return "pointer-index-wrong", "NodeByPointer(" + n.Pointer + ") is not the root record carrying that xref", "viol", nodes
			}
		}
	}
	// fixpoint: encode -> decode (same options) -> same tree -> same bytes
	enc := doc.String()
	r2 := gx.Decode(enc, ml, ii)
	if r2.Panicked || r2.Err != nil {
		cls := "fixpoint:reencoded-text-not-accepted"
		if hasLevel10(got) {
			cls += ":level>=10"
		} else if ml && recordLineHasValue(model.Roots) {
			cls += ":record-line-continuation"
		}
		return cls, fmt.Sprintf("normal form %q is not accepted: err=%v panic=%v", enc, r2.Err, r2.PanicMsg), "viol", nodes
	}
	got2 := gx.Dump(r2.Doc.Nodes(), true)
	if got2 != gx.Dump(doc.Nodes(), true) {
		cls := "fixpoint:tree-changes"
		if ml && recordLineHasValue(model.Roots) {
			cls += ":record-line-continuation"
		}
		return cls, fmt.Sprintf("normal form decodes to a different tree\n first:\n%s second:\n%s", gx.Dump(doc.Nodes(), true), got2), "viol", nodes
	}
	if enc2 := r2.Doc.String(); enc2 != enc {
		return "fixpoint:bytes-change", fmt.Sprintf("normal form re-encodes differently: %q vs %q", enc, enc2), "viol", nodes
	}
	return "", "", "accept", nodes
}

// recordLineHasValue: an INDI/FAM line was given text by a continuation line
// (only possible with AllowMultiLine).
func recordLineHasValue(ns []*ref.RNode) bool {
	for _, n := range ns {
		if (n.Tag == "INDI" || n.Tag == "FAM") && n.Value != "" {
			return true
		}
		if recordLineHasValue(n.Children) {
			return true
		}
	}
	return false
}

func stripValues(d string) string {
	var sb strings.Builder
	for _, l := range strings.Split(d, "\n") {
		p := strings.SplitN(l, "|", 4)
		if len(p) == 4 {
			sb.WriteString(p[0] + "|" + p[1] + "|" + p[2] + "\n")
		}
	}
	return sb.String()
}

func levelsOf(d string) string {
	var sb strings.Builder
	for _, l := range strings.Split(d, "\n") {
		p := strings.SplitN(l, "|", 2)
		sb.WriteString(p[0] + ",")
	}
	return sb.String()
}

func recordHasValue(d string) bool {
	for _, l := range strings.Split(d, "\n") {
		p := strings.SplitN(l, "|", 4)
		if len(p) == 4 && (p[2] == "INDI" || p[2] == "FAM") && p[3] != "" {
			return true
		}
	}
	return false
}

func hasLevel10(d string) bool {
	for _, l := range strings.Split(d, "\n") {
		p := strings.SplitN(l, "|", 2)
		if len(p[0]) >= 2 {
			return true
		}
	}
	return false
}

// lines of every specialised node kind (and some plain ones) with typical values
var twiceLines = []string{"SEX M", "SEX F", "SEX U", "SEX", "NAME a /b/", "NAME", "DATE 1 Jan 2000", "DATE", "BIRT", "BIRT Y", "DEAT", "BAPM", "BURI", "EVEN x",
	"RESI", "PLAC a,b", "_UID 0123456789ABCDEF0123456789ABCDEF", "_FID x", "_FSFTID x", "FORM x", "LATI N1", "LONG W1", "MAP", "NICK x", "FONE x", "ROMN x", "SOUR x", "SOUR @S1@",
	"TYPE x", "OCCU x", "NOTE", "NOTE v", "FAMS @F1@", "FAMC @F1@", "_X", "_X y"}

// recordLines: lines below (and after) a family record. FamilyNode attaches its own lines, role lines know their
// family, and a file may repeat a member line byte for byte, give it sub-lines, or leave its value empty.
var recordLines = []string{"1 HUSB @I1@\n", "1 WIFE @I1@\n", "1 CHIL @I1@\n", "1 CHIL @I2@\n", "1 CHIL\n", "2 NOTE a\n", "2 _FREL Natural\n", "1 NOTE a\n",
	"1 MARR\n", "2 DATE 1 Jan 1900\n", "0 @F2@ FAM\n", "0 @F1@ FAM\n", "0 @I1@ INDI\n", "1 FAMS @F1@\n", "1 SEX M\n", "2 CHIL @I1@\n", "1 chil @I1@\n"}

var optCombos = [4][2]bool{{false, false}, {true, false}, {false, true}, {true, true}}

func runInputX(r *vlib.Rec, data string) { runInput(r, data) }

func runInput(r *vlib.Rec, data string) {
	for _, o := range optCombos {
		r.Eval()
		ml, ii := o[0], o[1]
		r.EnterF(func() interface{} { return mkCase(data, ml, ii) })
		sig, what, class, nodes := judge(data, o[0], o[1])
		r.Count("outcome:" + class)
		if class == "accept" && nodes >= 2 {
			r.Nontrivial(fmt.Sprintf("%v%v|%s", o[0], o[1], data))
			if r.WantSample() && nodes >= 3 {
				r.Sample(mkCase(data, o[0], o[1]))
			}
		}
		if sig != "" {
			r.Fail(sig, what, mkCase(data, o[0], o[1]))
		}
	}
}

func walkLevels(idx int64, n int) []string {
	ds := gen.Digits(idx, len(levelAlphabet), n)
	out := make([]string, n)
	for i, d := range ds {
		out[i] = levelAlphabet[d]
		if i > 0 {
			continue
		}
	}
	return out
}

func run(tier, unit string, r *vlib.Rec) {
	name, lo, hi := vlib.ParseChunk(unit)
	p := strings.Split(name, ":")
	switch p[0] {
	case "walk": // walk:<n>:<maxdev>
		n, _ := strconv.Atoi(p[1])
		maxdev, _ := strconv.Atoi(p[2])
		for idx := lo; idx < hi; idx++ {
			lv := walkLevels(idx, n)
			for _, l := range lv {
				r.Count("level:" + l)
			}
			base := gen.Walk(lv)
			runInput(r, gen.Join(base))
			if maxdev >= 1 {
				for i := 0; i < n; i++ {
					for _, dv := range gen.LineDeviations {
						ls := append([]gen.Line{}, base...)
						dv.Apply(&ls[i])
						r.Count("dev:" + dv.Name)
						runInput(r, gen.Join(ls))
						if maxdev >= 2 {
							for j := i + 1; j < n; j++ {
								for _, dv2 := range gen.LineDeviations {
									ls2 := append([]gen.Line{}, ls...)
									dv2.Apply(&ls2[j])
									r.Count("dev2")
									runInput(r, gen.Join(ls2))
								}
							}
						}
					}
				}
			}
		}
	case "chain": // chain: a single path down to depth d, then a line at every level <= d+1
		for d := lo; d < hi; d++ {
			var sb strings.Builder
			for l := int64(0); l <= d; l++ {
				fmt.Fprintf(&sb, "%d NOTE d%d\n", l, l)
			}
			for back := int64(0); back <= d+1; back++ {
				r.Count("chain")
				if d >= 10 {
					r.Count("chain>=10")
				}
				runInput(r, sb.String()+fmt.Sprintf("%d NAME back\n", back))
			}
		}
	case "twice": // the same specialised line twice in one record with different substructure (nodes must not be shared)
		for k := lo; k < hi; k++ {
			ln := twiceLines[k]
			for _, shape := range []string{
				"0 @I1@ INDI\n1 %[1]s\n2 NOTE a\n1 %[1]s\n",
				"0 @I1@ INDI\n1 %[1]s\n1 %[1]s\n2 NOTE a\n",
				"0 @I1@ INDI\n1 %[1]s\n2 NOTE a\n0 @I2@ INDI\n1 %[1]s\n2 NOTE b\n3 NOTE c\n",
				"0 @I1@ INDI\n1 %[1]s\n2 %[1]s\n3 NOTE a\n1 NOTE b\n",
				"0 %[1]s\n1 NOTE a\n0 %[1]s\n",
				"0 @I1@ INDI\n1 %[1]s\n2 CONT x\n1 %[1]s\n",
			} {
				r.Count("twice")
				runInput(r, fmt.Sprintf(shape, ln))
			}
		}
	case "records": // records:<n>: every sequence of n lines over the record alphabet (records that attach their own lines: FAM, INDI)
		n, _ := strconv.Atoi(p[1])
		for idx := lo; idx < hi; idx++ {
			var sb strings.Builder
			for _, d := range gen.Digits(idx, len(recordLines), n) {
				sb.WriteString(recordLines[d])
				r.Count("recline:" + strings.TrimSpace(recordLines[d]))
			}
			r.Count("records")
			runInput(r, "0 @F1@ FAM\n"+sb.String())
			if idx%int64(len(recordLines)) == 0 { // the same below an individual and with no record in front (once per prefix)
				runInput(r, "0 @I9@ INDI\n"+sb.String())
			}
		}
	case "bytes": // bytes:<L>:<bom>
		L, _ := strconv.Atoi(p[1])
		bom := p[2] == "1"
		buf := make([]byte, L)
		for idx := lo; idx < hi; idx++ {
			ds := gen.Digits(idx, len(byteAlphabet), L)
			for i, d := range ds {
				buf[i] = byteAlphabet[d]
			}
			s := string(buf)
			if bom {
				// full byte-order mark, and streams truncated inside it
				for _, pre := range []string{"\xef", "\xef\xbb", "\xef\xbb\xbf\xef"} {
					r.Count("bom-truncated")
					runInputX(r, pre+s)
				}
				s = "\xef\xbb\xbf" + s
				r.Count("bom")
			}
			r.Count("bytes")
			runInput(r, s)
		}
	}
}

func plan(tier string) []string {
	var out []string
	A := len(levelAlphabet)
	type w struct{ n, dev int }
	var ws []w
	var maxL int
	if tier == "thorough" {
		ws = []w{{1, 2}, {2, 2}, {3, 2}, {4, 2}, {5, 1}, {6, 1}, {7, 0}, {8, 0}}
		maxL = 7
	} else {
		ws = []w{{1, 2}, {2, 2}, {3, 2}, {4, 1}, {5, 1}, {6, 0}, {7, 0}}
		maxL = 6
	}
	for _, x := range ws {
		size := int64(2000)
		if x.dev == 1 {
			size = 40
		}
		if x.dev == 2 {
			size = 4
		}
		out = append(out, vlib.Chunks(fmt.Sprintf("walk:%d:%d", x.n, x.dev), gen.Pow(A, x.n), size)...)
	}
	out = append(out, vlib.Chunks("chain", 41, 4)...)
	out = append(out, vlib.Chunks("twice", int64(len(twiceLines)), 6)...)
	maxRec := 4
	if tier == "thorough" {
		maxRec = 5
	}
	for n := 1; n <= maxRec; n++ {
		out = append(out, vlib.Chunks(fmt.Sprintf("records:%d", n), gen.Pow(len(recordLines), n), 3000)...)
	}
	for L := 0; L <= maxL; L++ {
		for _, bom := range []string{"0", "1"} {
			if bom == "1" && L > maxL-1 {
				continue
			}
			out = append(out, vlib.Chunks(fmt.Sprintf("bytes:%d:%s", L, bom), gen.Pow(len(byteAlphabet), L), 20000)...)
		}
	}
	return out
}

func replay(c json.RawMessage) (string, string) {
	var k kase
	json.Unmarshal(c, &k)
	data, _ := strconv.Unquote(k.Data)
	sig, what, class, _ := judge(data, k.MultiLine, k.InvalidIndents)
	r := gx.Decode(data, k.MultiLine, k.InvalidIndents)
	obs := fmt.Sprintf("input %s multiline=%v invalid_indents=%v\nclass=%s err=%v panic=%q\n%s", k.Data, k.MultiLine, k.InvalidIndents, class, r.Err, r.PanicMsg, what)
	if r.Doc != nil {
		obs += "\ndecoded:\n" + gx.Dump(r.Doc.Nodes(), true)
	}
	return sig, obs
}

var _ = gedcom.NewDocument

func main() {
	vlib.Main(&vlib.Check{
		ID:    "C02",
		Level: "model_checking",
		Rule: "inputs: (r) every sequence of <=4 (thorough 5) lines over a 17-line record alphabet below a FAM record (member lines repeated byte for byte, with sub-lines, without value, at level 2, in lower case, next family/individual record) and the same below an INDI record; (a) every level walk of n lines over levels {0,1,2,3,4,10} with default lines and with every choice of <=k lines deviating in one field (32 deviations: xrefs, tags, values, terminators, separators, unparsable lines); " +
			"(b) every byte string of length <=L over {0,1,space,@,A,LF,CR,0xFF} with/without BOM; each x 4 option combinations. Every input is run on the reference decoder and on the real decoder. " +
			"Non-trivial = accepted by the implementation with >=2 nodes; distinct by (options, bytes).",
		Assumptions: []string{
			"reference model ref/decode.go (hand-written line grammar and level attachment) defines the expected tree; values are trimmed of ASCII white space (the alphabets contain no other Unicode space)",
			"one-directional oracle as the property states: only streams the implementation accepts are compared; rejected/panicking inputs are counted and left to C01/C03",
			"the fixpoint re-decodes the normal form under the same decoder options",
		},
		Plan:   plan,
		Run:    run,
		Replay: replay,
		Required: func(string) []string {
			req := []string{"outcome:accept", "outcome:both-reject", "bytes", "bom", "chain", "chain>=10", "twice", "records"}
			for _, d := range gen.LineDeviations {
				req = append(req, "dev:"+d.Name)
			}
			for _, l := range levelAlphabet {
				req = append(req, "level:"+l)
			}
			return req
		},
		Deadline: func(tier string) time.Duration {
			if tier == "thorough" {
				return 25 * time.Minute
			}
			return 8 * time.Minute
		},
		Finish: func(tier string, cov map[string]interface{}, c map[string]int64) {
			// model-checking style keys: every model case was replayed on the implementation
			cov["states"] = cov["distinct_nontrivial"]
			cov["transitions"] = cov["evaluations"]
			cov["traces_validated_against_impl"] = cov["evaluations"]
			cov["explanation"] = "states = distinct accepted inputs with >=2 nodes; transitions = decoder runs; every reference-model case is executed on the real decoder (traces_validated_against_impl = evaluations)"
		},
		Bounds: func(tier string) interface{} {
			if tier == "thorough" {
				return map[string]interface{}{"walks": "n<=4: <=2 deviations; n<=6: <=1 deviation; n<=8: none", "bytes": "L<=7 (L<=6 with BOM)", "levels": levelAlphabet}
			}
			return map[string]interface{}{"walks": "n<=3: <=2 deviations; n<=5: <=1 deviation; n<=7: none", "bytes": "L<=6 (L<=5 with BOM)", "levels": levelAlphabet}
		},
	})
}
