// C13 — reads never modify a document and views reflect every edit.
// Explicit-state search over API operation histories on the real Document:
// every history of <=D operations over a small colliding alphabet (edits, a
// warm-all-views operation, read-only operations) is replayed on a fresh
// instance; at the end every derived view must equal the same view on a fresh
// decode of the document's text, and read-only operations must leave the text
// unchanged.
package main

import (
	"encoding/json"
	"fmt"
	"reflect"
	"sort"
	"strconv"
	"strings"
	"time"

	"github.com/elliotchance/gedcom/v39"
	"github.com/elliotchance/gedcom/v39/html"
	"github.com/elliotchance/gedcom/v39/html/core"
	"github.com/elliotchance/gedcom/v39/q"
	"verif/harness/gen"
	"verif/harness/vlib"
)

// ---------- initial documents ----------

func person(ptr, name, birth string) string {
	return fmt.Sprintf("0 @%s@ INDI\n1 NAME %s\n1 BIRT\n2 DATE %s\n", ptr, name, birth)
}

var initials = map[string]string{
	"empty": "",
	"one":   person("I1", "Ann /Ash/", "1 Jan 1850"),
	"couple-child": "0 @I1@ INDI\n1 NAME Ann /Ash/\n1 SEX F\n1 BIRT\n2 DATE 1 Jan 1850\n1 FAMS @F1@\n" +
		"0 @I2@ INDI\n1 NAME Bob /Birch/\n1 SEX M\n1 BIRT\n2 DATE 2 Feb 1848\n1 FAMS @F1@\n" +
		"0 @I3@ INDI\n1 NAME Cy /Birch/\n1 BIRT\n2 DATE 3 Mar 1875\n1 FAMC @F1@\n" +
		// the CHIL line has sub-lines of its own (as Family Tree Maker / Ancestry exports write them)
		"0 @F1@ FAM\n1 HUSB @I2@\n1 WIFE @I1@\n1 CHIL @I3@\n2 _FREL Natural\n2 _MREL Natural\n",
	// Bob's first spouse is living (born recently, no death), his second is not
	"shared-spouse": "0 @I1@ INDI\n1 NAME Ann /Ash/\n1 BIRT\n2 DATE 1 Jan 1995\n1 FAMS @F1@\n" +
		"0 @I2@ INDI\n1 NAME Bob /Birch/\n1 BIRT\n2 DATE 2 Feb 1848\n1 FAMS @F1@\n1 FAMS @F2@\n" +
		"0 @I3@ INDI\n1 NAME Di /Dale/\n1 BIRT\n2 DATE 3 Mar 1855\n1 FAMS @F2@\n" +
		"0 @F1@ FAM\n1 HUSB @I2@\n1 WIFE @I1@\n" +
		"0 @F2@ FAM\n1 HUSB @I2@\n1 WIFE @I3@\n",
	// the child's own marriage family precedes the family it was born into
	"two-generations": "0 @I1@ INDI\n1 NAME Ann /Ash/\n1 BIRT\n2 DATE 1 Jan 1850\n1 FAMS @F2@\n" +
		// Bob's name is written twice and he has an empty death record, neither as the last line
		"0 @I2@ INDI\n1 NAME Bob /Birch/\n1 NAME Bob /Birch/\n1 DEAT\n1 BIRT\n2 DATE 2 Feb 1848\n1 FAMS @F2@\n" +
		"0 @I3@ INDI\n1 NAME Cy /Birch/\n1 BIRT\n2 DATE 3 Mar 1875\n1 FAMS @F1@\n1 FAMC @F2@\n" +
		"0 @F1@ FAM\n1 HUSB @I3@\n" +
		"0 @F2@ FAM\n1 HUSB @I2@\n1 WIFE @I1@\n1 CHIL @I3@\n",
}
var initialNames = []string{"empty", "one", "couple-child", "shared-spouse", "two-generations"}

// ---------- operations ----------

func root(doc *gedcom.Document, ptr string) gedcom.Node {
	for _, n := range doc.Nodes() {
		if n.Pointer() == ptr {
			return n
		}
	}
	return nil
}
func indiOf(doc *gedcom.Document, ptr string) *gedcom.IndividualNode {
	n, _ := root(doc, ptr).(*gedcom.IndividualNode)
	return n
}
func famOf(doc *gedcom.Document, ptr string) *gedcom.FamilyNode {
	n, _ := root(doc, ptr).(*gedcom.FamilyNode)
	return n
}
func firstWithTag(n gedcom.Node, tag string) gedcom.Node {
	for _, c := range n.Nodes() {
		if c.Tag().Tag() == tag {
			return c
		}
	}
	return nil
}

type operation struct {
	Name string
	Kind string // edit | warm | read
	// Do applies the operation; ok=false when its precondition does not hold (the history is then not generated further)
	Do func(doc *gedcom.Document) (ok bool)
}

type memWriter struct{ n int }

func (w *memWriter) WriteFile(f *core.File) error {
	w.n++
	defer func() { recover() }() // a crashing page is C14's business
	_, err := f.Component.WriteHTMLTo(discard{})
	return err
}

type discard struct{}

func (discard) Write(p []byte) (int, error) { return len(p), nil }

func ops() []operation {
	var out []operation
	add := func(name, kind string, f func(doc *gedcom.Document) bool) {
		out = append(out, operation{name, kind, f})
	}
	for _, p := range []string{"I1", "I2", ""} { // "": a record without a pointer (an index must not learn the empty pointer)
		p := p
		add("AddIndividual("+p+")", "edit", func(d *gedcom.Document) bool {
			if p != "" && root(d, p) != nil {
				return false
			}
			if p == "" {
				n := 0
				for _, r := range d.Nodes() {
					if r.Pointer() == "" && r.Tag().Tag() == "INDI" {
						n++
					}
				}
				if n > 0 {
					return false
				}
			}
			d.AddIndividual(p, gedcom.NewNameNode("New /"+p+"/"))
			return true
		})
	}
	for _, p := range []string{"F1", "F2"} {
		p := p
		add("AddFamily("+p+")", "edit", func(d *gedcom.Document) bool {
			if root(d, p) != nil {
				return false
			}
			d.AddFamily(p)
			return true
		})
	}
	add("AddFamilyWithHusbandAndWife(F2,I1,I3)", "edit", func(d *gedcom.Document) bool {
		if root(d, "F2") != nil || indiOf(d, "I1") == nil || indiOf(d, "I3") == nil {
			return false
		}
		d.AddFamilyWithHusbandAndWife("F2", indiOf(d, "I1"), indiOf(d, "I3"))
		return true
	})
	for _, p := range []string{"I1", "I3"} {
		p := p
		add("SetHusband(F1,"+p+")", "edit", func(d *gedcom.Document) bool {
			if famOf(d, "F1") == nil || indiOf(d, p) == nil {
				return false
			}
			famOf(d, "F1").SetHusband(indiOf(d, p))
			return true
		})
		add("SetWife(F1,"+p+")", "edit", func(d *gedcom.Document) bool {
			if famOf(d, "F1") == nil || indiOf(d, p) == nil {
				return false
			}
			famOf(d, "F1").SetWife(indiOf(d, p))
			return true
		})
		add("AddChild(F1,"+p+")", "edit", func(d *gedcom.Document) bool {
			if famOf(d, "F1") == nil || indiOf(d, p) == nil {
				return false
			}
			famOf(d, "F1").AddChild(indiOf(d, p))
			return true
		})
	}
	add("SetHusband(F1,pointer-less)", "edit", func(d *gedcom.Document) bool {
		var who *gedcom.IndividualNode
		for _, r := range d.Nodes() {
			if i, ok := r.(*gedcom.IndividualNode); ok && i.Pointer() == "" {
				who = i
			}
		}
		if famOf(d, "F1") == nil || who == nil {
			return false
		}
		famOf(d, "F1").SetHusband(who)
		return true
	})
	add("SetHusband(F1,nil)", "edit", func(d *gedcom.Document) bool {
		if famOf(d, "F1") == nil {
			return false
		}
		famOf(d, "F1").SetHusband(nil)
		return true
	})
	add("SetWife(F1,nil)", "edit", func(d *gedcom.Document) bool {
		if famOf(d, "F1") == nil {
			return false
		}
		famOf(d, "F1").SetWife(nil)
		return true
	})
	add("SetHusbandPointer(F1,I3)", "edit", func(d *gedcom.Document) bool {
		if famOf(d, "F1") == nil || indiOf(d, "I3") == nil {
			return false
		}
		famOf(d, "F1").SetHusbandPointer("I3")
		return true
	})
	add("I1.AddName", "edit", func(d *gedcom.Document) bool {
		if indiOf(d, "I1") == nil {
			return false
		}
		indiOf(d, "I1").AddName("Added /Name/")
		return true
	})
	add("I1.AddBirthDate", "edit", func(d *gedcom.Document) bool {
		if indiOf(d, "I1") == nil {
			return false
		}
		indiOf(d, "I1").AddBirthDate("5 May 1851")
		return true
	})
	add("I1.SetSex(M)", "edit", func(d *gedcom.Document) bool {
		if indiOf(d, "I1") == nil {
			return false
		}
		indiOf(d, "I1").SetSex("M")
		return true
	})
	add("I1.AddNode(NOTE)", "edit", func(d *gedcom.Document) bool {
		if indiOf(d, "I1") == nil {
			return false
		}
		indiOf(d, "I1").AddNode(gedcom.NewNode(gedcom.TagNote, "a note", ""))
		return true
	})
	add("I1.AddNode(NAME)", "edit", func(d *gedcom.Document) bool {
		if indiOf(d, "I1") == nil {
			return false
		}
		indiOf(d, "I1").AddNode(gedcom.NewNameNode("Other /Name/"))
		return true
	})
	for _, tag := range []string{"NAME", "FAMS", "BIRT"} {
		tag := tag
		add("I1.DeleteNode(first "+tag+")", "edit", func(d *gedcom.Document) bool {
			i := indiOf(d, "I1")
			if i == nil || firstWithTag(i, tag) == nil {
				return false
			}
			i.DeleteNode(firstWithTag(i, tag))
			return true
		})
	}
	for _, tag := range []string{"HUSB", "CHIL"} {
		tag := tag
		add("F1.DeleteNode(first "+tag+")", "edit", func(d *gedcom.Document) bool {
			f := famOf(d, "F1")
			if f == nil || firstWithTag(f, tag) == nil {
				return false
			}
			f.DeleteNode(firstWithTag(f, tag))
			return true
		})
	}
	add("I1.SetNodes(nil)", "edit", func(d *gedcom.Document) bool {
		if indiOf(d, "I1") == nil || len(indiOf(d, "I1").Nodes()) == 0 {
			return false
		}
		indiOf(d, "I1").SetNodes(nil)
		return true
	})
	add("I1.SetNodes(tail)", "edit", func(d *gedcom.Document) bool {
		i := indiOf(d, "I1")
		if i == nil || len(i.Nodes()) < 2 {
			return false
		}
		i.SetNodes(append(gedcom.Nodes{}, i.Nodes()[1:]...))
		return true
	})
	add("I1.SetNodes(new)", "edit", func(d *gedcom.Document) bool {
		i := indiOf(d, "I1")
		if i == nil {
			return false
		}
		// built without AddNode: adding a node anywhere drops the process-wide NodesWithTag cache,
		// and this operation is about SetNodes doing that itself
		b := gedcom.NewNode(gedcom.TagBirth, "", "", gedcom.NewDateNode("1 Jan 1900"))
		i.SetNodes(gedcom.Nodes{gedcom.NewNameNode("Newly /Set/"), b})
		return true
	})
	add("AddIndividual(I1) again", "edit", func(d *gedcom.Document) bool {
		if root(d, "I1") == nil {
			return false
		}
		n := 0
		for _, r := range d.Nodes() {
			if r.Pointer() == "I1" {
				n++
			}
		}
		if n > 1 {
			return false
		}
		d.AddIndividual("I1", gedcom.NewNameNode("Second /Record/"))
		return true
	})
	add("F1.SetNodes(nil)", "edit", func(d *gedcom.Document) bool {
		if famOf(d, "F1") == nil || len(famOf(d, "F1").Nodes()) == 0 {
			return false
		}
		famOf(d, "F1").SetNodes(nil)
		return true
	})
	add("DeleteNodesWithTag(I1,NAME)", "edit", func(d *gedcom.Document) bool {
		i := indiOf(d, "I1")
		if i == nil || firstWithTag(i, "NAME") == nil {
			return false
		}
		gedcom.DeleteNodesWithTag(i, gedcom.TagName)
		return true
	})
	add("doc.DeleteNode(first individual)", "edit", func(d *gedcom.Document) bool {
		for _, n := range d.Nodes() {
			if _, ok := n.(*gedcom.IndividualNode); ok {
				d.DeleteNode(n)
				return true
			}
		}
		return false
	})
	add("doc.DeleteNode(first family)", "edit", func(d *gedcom.Document) bool {
		for _, n := range d.Nodes() {
			if _, ok := n.(*gedcom.FamilyNode); ok {
				d.DeleteNode(n)
				return true
			}
		}
		return false
	})
	// replacing the document's own child nodes (SetNodes on the document, as SetNodes on a record)
	add("doc.SetNodes(without first individual)", "edit", func(d *gedcom.Document) bool {
		for i, n := range d.Nodes() {
			if _, ok := n.(*gedcom.IndividualNode); ok {
				kept := append(gedcom.Nodes{}, d.Nodes()[:i]...)
				d.SetNodes(append(kept, d.Nodes()[i+1:]...))
				return true
			}
		}
		return false
	})
	add("doc.SetNodes(without first family)", "edit", func(d *gedcom.Document) bool {
		for i, n := range d.Nodes() {
			if _, ok := n.(*gedcom.FamilyNode); ok {
				kept := append(gedcom.Nodes{}, d.Nodes()[:i]...)
				d.SetNodes(append(kept, d.Nodes()[i+1:]...))
				return true
			}
		}
		return false
	})
	add("doc.SetNodes(+individual I7)", "edit", func(d *gedcom.Document) bool {
		if root(d, "I7") != nil {
			return false
		}
		src := gedcom.NewDocument()
		who := gedcom.DeepCopy(src.AddIndividual("I7", gedcom.NewNameNode("Set /Seven/")), d)
		d.SetNodes(append(append(gedcom.Nodes{}, d.Nodes()...), who))
		return true
	})
	add("doc.AddNode(NOTE)", "edit", func(d *gedcom.Document) bool {
		d.AddNode(gedcom.NewNode(gedcom.TagNote, "root note", "N1"))
		return true
	})
	add("warm", "warm", func(d *gedcom.Document) bool { views(d); return true })
	add("Warnings", "read", func(d *gedcom.Document) bool { d.Warnings(); return true })
	add("String", "read", func(d *gedcom.Document) bool { _ = d.String(); return true })
	add("Compare(self)", "read", func(d *gedcom.Document) bool {
		d.Individuals().Compare(d.Individuals(), gedcom.NewIndividualNodesCompareOptions())
		return true
	})
	add("SurroundingSimilarity", "read", func(d *gedcom.Document) bool {
		is := d.Individuals()
		if len(is) < 1 {
			return false
		}
		is[0].SurroundingSimilarity(is[len(is)-1], gedcom.NewSimilarityOptions(), true)
		return true
	})
	add("CompareNodes+Sort", "read", func(d *gedcom.Document) bool {
		is := d.Individuals()
		if len(is) < 1 {
			return false
		}
		nd := gedcom.CompareNodes(is[0], is[len(is)-1])
		nd.Sort()
		_ = nd.String()
		// families too: their HUSB/WIFE/CHIL entries are nodes that know their family
		if fs := d.Families(); len(fs) > 0 {
			fd := gedcom.CompareNodes(fs[0], fs[len(fs)-1])
			fd.Sort()
			_ = fd.String()
		}
		return true
	})
	add("copy-out(DeepCopy,Filter,Flatten)", "read", func(d *gedcom.Document) bool {
		if len(d.Nodes()) == 0 {
			return false
		}
		other := gedcom.NewDocument()
		for _, n := range d.Nodes() {
			gedcom.DeepCopy(n, other)
			gedcom.Filter(n, other, func(n gedcom.Node) (gedcom.Node, bool) { return n, true })
			gedcom.Flatten(other, n)
			// every built-in filter (they inspect, drop and rewrite children of the nodes they are shown)
			for _, fn := range []gedcom.FilterFunction{
				gedcom.WhitelistTagFilter(gedcom.TagName, gedcom.TagIndividual, gedcom.TagFamily), gedcom.BlacklistTagFilter(gedcom.TagBirth),
				gedcom.OfficialTagFilter(), gedcom.SimpleNameFilter(gedcom.NameFormatGEDCOM), gedcom.OnlyVitalsTagFilter(),
				gedcom.RemoveEmptyDeathTagFilter(), gedcom.RemoveDuplicateNamesFilter(),
			} {
				gedcom.Filter(n, other, fn)
			}
		}
		return true
	})
	add("Publish", "read", func(d *gedcom.Document) bool {
		// hide and placeholder differ from show only when somebody is living
		viss := []html.LivingVisibility{html.LivingVisibilityShow}
		for _, i := range d.Individuals() {
			if i.IsLiving() {
				viss = append(viss, html.LivingVisibilityHide, html.LivingVisibilityPlaceholder)
				break
			}
		}
		for _, vis := range viss {
			opts := &html.PublishShowOptions{ShowIndividuals: true, ShowPlaces: true, ShowFamilies: true, ShowSurnames: true, ShowSources: true, ShowStatistics: true, LivingVisibility: vis}
			html.NewPublisher(d, opts).Publish(&memWriter{}, 1)
		}
		return true
	})
	// queries only read; grouped so that the operation alphabet stays small
	groups := map[string][]string{
		"accessors": {".Individuals | .Name | .String", ".Families | .Husband", "?", ".Individuals | { name: .Name | .String, born: .Birth | .String }"},
		"filters": {`.Nodes | Only(.Pointer != "I1") | .Pointer`, `.Families | Only(.Pointer = "F2") | .Pointer`, `.Individuals | Only(.Pointer != "I1") | .Families | Only(.Pointer != "F1")`,
			`.Individuals | .Spouses | Only(.Pointer = "I3")`, `.Nodes | First(1)`, `.Nodes | Last(1) | .Nodes | Only(.Value != "")`, `Combine(.Nodes, .Families) | Length`, `.Individuals | .Nodes | Only(.Value = "M")`},
	}
	for _, g := range []string{"accessors", "filters"} {
		qss := groups[g]
		add("queries("+g+")", "read", func(d *gedcom.Document) bool {
			for _, qs := range qss {
				eng, err := q.NewParser().ParseString(qs)
				if err != nil {
					panic("query does not parse: " + qs)
				}
				v, err := eng.Evaluate([]*gedcom.Document{d})
				if err == nil {
					(&q.JSONFormatter{Writer: discard{}}).Write(v)
				}
			}
			return true
		})
	}
	return out
}

// ---------- views ----------

func path(doc *gedcom.Document, n gedcom.Node) string {
	if gedcom.IsNil(n) {
		return "<nil>"
	}
	var find func(ns gedcom.Nodes, prefix string) string
	find = func(ns gedcom.Nodes, prefix string) string {
		for i, c := range ns {
			p := fmt.Sprintf("%s/%d", prefix, i)
			if c == n {
				return p
			}
			if r := find(c.Nodes(), p); r != "" {
				return r
			}
		}
		return ""
	}
	if p := find(doc.Nodes(), ""); p != "" {
		return p + ":" + n.Tag().Tag()
	}
	return "<detached " + n.GEDCOMLine(-1) + ">"
}

func safe(f func() string) (s string) {
	defer func() {
		if r := recover(); r != nil {
			s = "PANIC(" + vlib.MsgClass(fmt.Sprint(r)) + ")"
		}
	}()
	return f()
}

// views returns named view dumps of a document.
func views(doc *gedcom.Document) map[string]string {
	v := map[string]string{}
	ptrs := func(ns interface{}) string {
		var out []string
		rv := reflect.ValueOf(ns)
		for i := 0; i < rv.Len(); i++ {
			n, _ := rv.Index(i).Interface().(gedcom.Node)
			out = append(out, path(doc, n))
		}
		return strings.Join(out, ",")
	}
	v["Individuals"] = safe(func() string { return ptrs(doc.Individuals()) })
	v["Families"] = safe(func() string { return ptrs(doc.Families()) })
	v["Sources"] = safe(func() string { return ptrs(doc.Sources()) })
	v["Places"] = safe(func() string {
		var out []string
		for p, owner := range doc.Places() {
			out = append(out, path(doc, p)+"->"+path(doc, owner))
		}
		sort.Strings(out)
		return strings.Join(out, ",")
	})
	for _, p := range []string{"I1", "I2", "I3", "F1", "F2", "N1", "ZZ", ""} {
		p := p
		v["NodeByPointer("+p+")"] = safe(func() string { return path(doc, doc.NodeByPointer(p)) })
	}
	// NodesWithTag for every node and every tag among its children (plus one absent tag)
	var walk func(ns gedcom.Nodes)
	walk = func(ns gedcom.Nodes) {
		for _, n := range ns {
			n := n
			tags := map[string]bool{"NAME": true}
			for _, c := range n.Nodes() {
				tags[c.Tag().Tag()] = true
			}
			for t := range tags {
				t := t
				v["NodesWithTag("+path(doc, n)+","+t+")"] = safe(func() string { return ptrs(gedcom.NodesWithTag(n, gedcom.TagFromString(t))) })
			}
			walk(n.Nodes())
		}
	}
	walk(doc.Nodes())
	for _, ind := range doc.Individuals() {
		ind := ind
		k := "indi(" + path(doc, ind) + ")."
		v[k+"Names"] = safe(func() string {
			var out []string
			for _, n := range ind.Names() {
				out = append(out, n.String())
			}
			return strings.Join(out, "|")
		})
		v[k+"Name"] = safe(func() string { return gedcom.String(ind.Name()) })
		v[k+"Sex"] = safe(func() string { return ind.Sex().String() })
		v[k+"AllEvents"] = safe(func() string { return ptrs(ind.AllEvents()) })
		v[k+"Births"] = safe(func() string { return ptrs(ind.Births()) })
		v[k+"Birth"] = safe(func() string { d, _ := ind.Birth(); return path(doc, d) })
		v[k+"Families"] = safe(func() string { return ptrs(ind.Families()) })
		v[k+"Spouses"] = safe(func() string { return ptrs(ind.Spouses()) })
		v[k+"Parents"] = safe(func() string { return ptrs(ind.Parents()) })
		v[k+"Children"] = safe(func() string { return ptrs(ind.Children()) })
		v[k+"SpouseChildren"] = safe(func() string {
			var out []string
			for sp, ch := range ind.SpouseChildren() {
				out = append(out, path(doc, sp)+"=>"+ptrs(ch))
			}
			sort.Strings(out)
			return strings.Join(out, ";")
		})
		v[k+"UniqueIdentifiers"] = safe(func() string { return ind.UniqueIdentifiers().String() })
		v[k+"IsLiving"] = safe(func() string { return fmt.Sprint(ind.IsLiving()) })
	}
	for _, fam := range doc.Families() {
		fam := fam
		k := "fam(" + path(doc, fam) + ")."
		v[k+"Husband"] = safe(func() string { return path(doc, fam.Husband()) })
		v[k+"Wife"] = safe(func() string { return path(doc, fam.Wife()) })
		v[k+"HusbandIndividual"] = safe(func() string { return path(doc, fam.Husband().Individual()) })
		v[k+"WifeIndividual"] = safe(func() string { return path(doc, fam.Wife().Individual()) })
		v[k+"Children"] = safe(func() string { return ptrs(fam.Children()) })
		for _, ind := range doc.Individuals() {
			ind := ind
			v[k+"HasChild("+ind.Pointer()+")"] = safe(func() string { return fmt.Sprint(fam.HasChild(ind)) })
		}
	}
	return v
}

// opKind drops the arguments of an operation name.
func opKind(name string) string {
	if i := strings.Index(name, "("); i >= 0 {
		name = name[:i]
	}
	return name
}

// viewGroup maps a view to the cache family it is derived from.
func viewGroup(kind string) string {
	switch kind {
	case "indi.Families", "indi.Spouses", "indi.Parents", "indi.Children", "indi.SpouseChildren":
		return "individual-family-views"
	case "fam.Husband", "fam.Wife", "fam.HusbandIndividual", "fam.WifeIndividual":
		return "family-spouse-views"
	case "fam.Children", "fam.HasChild":
		return "family-children-views"
	case "NodesWithTag", "indi.Names", "indi.Name", "indi.Sex", "indi.AllEvents", "indi.Births", "indi.Birth", "indi.IsLiving", "indi.UniqueIdentifiers":
		return "children-by-tag-views"
	}
	return kind
}

func viewKind(name string) string {
	if i := strings.Index(name, ")."); i >= 0 {
		k := name[:strings.Index(name, "(")] + "." + name[i+2:]
		if j := strings.Index(k, "("); j >= 0 {
			k = k[:j]
		}
		return k
	}
	if i := strings.Index(name, "("); i >= 0 {
		return name[:i]
	}
	return name
}

// ---------- histories ----------

type kase struct {
	Initial string   `json:"initial"`
	Ops     []string `json:"ops"`
}

type result struct {
	sigs     [][2]string
	applied  bool
	stateKey string
}

type refEntry struct {
	views map[string]string
	doc   *gedcom.Document
}

var refCache = map[string]refEntry{}

func runHistory(initial string, hist []int, all []operation) (res result) {
	doc, err := gedcom.NewDocumentFromString(initials[initial])
	if err != nil {
		panic(err)
	}
	add := func(sig, what string) { res.sigs = append(res.sigs, [2]string{sig, what}) }
	var names []string
	for _, oi := range hist {
		names = append(names, all[oi].Name)
	}
	for step, oi := range hist {
		op := all[oi]
		before := ""
		if op.Kind != "edit" {
			before = doc.String()
		}
		ok := false
		if p, msg, frame := vlib.Try(func() { ok = op.Do(doc) }); p {
			if step == len(hist)-1 {
				add("panic:"+op.Name+":"+frame+":"+vlib.MsgClass(msg), fmt.Sprintf("history %v: %s panicked: %s", names, op.Name, msg))
			}
			return
		}
		if !ok {
			return
		}
		if op.Kind != "edit" && step == len(hist)-1 {
			if after := doc.String(); after != before {
				add("read-modifies-text:"+op.Name, fmt.Sprintf("history %v: the read-only operation %s changed the document's text\nbefore:\n%safter:\n%s", names, op.Name, before, after))
			}
		}
	}
	res.applied = true
	// the live views are taken BEFORE anything else is decoded: decoding adds nodes, and adding a node
	// drops the process-wide NodesWithTag cache, which would hide a stale entry of the live document
	live := views(doc)
	text := doc.String()
	res.stateKey = text
	// the views of a fresh decode are a function of the text alone: computed once per text and worker
	ent, hit := refCache[text]
	if !hit {
		fresh, derr := gedcom.NewDocumentFromString(text)
		if derr != nil {
			add("text-does-not-decode", fmt.Sprintf("history %v: the document's text does not decode: %v\n%s", names, derr, text))
			return
		}
		ent = refEntry{views(fresh), fresh}
		if len(refCache) > 30000 {
			refCache = map[string]refEntry{}
		}
		refCache[text] = ent
	}
	ref, fresh := ent.views, ent.doc
	last := "initial"
	if len(hist) > 0 {
		last = all[hist[len(hist)-1]].Name
	}
	var keys []string
	for k := range live {
		keys = append(keys, k)
	}
	for k := range ref {
		if _, ok := live[k]; !ok {
			keys = append(keys, k)
		}
	}
	sort.Strings(keys)
	seen := map[string]bool{}
	for _, k := range keys {
		if live[k] != ref[k] {
			sig := "stale:" + opKind(last) + ":" + viewGroup(viewKind(k))
			if !seen[sig] {
				seen[sig] = true
				add(sig, fmt.Sprintf("history %v: view %s is %q on the live document but %q on a fresh decode of its text\n%s", names, k, live[k], ref[k], text))
			}
		}
	}
	// equality reads children through the same caches: every record must be deep-equal to its
	// freshly decoded twin (same text), in both directions
	fr := fresh.Nodes()
	for i, n := range doc.Nodes() {
		if i >= len(fr) {
			break
		}
		ok := false
		vlib.Try(func() { ok = gedcom.DeepEqual(n, fr[i]) && gedcom.DeepEqual(fr[i], n) })
		if !ok {
			add("stale:"+opKind(last)+":deep-equality", fmt.Sprintf("history %v: record %d of the live document is not DeepEqual to the same record of a fresh decode of the document's own text\n%s", names, i, text))
			break
		}
	}
	return
}

func depth(tier string) int {
	if tier == "thorough" {
		return 4
	}
	return 3
}

func run(tier, unit string, r *vlib.Rec) {
	name, lo, hi := vlib.ParseChunk(unit)
	p := strings.Split(name, ":")
	initial := p[1]
	all := ops()
	D := depth(tier)
	if len(p) >= 3 { // "hist:<initial>:<depth>": the thorough tier runs the depth-3 units first, then depth 4
		D, _ = strconv.Atoi(p[2])
	}
	states := map[string]bool{}
	// unit = range of first operations; enumerate every history with that first operation up to depth D (DFS = BFS by replay here, all depths are visited)
	var rec func(hist []int)
	rec = func(hist []int) {
		if r.Expired() {
			r.Cap() // soft deadline: what was not explored is not claimed
			return
		}
		res := runHistory(initial, hist, all)
		r.Eval()
		r.Add("transitions", int64(len(hist)))
		if !res.applied && len(res.sigs) == 0 {
			r.Count("precondition-false")
			return
		}
		if len(hist) > 0 {
			r.Count("op:" + all[hist[len(hist)-1]].Name)
		}
		if res.applied {
			states[res.stateKey] = true
			if len(hist) >= 2 {
				r.Nontrivial(initial + "|" + fmt.Sprint(hist))
			}
		}
		var names []string
		for _, oi := range hist {
			names = append(names, all[oi].Name)
		}
		for _, s := range res.sigs {
			r.Fail(s[0], s[1], kase{Initial: initial, Ops: names})
		}
		if len(res.sigs) == 0 && r.WantSample() && len(hist) == D {
			r.Sample(kase{Initial: initial, Ops: names})
		}
		// a failing history is not extended: its extensions would blame a later
		// operation for the same root cause (the first counter-example is the shortest)
		if !res.applied || len(hist) == D || len(res.sigs) > 0 {
			if len(res.sigs) > 0 {
				r.Count("failing-history-not-extended")
			}
			return
		}
		for oi := range all {
			rec(append(append([]int{}, hist...), oi))
		}
	}
	if lo == 0 {
		rec(nil)
	}
	for first := lo; first < hi; first++ {
		rec([]int{int(first)})
	}
	for s := range states {
		r.NontrivialHash(hashString("state|" + s))
	}
	r.Add("distinct-texts", int64(len(states)))
}

func hashString(s string) uint64 {
	h := uint64(1469598103934665603)
	for i := 0; i < len(s); i++ {
		h = (h ^ uint64(s[i])) * 1099511628211
	}
	return h
}

func plan(tier string) []string {
	var out []string
	n := int64(len(ops()))
	for _, in := range initialNames {
		out = append(out, vlib.Chunks("hist:"+in, n, 1)...)
	}
	if tier == "thorough" {
		// the units above are the depth-3 ones (as in the quick tier); then one level deeper
		for i := range out {
			out[i] = strings.Replace(out[i], "hist:"+strings.Split(out[i], ":")[1], "hist:"+strings.Split(out[i], ":")[1]+":3", 1)
		}
		for _, in := range initialNames {
			out = append(out, vlib.Chunks("hist:"+in+":4", n, 1)...)
		}
	}
	return out
}

func replay(c json.RawMessage) (string, string) {
	var k kase
	json.Unmarshal(c, &k)
	all := ops()
	var hist []int
	for _, name := range k.Ops {
		for i, o := range all {
			if o.Name == name {
				hist = append(hist, i)
			}
		}
	}
	res := runHistory(k.Initial, hist, all)
	var sigs []string
	obs := fmt.Sprintf("initial %s history %v\n", k.Initial, k.Ops)
	for _, s := range res.sigs {
		sigs = append(sigs, s[0])
		obs += s[0] + ": " + s[1] + "\n"
	}
	return strings.Join(sigs, "\x1f"), obs
}

var _ = gen.Pow

func main() {
	vlib.Main(&vlib.Check{
		ID:    "C13",
		Level: "model_checking",
		Rule: "explicit-state search over operation histories of the real Document: from each of 5 initial documents every history of <=D operations (quick 3, thorough 4) over an alphabet of ~45 operation instances on the colliding pool {I1,I2,I3,F1,F2} (edits, 'warm' = call every view, read-only operations: Warnings, String, Compare, SurroundingSimilarity, CompareNodes+Sort, copy-out, Publish, queries) is replayed on a fresh document; histories whose API preconditions fail are cut. At the end of every history all derived views are compared with the same views on a fresh decode of the document's text, and a final read-only operation must leave the text unchanged. " +
			"states = distinct document texts reached; distinct_nontrivial additionally counts distinct histories of length >=2.",
		Assumptions: []string{
			"a state is the history that reaches it (live documents cannot be cloned; nodeCache is process-wide and keyed by identity); successor = replay on a fresh instance plus one operation",
			"views are compared as canonical text (paths, pointers, values), not identities; a view that panics on one side only is a difference",
			"intermediate states are judged by the shorter histories; views are only taken at the end so that cold caches stay reachable ('warm' is an explicit operation)",
			"no state deduplication (every history up to D is executed); no random long histories",
		},
		Plan:   plan,
		Run:    run,
		Replay: replay,
		Required: func(string) []string {
			req := []string{"transitions", "distinct-texts", "precondition-false"}
			for _, o := range ops() {
				req = append(req, "op:"+o.Name)
			}
			return req
		},
		Deadline: func(tier string) time.Duration {
			if tier == "thorough" {
				return 25 * time.Minute
			}
			return 10 * time.Minute
		},
		Finish: func(tier string, cov map[string]interface{}, c map[string]int64) {
			cov["states"] = c["distinct-texts"]
			cov["transitions"] = c["transitions"]
			cov["traces_validated_against_impl"] = cov["evaluations"]
			cov["depth_completed"] = depth(tier)
		},
	})
}
