package main

// The "gedcom diff" command line is the user's way into IndividualNodes.Compare: the flags must
// reach the comparison. Every flag combination of a small grid is run on the real binary (built
// from the current tree) and the pairs printed in the report's index table are compared with the
// library call under the options the flags document.

import (
	"fmt"
	"os"
	"os/exec"
	"path/filepath"
	"regexp"
	"sort"
	"strconv"
	"strings"
	"time"

	"github.com/elliotchance/gedcom/v39"
	"verif/harness/vlib"
)

var cliBinary = filepath.Join(vlib.VerifDir, ".build", "gedcom-bin-c11")

type cliDocs struct{ Name, Left, Right string }

var cliPairs = []cliDocs{
	{"shared-pointers", // same pointers: a near-identical pair, a similar pair and an unrelated pair; plus an identical person under another pointer
		indi("I1", "John /Smith/", "1 Jan 1900", "9 Sep 1970") + indi("I2", "Mary /Jones/", "5 May 1905", "1 Jan 1980") + indi("I3", "Peter /Brown/", "3 Mar 1850", "2 Feb 1920") + indi("I4", "Walter /Whitlock/", "4 Apr 1820", "4 Apr 1890"),
		indi("I1", "John /Smith/", "1 Jan 1902", "9 Sep 1971") + indi("I2", "Zed /Quux/", "7 Jul 1750", "8 Aug 1800") + indi("I7", "Mary /Jones/", "5 May 1905", "1 Jan 1980") + indi("I3", "Petra /Browne/", "3 Mar 1853", "2 Feb 1925")},
	{"disjoint-pointers",
		indi("A1", "John /Smith/", "1 Jan 1900", "9 Sep 1970") + indi("A2", "Mary /Jones/", "5 May 1905", "1 Jan 1980"),
		indi("B1", "Jon /Smyth/", "1 Jan 1901", "9 Sep 1970") + indi("B2", "Mary /Jones/", "5 May 1906", "") + indi("B3", "Zed /Quux/", "7 Jul 1750", "8 Aug 1800")},
	{"family",
		indi("I1", "John /Smith/", "1 Jan 1900", "9 Sep 1970", "1 FAMS @F1@") + indi("I2", "Mary /Jones/", "5 May 1905", "1 Jan 1980", "1 FAMS @F1@") + indi("I3", "Sam /Smith/", "3 Mar 1930", "2 Feb 1990", "1 FAMC @F1@") + "0 @F1@ FAM\n1 HUSB @I1@\n1 WIFE @I2@\n1 CHIL @I3@\n",
		indi("I1", "John /Smith/", "1 Jan 1900", "", "1 FAMS @F1@") + indi("I2", "Maria /Jones/", "5 May 1906", "", "1 FAMS @F1@") + indi("I3", "Samuel /Smith/", "3 Mar 1931", "", "1 FAMC @F1@") + "0 @F1@ FAM\n1 HUSB @I1@\n1 WIFE @I2@\n1 CHIL @I3@\n"},
}

type cliCase struct {
	Docs   int    `json:"docs"`
	PPA    string `json:"prefer_pointer_above"` // "" = flag not given
	MinSim string `json:"minimum_similarity"`
	MinW   string `json:"minimum_weighted_similarity"`
	Jobs   int    `json:"jobs"`
}

func cliCases() []cliCase {
	var out []cliCase
	for d := range cliPairs {
		for _, ppa := range []string{"", "0", "1", "0.9"} {
			for _, ms := range []string{"", "0", "0.3", "0.95", "1"} {
				for _, mw := range []string{"", "0", "0.3", "0.95", "1"} {
					for _, j := range []int{1, 2} {
						out = append(out, cliCase{d, ppa, ms, mw, j})
					}
				}
			}
		}
	}
	return out
}

var cliRow = regexp.MustCompile(`<tr><td[^>]*>(?:<a href="#([^"]*)"[^>]*>.*?</a>)?</td><td[^>]*>[^<]*</td><td[^>]*>(?:<a href="#([^"]*)"[^>]*>.*?</a>)?</td></tr>`)

func pairsOfReport(html string) ([]string, error) {
	i := strings.Index(html, `<h5 class="card-header">Individuals</h5>`)
	if i < 0 {
		return nil, fmt.Errorf("no index table in the report")
	}
	rest := html[i:]
	j := strings.Index(rest, "</table>")
	if j < 0 {
		return nil, fmt.Errorf("index table not closed")
	}
	var out []string
	for _, m := range cliRow.FindAllStringSubmatch(rest[:j], -1) {
		out = append(out, m[1]+"~"+m[2])
	}
	sort.Strings(out)
	return out, nil
}

func judgeCLI(c cliCase) (sig, what string) {
	d := cliPairs[c.Docs]
	dir, err := os.MkdirTemp("", "c11cli")
	if err != nil {
		panic(err)
	}
	defer os.RemoveAll(dir)
	lf, rf, of := filepath.Join(dir, "l.ged"), filepath.Join(dir, "r.ged"), filepath.Join(dir, "out.html")
	os.WriteFile(lf, []byte(d.Left), 0o644)
	os.WriteFile(rf, []byte(d.Right), 0o644)
	args := []string{"diff", "-left-gedcom", lf, "-right-gedcom", rf, "-output", of, "-jobs", strconv.Itoa(c.Jobs)}
	opts := gedcom.NewIndividualNodesCompareOptions()
	opts.Jobs = 1
	set := func(flag, v string, dst *float64) {
		if v != "" {
			args = append(args, flag, v)
			*dst, _ = strconv.ParseFloat(v, 64)
		}
	}
	set("-prefer-pointer-above", c.PPA, &opts.SimilarityOptions.PreferPointerAbove)
	set("-minimum-similarity", c.MinSim, &opts.SimilarityOptions.MinimumSimilarity)
	set("-minimum-weighted-similarity", c.MinW, &opts.SimilarityOptions.MinimumWeightedSimilarity)
	cmd := exec.Command(cliBinary, args...)
	done := make(chan struct{})
	var outb []byte
	var runErr error
	go func() { outb, runErr = cmd.CombinedOutput(); close(done) }()
	select {
	case <-done:
	case <-time.After(60 * time.Second):
		cmd.Process.Kill()
		<-done
		return "cli:diff-does-not-finish", fmt.Sprintf("gedcom %s did not finish within 60s", strings.Join(args, " "))
	}
	if runErr != nil {
		return "", "gedcom diff failed (C14's business): " + runErr.Error() + " " + string(outb)
	}
	rep, _ := os.ReadFile(of)
	got, perr := pairsOfReport(string(rep))
	if perr != nil {
		return "", "report not understood: " + perr.Error()
	}
	L, R := decode(d.Left), decode(d.Right)
	var want []string
	for _, cmp := range L.Individuals().Compare(R.Individuals(), opts) {
		l, r := "", ""
		if cmp.Left != nil {
			l = cmp.Left.Pointer()
		}
		if cmp.Right != nil {
			r = cmp.Right.Pointer()
		}
		want = append(want, l+"~"+r)
	}
	sort.Strings(want)
	if strings.Join(got, " ") != strings.Join(want, " ") {
		return "cli:report-differs-from-library-compare", fmt.Sprintf("gedcom %s\n reports the pairs   %v\n the library call with the documented meaning of those flags gives %v\n(documents: %s)", strings.Join(args[7:], " "), got, want, d.Name)
	}
	return "", fmt.Sprintf("pairs %v", got)
}

func runCLI(r *vlib.Rec, lo, hi int64) {
	cs := cliCases()
	for i := lo; i < hi; i++ {
		c := cs[i]
		r.Eval()
		r.Count("cli-runs")
		r.Enter(kase{CLI: &c})
		sig, what := judgeCLI(c)
		if strings.HasPrefix(what, "pairs ") {
			r.Count("cli-compared")
			r.Nontrivial(fmt.Sprintf("cli|%+v|%s", c, what))
		}
		if sig != "" {
			r.Fail(sig, what, kase{CLI: &c})
		}
	}
}
