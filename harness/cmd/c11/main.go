// C11 — matching individuals is a valid one-to-one matching on any schedule.
// The real IndividualNodes.Compare (instrumented by tools/vinstr) is run under
// the vsched cooperative scheduler on tiny colliding inputs; every schedule with
// at most d deviations from the default scheduler is explored and judged.
package main

import (
	"encoding/json"
	"fmt"
	"math"
	"os"
	"sort"
	"strconv"
	"strings"
	"time"

	"github.com/elliotchance/gedcom/v39"
	"github.com/elliotchance/gedcom/v39/vsched"
	"verif/harness/vlib"
)

// ---------- scenarios ----------

func indi(ptr, name, birth, death string, extra ...string) string {
	s := fmt.Sprintf("0 @%s@ INDI\n1 NAME %s\n", ptr, name)
	if birth != "" {
		s += "1 BIRT\n2 DATE " + birth + "\n"
	}
	if death != "" {
		s += "1 DEAT\n2 DATE " + death + "\n"
	}
	for _, e := range extra {
		s += e + "\n"
	}
	return s
}

const uidA = "1 _UID EE13561DDB204985BFFDEEBF82A5226C5B2E"
const uidB = "1 _UID AA13561DDB204985BFFDEEBF82A5226C5B2E"

type scenario struct {
	Name, Left, Right string
	What              string
	// the compared lists are the documents' individuals without the first LeftSkip / RightSkip ones
	// (lists that are only a part of their documents)
	LeftSkip, RightSkip int
}

// lists of a scenario from freshly decoded documents
func (sc scenario) lists() (gedcom.IndividualNodes, gedcom.IndividualNodes) {
	return decode(sc.Left).Individuals()[sc.LeftSkip:], decode(sc.Right).Individuals()[sc.RightSkip:]
}

var alice = func(p string, x ...string) string { return indi(p, "Alice /Archer/", "3 Mar 1801", "9 Sep 1870", x...) }
var boris = func(p string, x ...string) string {
	return indi(p, "Boris /Bellamy/", "17 Jul 1805", "1 Jan 1880", x...)
}
var clara = func(p string, x ...string) string {
	return indi(p, "Clara /Coombes/", "29 Nov 1830", "2 Feb 1899", x...)
}

var scenarios = []scenario{
	{"S0a", "", "", "both sides empty", 0, 0},
	{"S0b", "", alice("I1") + boris("I2"), "left empty", 0, 0},
	{"S0c", alice("I1") + boris("I2"), "", "right empty", 0, 0},
	{"S1", alice("I1"), alice("I1"), "one pointer job through all four stages", 0, 0},
	{"S2", alice("I1") + boris("I2"), alice("I1") + boris("I2"), "two pointer jobs from two workers; sentA/sentB; adjustTotal under the mutex while collectResults polls", 0, 0},
	{"S3", alice("I1") + boris("I2"), alice("J1") + boris("J2"), "four matrix jobs shared between workers; arrival order on results; tie-free", 0, 0},
	{"S4", alice("I1", uidA) + boris("I2", uidB), boris("J1", uidB) + alice("J2", uidA), "unique-id jobs; lazily built cachedUniqueIDs read by several workers", 0, 0},
	{"S5", alice("I1", uidA) + indi("I2", "Alicia /Archer/", "3 Mar 1801", "9 Sep 1870", uidA), alice("J1", uidA), "two left individuals carry the _UID of one right individual", 0, 0},
	{"S6", alice("I1") + alice("I2"), alice("J1") + alice("J2"), "identical twins: ties on score", 0, 0},
	{"S7", alice("I1", uidA) + boris("I2") + clara("I3"), alice("J1", uidA) + boris("I2") + clara("J3"), "unique-id, pointer and matrix candidates in one run", 0, 0},
	{"S8",
		alice("I1", "1 FAMS @F1@") + boris("I2", "1 FAMS @F1@") + clara("I3", "1 FAMC @F1@") + "0 @F1@ FAM\n1 HUSB @I2@\n1 WIFE @I1@\n1 CHIL @I3@\n",
		alice("J1", "1 FAMS @G1@") + boris("J2", "1 FAMS @G1@") + clara("J3", "1 FAMC @G1@") + "0 @G1@ FAM\n1 HUSB @J2@\n1 WIFE @J1@\n1 CHIL @J3@\n",
		"families on both sides: Document.Families, FamilyNode.Husband/Wife, IndividualNode.Families/Spouses, DateNode caches touched by several workers", 0, 0},
	{"S9", alice("I1") + alice("I1"), alice("I1"), "two left individuals with the same pointer: check-then-act on sentB between pointer workers", 0, 0},
	{"S10",
		indi("I1", "Alice /Archer/", "3 Mar 1801", "", uidA) + indi("I2", "Boris /Bellamy/", "17 Jul 1805", "", uidB) + indi("I3", "Clara /Coombes/", "29 Nov 1830", "", "1 _UID CC13561DDB204985BFFDEEBF82A5226C5B2E"),
		indi("J1", "Xavier /Quill/", "1 Jan 1900", "", uidA) + indi("J2", "Yolanda /Rook/", "2 Feb 1910", "", uidB) + indi("J3", "Zed /Stone/", "3 Mar 1920", "", "1 _UID CC13561DDB204985BFFDEEBF82A5226C5B2E"),
		"three pairs that match by unique identifier only (names and dates are far apart): every left individual must be visited by the unique-id stage whatever Jobs is", 0, 0},
	{"S11",
		indi("P1", "Alice /Archer/", "3 Mar 1801", "") + indi("P2", "Boris /Bellamy/", "17 Jul 1805", "") + indi("P3", "Clara /Coombes/", "29 Nov 1830", ""),
		indi("P1", "Alice /Archer/", "3 Mar 1802", "") + indi("P2", "Boris /Bellamy/", "17 Jul 1806", "") + indi("P3", "Clara /Coombes/", "29 Nov 1831", ""),
		"three pairs with equal pointers and a one-year date difference: the pointer stage must visit every left individual", 0, 0},
	{"S12",
		indi("P1", "Alice /Archer/", "3 Mar 1801", "") + indi("P2", "Boris /Bellamy/", "17 Jul 1805", ""),
		indi("P1", "Alice /Archer/", "3 Mar 1802", "") + indi("Q2", "Boris /Bellamy/", "17 Jul 1806", "") + indi("Q3", "Clara /Coombes/", "29 Nov 1831", ""),
		"the right list is only a part of its document: the right document's P1 (same pointer as left P1, similar) is NOT in the list and must not be matched", 0, 1},
	{"S14",
		indi("P1", "Alice /Archer/", "3 Mar 1801", "", uidA) + indi("P9", "Boris /Bellamy/", "17 Jul 1805", ""),
		indi("P7", "Xavier /Quill/", "1 Jan 1900", "", uidA) + indi("P1", "Alice /Archer/", "3 Mar 1802", ""),
		"unique identifier and pointer disagree: left P1 shares its _UID with right P7 and its (trusted) pointer with right P1; the unique-id stage has to be finished before the pointer stage looks at what was sent", 0, 0},
	{"S15",
		indi("I1", "Alice /Archer/", "3 Mar 1801", "9 Sep 1870"),
		indi("J1", "Alice /Archer/", "13 Mar 1802", "9 Sep 1870") + indi("J2", "Alice /Archer/", "3 Mar 1802", "9 Sep 1870"),
		"two candidates for one left individual whose scores differ only in the third decimal (0.9432 and 0.9444): no tie, the result must not depend on the order of arrival", 0, 0},
	{"S16",
		alice("I1", "1 FAMS @F1@") + boris("I2", "1 FAMS @F2@") + clara("I3", "1 FAMC @F1@", "1 FAMC @F2@") + "0 @F1@ FAM\n1 WIFE @I1@\n1 CHIL @I3@\n0 @F2@ FAM\n1 HUSB @I2@\n1 CHIL @I3@\n1 CHIL @N1@\n0 @N1@ NOTE not a person\n",
		alice("J1", "1 FAMS @G1@") + boris("J2", "1 FAMS @G2@") + clara("J3", "1 FAMC @G1@", "1 FAMC @G2@") + "0 @G1@ FAM\n1 WIFE @J1@\n1 CHIL @J3@\n0 @G2@ FAM\n1 HUSB @J2@\n1 CHIL @J3@\n1 CHIL @M1@\n0 @M1@ NOTE not a person\n",
		"incomplete and odd families: one without a husband, one without a wife (the 'nobody there' branches of the cached Husband()/Wife()), and a CHIL line that points to a NOTE record", 0, 0},
	{"S17",
		alice("I1", uidA) + indi("I2", "Alicia /Archer/", "5 Mar 1803", "11 Sep 1872", uidA) + boris("I3"),
		alice("J1", uidA) + indi("J2", "Alicia /Archer/", "5 Mar 1803", "11 Sep 1874") + indi("J3", "Boris /Bellamy/", "17 Jul 1805", "1 Jan 1885"),
		"a tie next to ordinary candidates: two left individuals carry the _UID of right J1; the loser's namesake J2 (no identifier) and an unrelated pair are decided by score (the scores differ: no other tie). Which of the two gets J1 may depend on the schedule, the rest may not", 0, 0},
	{"S13",
		indi("X0", "Zed /Quux/", "1 Jan 1700", "") + indi("P1", "Alice /Archer/", "3 Mar 1801", "", uidA) + indi("P2", "Boris /Bellamy/", "17 Jul 1805", ""),
		indi("P1", "Alice /Archer/", "3 Mar 1802", "", uidA) + indi("P2", "Boris /Bellamy/", "17 Jul 1806", ""),
		"the left list is only a part of its document (its first individual is left out); pointer and unique-id pairs among the rest", 1, 0},
}

type config struct {
	Scenario string  `json:"scenario"`
	Jobs     int     `json:"jobs"`
	MinWS    float64 `json:"min_ws"` // -1 = default
	PPA      float64 `json:"ppa"`    // -1 = default
	CapScale int     `json:"cap_scale"`
	MapRev   bool    `json:"map_reverse"`
	Base     string  `json:"base"`
	Bound    int     `json:"bound"`
	FullMaps bool    `json:"full_maps,omitempty"`
	Cost     string  `json:"cost,omitempty"`
}

func (c config) options() *gedcom.IndividualNodesCompareOptions {
	o := gedcom.NewIndividualNodesCompareOptions()
	o.Jobs = c.Jobs
	if c.MinWS >= 0 {
		o.SimilarityOptions.MinimumWeightedSimilarity = c.MinWS
	}
	if c.PPA >= 0 {
		o.SimilarityOptions.PreferPointerAbove = c.PPA
	}
	return o
}

func scen(name string) scenario {
	for _, s := range scenarios {
		if s.Name == name {
			return s
		}
	}
	panic("unknown scenario " + name)
}

func decode(text string) *gedcom.Document {
	d, err := gedcom.NewDocumentFromString(text)
	if err != nil {
		panic(err)
	}
	return d
}

// ---------- observation ----------

type triple struct {
	L, R int // index into the input lists, -1 = none
	WS   float64
}

type observation struct {
	Triples []triple
	Order   string
	Invalid string // first structural problem
}

func observe(res gedcom.IndividualComparisons, L, R gedcom.IndividualNodes) observation {
	var o observation
	idx := func(list gedcom.IndividualNodes, n *gedcom.IndividualNode) int {
		for i, x := range list {
			if x == n {
				return i
			}
		}
		return -2
	}
	lc, rc := make([]int, len(L)), make([]int, len(R))
	var order []string
	for _, c := range res {
		t := triple{-1, -1, 0}
		if c == nil {
			o.Invalid = "nil comparison in the result"
			continue
		}
		if c.Left != nil {
			t.L = idx(L, c.Left)
			if t.L == -2 {
				o.Invalid = "result holds a left node that is not in the left input"
				continue
			}
			lc[t.L]++
		}
		if c.Right != nil {
			t.R = idx(R, c.Right)
			if t.R == -2 {
				o.Invalid = "result holds a right node that is not in the right input"
				continue
			}
			rc[t.R]++
		}
		if c.Left == nil && c.Right == nil {
			o.Invalid = "result entry empty on both sides"
		}
		if c.Left != nil && c.Right != nil {
			if c.Similarity == nil {
				o.Invalid = "paired result without a similarity"
			} else {
				t.WS = c.Similarity.WeightedSimilarity()
			}
		}
		o.Triples = append(o.Triples, t)
		order = append(order, fmt.Sprintf("%d:%d", t.L, t.R))
	}
	for i, n := range lc {
		if n != 1 && o.Invalid == "" {
			o.Invalid = fmt.Sprintf("left individual %d appears in %d results", i, n)
		}
	}
	for i, n := range rc {
		if n != 1 && o.Invalid == "" {
			o.Invalid = fmt.Sprintf("right individual %d appears in %d results", i, n)
		}
	}
	sort.Slice(o.Triples, func(i, j int) bool {
		a, b := o.Triples[i], o.Triples[j]
		if a.L != b.L {
			return a.L < b.L
		}
		return a.R < b.R
	})
	o.Order = strings.Join(order, " ")
	return o
}

func (o observation) key() string {
	var sb strings.Builder
	for _, t := range o.Triples {
		fmt.Fprintf(&sb, "%d-%d@%.9f ", t.L, t.R, t.WS)
	}
	return sb.String()
}

// ---------- sequential facts about a scenario (computed with the scheduler inactive) ----------

type facts struct {
	nL, nR        int
	uid           [][]bool
	samePtr       [][]bool
	forcedWS      [][]float64
	unforcedWS    [][]float64
	tieFree       bool
	ref           observation
	whyNotTieFree string
	// tied[i][j]: the pair is a member of a tie (a certain pair competing with another certain pair of its kind
	// for one individual, a pair with an individual whose pointer occurs twice in its list, a candidate whose
	// score ties with another candidate's)
	tied [][]bool
}

// tieKey: how an observation resolves the ties - which of the tied pairs it holds.
func (f *facts) tieKey(o observation) string {
	var sb strings.Builder
	for _, t := range o.Triples {
		if t.L >= 0 && t.R >= 0 && f.tied[t.L][t.R] {
			fmt.Fprintf(&sb, "%d-%d ", t.L, t.R)
		}
	}
	return sb.String()
}

// computeFactsSafely: the similarity calls and the sequential reference run are calls into the code under test;
// a panic there is a finding, not a harness failure.
func computeFactsSafely(c config) (f facts, panicked string) {
	if p, msg, _ := vlib.Try(func() { f = computeFacts(c) }); p {
		return f, msg
	}
	return f, ""
}

func computeFacts(c config) facts {
	sc := scen(c.Scenario)
	opt := c.options().SimilarityOptions
	var f facts
	L, R := sc.lists()
	f.nL, f.nR = len(L), len(R)
	mk := func() [][]float64 {
		m := make([][]float64, f.nL)
		for i := range m {
			m[i] = make([]float64, f.nR)
		}
		return m
	}
	f.forcedWS, f.unforcedWS = mk(), mk()
	f.uid, f.samePtr = make([][]bool, f.nL), make([][]bool, f.nL)
	for i := range L {
		f.uid[i], f.samePtr[i] = make([]bool, f.nR), make([]bool, f.nR)
		for j := range R {
			// fresh documents for every pair so that lazily filled caches cannot couple the evaluations
			ll, rr := sc.lists()
			l, r := ll[i], rr[j]
			f.uid[i][j] = l.UniqueIdentifiers().Intersects(r.UniqueIdentifiers())
			f.samePtr[i][j] = l.Pointer() == r.Pointer()
			f.forcedWS[i][j] = l.SurroundingSimilarity(r, opt, true).WeightedSimilarity()
			ll2, rr2 := sc.lists()
			l2, r2 := ll2[i], rr2[j]
			f.unforcedWS[i][j] = l2.SurroundingSimilarity(r2, opt, false).WeightedSimilarity()
		}
	}
	// tie-freeness
	f.tieFree = true
	certain := func(i, j int) bool {
		return f.uid[i][j] || (f.samePtr[i][j] && f.forcedWS[i][j] >= opt.PreferPointerAbove)
	}
	// Certain matches tie only within their kind: the unique-identifier stage runs (and is finished) before
	// the pointer stage, so an individual with one partner by identifier and another by pointer is decided
	// - the identifier wins - and the result must still equal the sequential one.
	byPtr := func(i, j int) bool {
		return !f.uid[i][j] && f.samePtr[i][j] && f.forcedWS[i][j] >= opt.PreferPointerAbove
	}
	rUID, rPtr := make([]int, f.nR), make([]int, f.nR)
	for i := 0; i < f.nL; i++ {
		nu, np := 0, 0
		for j := 0; j < f.nR; j++ {
			if f.uid[i][j] {
				nu++
				rUID[j]++
			}
			if byPtr(i, j) {
				np++
				rPtr[j]++
			}
		}
		if nu > 1 || (nu == 0 && np > 1) {
			f.tieFree, f.whyNotTieFree = false, "a left individual has two certain partners of one kind"
		}
	}
	for j := range rUID {
		if rUID[j] > 1 || (rUID[j] == 0 && rPtr[j] > 1) {
			f.tieFree, f.whyNotTieFree = false, "a right individual is the certain partner of two left individuals (one kind)"
		}
	}
	// duplicate pointers inside one list make ByPointer ambiguous
	for _, list := range []gedcom.IndividualNodes{L, R} {
		seen := map[string]bool{}
		for _, n := range list {
			if seen[n.Pointer()] {
				f.tieFree, f.whyNotTieFree = false, "duplicate pointer inside one list"
			}
			seen[n.Pointer()] = true
		}
	}
	var scores []float64
	for i := 0; i < f.nL; i++ {
		for j := 0; j < f.nR; j++ {
			if !certain(i, j) && f.unforcedWS[i][j] >= opt.MinimumWeightedSimilarity {
				scores = append(scores, f.unforcedWS[i][j])
			}
		}
	}
	sort.Float64s(scores)
	for k := 1; k < len(scores); k++ {
		if scores[k]-scores[k-1] < 1e-9 {
			f.tieFree, f.whyNotTieFree = false, "two candidate pairs tie on score"
		}
	}
	// the members of the ties
	f.tied = make([][]bool, f.nL)
	for i := range f.tied {
		f.tied[i] = make([]bool, f.nR)
	}
	lUID, lPtr := make([]int, f.nL), make([]int, f.nL)
	for i := 0; i < f.nL; i++ {
		for j := 0; j < f.nR; j++ {
			if f.uid[i][j] {
				lUID[i]++
			}
			if byPtr(i, j) {
				lPtr[i]++
			}
		}
	}
	dup := func(list gedcom.IndividualNodes) []bool {
		n := map[string]int{}
		for _, x := range list {
			n[x.Pointer()]++
		}
		out := make([]bool, len(list))
		for i, x := range list {
			out[i] = n[x.Pointer()] > 1
		}
		return out
	}
	dupL, dupR := dup(L), dup(R)
	for i := 0; i < f.nL; i++ {
		for j := 0; j < f.nR; j++ {
			switch {
			case f.uid[i][j] && (lUID[i] > 1 || rUID[j] > 1):
				f.tied[i][j] = true
			case byPtr(i, j) && (lPtr[i] > 1 || rPtr[j] > 1):
				f.tied[i][j] = true
			case dupL[i] || dupR[j]:
				f.tied[i][j] = true
			}
			if !certain(i, j) && f.unforcedWS[i][j] >= opt.MinimumWeightedSimilarity {
				for i2 := 0; i2 < f.nL; i2++ {
					for j2 := 0; j2 < f.nR; j2++ {
						if (i2 != i || j2 != j) && !certain(i2, j2) && math.Abs(f.unforcedWS[i2][j2]-f.unforcedWS[i][j]) < 1e-9 {
							f.tied[i][j] = true
						}
					}
				}
			}
		}
	}
	// reference execution: one job, no scheduler
	rc := c
	rc.Jobs = 1
	l, r := sc.lists()
	f.ref = observe(l.Compare(r, rc.options()), l, r)
	return f
}

// judge one execution.
func judge(c config, f *facts, out *vsched.Outcome, obs observation, returned bool) (sigs [][2]string) {
	add := func(sig, what string) { sigs = append(sigs, [2]string{sig, what}) }
	opt := c.options().SimilarityOptions
	switch {
	case out.Diverged != "":
		add("INTERNAL:replay-diverged", out.Diverged)
		return
	case out.Horizon:
		add("INTERNAL:horizon", "execution exceeded the step horizon")
		return
	case out.Deadlock:
		add("deadlock", "no thread can run and Compare has not returned; parked: "+strings.Join(out.Leaked, "; "))
	case out.Livelock:
		add("livelock", "only the polling loop is left and nothing can make progress; parked: "+strings.Join(out.Leaked, "; "))
	case out.DriverPanic != "":
		add("panic:driver:"+vlib.MsgClass(out.DriverPanic), out.DriverPanic)
	}
	for _, p := range out.ThreadPanics {
		add("panic:worker:"+vlib.MsgClass(p), p)
	}
	for _, r := range out.Races {
		add("race:"+r.Var, r.String())
	}
	if !returned {
		return
	}
	if len(out.Leaked) > 0 {
		add("goroutine-left-behind", strings.Join(out.Leaked, "; "))
	}
	if obs.Invalid != "" {
		sig := "invalid-matching"
		// known predicate: two left individuals share a unique identifier with one right individual
		for j := 0; j < f.nR; j++ {
			n := 0
			for i := 0; i < f.nL; i++ {
				if f.uid[i][j] {
					n++
				}
			}
			if n > 1 && strings.HasPrefix(obs.Invalid, "right individual") {
				sig += ":shared-uid"
			}
		}
		add(sig, obs.Invalid+" — result order "+obs.Order)
		return
	}
	for _, t := range obs.Triples {
		if t.L < 0 || t.R < 0 {
			continue
		}
		ok := f.uid[t.L][t.R] || (f.samePtr[t.L][t.R] && f.forcedWS[t.L][t.R] >= opt.PreferPointerAbove) ||
			(t.WS >= opt.MinimumWeightedSimilarity && math.Abs(t.WS-f.unforcedWS[t.L][t.R]) < 1e-9)
		if !ok {
			add("unjustified-pair", fmt.Sprintf("left %d paired with right %d at %.6f: no shared identifier, no trusted pointer, threshold %.3f, sequential score %.6f", t.L, t.R, t.WS, opt.MinimumWeightedSimilarity, f.unforcedWS[t.L][t.R]))
		}
	}
	if f.tieFree && obs.key() != f.ref.key() {
		add("differs-from-sequential-result", fmt.Sprintf("tie-free input but matching %s differs from the sequential %s", obs.key(), f.ref.key()))
	}
	// With ties the result may depend on which of the tied pairs wins, and on nothing else: an execution that
	// resolves every tie the way the sequential run does must give the sequential result.
	if !f.tieFree && obs.key() != f.ref.key() && f.tieKey(obs) == f.tieKey(f.ref) {
		add("differs-from-sequential-result:same-tie-resolution", fmt.Sprintf("the ties (%s) are resolved as in the sequential run (tied pairs held: %q) but matching %s differs from the sequential %s", f.whyNotTieFree, f.tieKey(obs), obs.key(), f.ref.key()))
	}
	return
}

// one execution of the scenario under a schedule
func execute(c config, devs []vsched.Dev) (*vsched.Outcome, observation, bool) {
	sc := scen(c.Scenario)
	L, R := sc.lists()
	opts := c.options()
	var res gedcom.IndividualComparisons
	returned := false
	out := vsched.Run(vsched.Config{Prefix: vsched.PrefixOf(devs), Base: c.Base, MapOrderReverse: c.MapRev, CapScale: c.CapScale, FullMaps: c.FullMaps, Horizon: 100000}, func() {
		res = L.Compare(R, opts)
		returned = true
	})
	var obs observation
	if returned {
		obs = observe(res, L, R)
	}
	return out, obs, returned
}

// ---------- plan ----------

const shards = 8

func configs(tier string) []config {
	var out []config
	add := func(c config) { out = append(out, c) }
	d := 2
	if tier == "thorough" {
		d = 3
	}
	for _, s := range scenarios {
		small := strings.HasPrefix(s.Name, "S0") || s.Name == "S1"
		// the scenarios with three individuals a side have about twice the scheduling points of the others
		// (every cached accessor takes its object's mutex): their main configuration gets one deviation
		// less in the quick tier
		big := s.Name == "S7" || s.Name == "S8" || s.Name == "S10" || s.Name == "S11" || s.Name == "S16"
		b := d
		if big && tier != "thorough" {
			b = d - 1
		}
		if small && tier == "thorough" && s.Name != "S1" {
			b = d + 1
		} else if small {
			b = d
		}
		// main configuration: two workers per stage, default options
		add(config{Scenario: s.Name, Jobs: 2, MinWS: -1, PPA: -1, Base: "low", Bound: b})
		// everything else at one deviation less
		for _, jobs := range []int{0, 1, 3} {
			add(config{Scenario: s.Name, Jobs: jobs, MinWS: -1, PPA: -1, Base: "low", Bound: d - 1})
		}
		for _, mw := range []float64{0, 1} {
			add(config{Scenario: s.Name, Jobs: 2, MinWS: mw, PPA: -1, Base: "low", Bound: d - 1})
		}
		for _, pp := range []float64{0, 1} {
			add(config{Scenario: s.Name, Jobs: 2, MinWS: -1, PPA: pp, Base: "low", Bound: d - 1})
		}
		add(config{Scenario: s.Name, Jobs: 2, MinWS: -1, PPA: -1, CapScale: 1, Base: "low", Bound: d - 1})
		add(config{Scenario: s.Name, Jobs: 2, MinWS: -1, PPA: -1, MapRev: true, Base: "low", Bound: d - 1})
		add(config{Scenario: s.Name, Jobs: 2, MinWS: -1, PPA: -1, Base: "high", Bound: d - 1})
		add(config{Scenario: s.Name, Jobs: 2, MinWS: -1, PPA: -1, Base: "rr", Bound: d - 1})
		if tier == "thorough" {
			add(config{Scenario: s.Name, Jobs: 1, MinWS: -1, PPA: -1, Base: "low", Bound: d})
			add(config{Scenario: s.Name, Jobs: 8, MinWS: -1, PPA: -1, Base: "low", Bound: d - 1})
			add(config{Scenario: s.Name, Jobs: 16, MinWS: -1, PPA: -1, Base: "low", Bound: d - 2})
			add(config{Scenario: s.Name, Jobs: 2, MinWS: -1, PPA: -1, Base: "low", Bound: 1, Cost: "preempt"})
		}
	}
	if only := os.Getenv("C11_ONLY"); only != "" {
		var f []config
		for _, c := range out {
			if c.Scenario == only {
				f = append(f, c)
			}
		}
		return f
	}
	// full-map mode (every nodeCache / pointerCache operation is a scheduling point) on the smallest scenarios
	for _, n := range []string{"S1", "S2"} {
		add(config{Scenario: n, Jobs: 2, MinWS: -1, PPA: -1, Base: "low", Bound: 1, FullMaps: true})
	}
	return out
}

func plan(tier string) []string {
	var out []string
	for i, c := range configs(tier) {
		n := shards
		if c.Bound <= 1 {
			n = 1
		}
		for s := 0; s < n; s++ {
			out = append(out, fmt.Sprintf("cfg:%d:%d:%d", i, s, n))
		}
	}
	out = append(out, vlib.Chunks("cli", int64(len(cliCases())), 12)...)
	return out
}

type kase struct {
	Config config       `json:"config"`
	Devs   []vsched.Dev `json:"schedule"`
	Desc   []string     `json:"trace,omitempty"`
	CLI    *cliCase     `json:"cli,omitempty"` // a command-line case instead of a schedule
}

func run(tier, unit string, r *vlib.Rec) {
	if strings.HasPrefix(unit, "cli:") {
		_, lo, hi := vlib.ParseChunk(unit)
		runCLI(r, lo, hi)
		return
	}
	p := strings.Split(unit, ":")
	ci, _ := strconv.Atoi(p[1])
	shard, _ := strconv.Atoi(p[2])
	nsh, _ := strconv.Atoi(p[3])
	c := configs(tier)[ci]
	f, fp := computeFactsSafely(c)
	if fp != "" {
		r.Eval()
		r.Fail("panic:sequential:"+vlib.MsgClass(fp), fmt.Sprintf("%s [%s]: scoring the pairs one by one / the sequential Compare panicked: %s", c.Scenario, scen(c.Scenario).What, fp), kase{Config: c})
		return
	}
	// replay determinism: the default schedule twice
	a, oa, _ := execute(c, nil)
	b, ob, _ := execute(c, nil)
	if a.TraceHash != b.TraceHash || oa.key() != ob.key() || len(a.Points) != len(b.Points) {
		r.Err = fmt.Sprintf("replay of the default schedule diverged for %+v: %x/%d points vs %x/%d points", c, a.TraceHash, len(a.Points), b.TraceHash, len(b.Points))
		return
	}
	outcomes := map[string]bool{}
	states := map[uint64]bool{}
	var accesses int64
	st := vsched.Explore(vsched.ExploreOpts{Bound: c.Bound, Cost: c.Cost, Shard: shard, Shards: nsh, Deadline: r.DeadlineTime()},
		func(devs []vsched.Dev) *vsched.Outcome {
			out, obs, ret := execute(c, devs)
			lastObs, lastRet = obs, ret
			return out
		},
		func(devs []vsched.Dev, out *vsched.Outcome) bool {
			r.Eval()
			states[out.TraceHash] = true
			accesses += out.Accesses
			outcomes[lastObs.key()+lastObs.Invalid] = true
			for _, s := range judge(c, &f, out, lastObs, lastRet) {
				if strings.HasPrefix(s[0], "INTERNAL:") {
					r.Err = s[0] + ": " + s[1]
					return false
				}
				var desc []string
				for _, pt := range out.Points {
					desc = append(desc, pt.Desc)
				}
				if len(desc) > 400 {
					desc = desc[:400]
				}
				r.Fail(s[0], fmt.Sprintf("%s [%s] jobs=%d: %s", c.Scenario, scen(c.Scenario).What, c.Jobs, s[1]), kase{Config: c, Devs: append([]vsched.Dev{}, devs...), Desc: nil})
			}
			if r.WantSample() && len(devs) == c.Bound && c.Bound > 0 {
				r.Sample(map[string]interface{}{"config": c, "schedule_deviations": devs, "points": len(out.Points), "threads": out.Threads, "matching": lastObs.key(), "order": lastObs.Order})
			}
			return true
		})
	if st.Capped {
		r.Cap()
	}
	for h := range states {
		r.NontrivialHash(h)
	}
	r.Add("transitions", st.Transitions)
	r.Add("accesses-monitored", accesses)
	r.Max("max-scheduling-points", int64(st.MaxPoints))
	r.Max("max-threads", int64(st.MaxThreads))
	r.Add("distinct-outcomes:"+c.Scenario, int64(len(outcomes)))
	r.Add(fmt.Sprintf("executions:%s:jobs=%d:bound=%d", c.Scenario, c.Jobs, c.Bound), st.Executions)
	r.Count("scenario:" + c.Scenario)
	r.Count(fmt.Sprintf("jobs:%d", c.Jobs))
	for k, n := range st.ByCost {
		r.Add(fmt.Sprintf("executions-with-%d-deviations", k), n)
	}
	if !f.tieFree {
		r.Count("not-tie-free:" + c.Scenario)
	} else {
		r.Count("tie-free:" + c.Scenario)
	}
	if len(vsched.QuietViolations) > 0 {
		r.Err = "quiet-map side condition broken: " + strings.Join(vsched.QuietViolations, "; ")
	}
}

var lastObs observation
var lastRet bool

func replay(cs json.RawMessage) (string, string) {
	var k kase
	json.Unmarshal(cs, &k)
	if k.CLI != nil {
		return judgeCLI(*k.CLI)
	}
	f, fp := computeFactsSafely(k.Config)
	if fp != "" {
		return "panic:sequential:" + vlib.MsgClass(fp), fp
	}
	out, obs, ret := execute(k.Config, k.Devs)
	var sigs []string
	obsText := fmt.Sprintf("config %+v\nschedule deviations %v\npoints=%d threads=%d returned=%v matching=%s order=%s\n", k.Config, k.Devs, len(out.Points), out.Threads, ret, obs.key(), obs.Order)
	for i, p := range out.Points {
		if i < 300 {
			obsText += fmt.Sprintf("  %3d %s (alternatives %d, chosen %d)\n", i, p.Desc, len(p.Enabled), p.Chosen)
		}
	}
	for _, s := range judge(k.Config, &f, out, obs, ret) {
		sigs = append(sigs, s[0])
		obsText += s[0] + ": " + s[1] + "\n"
	}
	return strings.Join(sigs, "\x1f"), obsText
}

// raceCross: cross-validation only (never decides the property). The scenarios are run FREE (no
// scheduler, hooks inactive) a number of times with several jobs in a binary built with the Go race
// detector (tools/racecross.sh); the detector's reports are compared with the variables the
// happens-before monitor reports, to see that the monitor does not overlook a racing variable.
func raceCross(n int) {
	for _, sc := range scenarios {
		for _, jobs := range []int{2, 3, 8} {
			for i := 0; i < n; i++ {
				L, R := sc.lists()
				o := gedcom.NewIndividualNodesCompareOptions()
				o.Jobs = jobs
				L.Compare(R, o)
			}
		}
	}
	fmt.Println("racecross done")
}

func main() {
	if len(os.Args) == 3 && os.Args[1] == "--racecross" {
		n, _ := strconv.Atoi(os.Args[2])
		raceCross(n)
		return
	}
	vlib.MaxCounter("max-scheduling-points")
	vlib.MaxCounter("max-threads")
	vlib.Main(&vlib.Check{
		ID:    "C11",
		Level: "model_checking",
		Rule: "executions of the real, instrumented IndividualNodes.Compare under the vsched cooperative scheduler: for every scenario (20 tiny colliding input pairs, two of them with lists that are only a part of their documents) x configuration (Jobs, thresholds, channel capacity 1, sync.Map range order, base scheduler) every schedule with at most d deviations from the default scheduler (delay bounding; d per configuration) is run to completion and judged: termination, valid one-to-one matching, justified pairs, equality with the sequential result when tie-free (with ties: whenever the ties are resolved as in the sequential run), vector-clock data-race monitor. " +
			"states = distinct global operation traces (hash of the sequence of scheduled operations); distinct_nontrivial counts the same.",
		Assumptions: []string{
			"scheduling points sit at the hooked synchronisation operations (go, channel send/receive/close/select, sync.Mutex/WaitGroup/Map, time.Sleep as a yield); for race-free code this covers every behaviour of the Go memory model within the deviation bound; data races are reported by the happens-before monitor instead of being explored",
			"nodeCache (value-transparent cache) and Document.pointerCache (read-only while several threads are alive) are not scheduling points except in the full_maps configurations; their side conditions are checked at run time and a violation is an internal error",
			"sync.Map ranges iterate in insertion order (or its reverse as a configuration); Go map iteration is not used by Compare",
			"the order of the returned slice is not part of the oracle",
		},
		Plan:       plan,
		Run:        run,
		Replay:     replay,
		MaxWorkers: 16,
		Required: func(string) []string {
			req := []string{"transitions", "accesses-monitored"}
			for _, s := range scenarios {
				req = append(req, "scenario:"+s.Name)
			}
			return req
		},
		Deadline: func(tier string) time.Duration {
			if tier == "thorough" {
				return 25 * time.Minute
			}
			return 12 * time.Minute
		},
		Finish: func(tier string, cov map[string]interface{}, c map[string]int64) {
			cov["states"] = cov["distinct_nontrivial"]
			cov["transitions"] = c["transitions"]
			cov["traces_validated_against_impl"] = cov["evaluations"]
			cov["executions"] = cov["evaluations"]
			cov["explanation"] = "implementation-level model checking: every explored trace is an execution of the real code (traces_validated_against_impl = executions)"
		},
	})
}
