// C04 — every documented date form parses to its documented meaning.
// The full product of the documented grammar's fields (plus near misses) and
// all ordered pairs of a representative sentence set as ranges, each compared
// with the reference parser ref/date.go.
package main

import (
	"encoding/json"
	"fmt"
	"strings"
	"time"

	"github.com/elliotchance/gedcom/v39"
	"verif/harness/gen"
	"verif/harness/ref"
	"verif/harness/vlib"
)

var prefixes = []string{"", "abt", "abt.", "about", "c.", "ca", "ca.", "cca", "cca.", "circa", "aft", "aft.", "after", "bef", "bef.", "before"}
var days = []string{"", "1", "01", "9", "09", "28", "29", "30", "31", "0", "32", "001", "00", "15"}
var monthWords = []string{"", "jan", "january", "feb", "february", "mar", "march", "apr", "april", "may", "jun", "june", "jul", "july", "aug", "august",
	"sep", "september", "oct", "october", "nov", "november", "dec", "december", "xyz", "janx", "jan.", "sept"}
var years = []string{"", "1", "9", "99", "999", "1583", "1900", "1983", "1984", "2000", "9999", "0", "10000", "0089"}
var cases = []string{"lower", "UPPER", "Capital"}
var spacings = []string{"single", "double", "triple", "quad", "lead-trail", "five", "nine", "seventeen"}
var junks = []string{"", "x", "1"}

func applyCase(s, c string) string {
	switch c {
	case "UPPER":
		return strings.ToUpper(s)
	case "Capital":
		if s == "" {
			return s
		}
		return strings.ToUpper(s[:1]) + s[1:]
	}
	return s
}

func assemble(tokens []string, spacing string) string {
	var ts []string
	for _, t := range tokens {
		if t != "" {
			ts = append(ts, t)
		}
	}
	sep := " "
	switch spacing {
	case "double":
		sep = "  "
	case "triple":
		sep = "   "
	case "quad":
		sep = "    "
	case "nine":
		sep = strings.Repeat(" ", 9)
	case "seventeen":
		sep = strings.Repeat(" ", 17)
	case "five":
		sep = "     "
	}
	s := strings.Join(ts, sep)
	if spacing == "lead-trail" {
		s = "  " + s + " "
	}
	return s
}

type kase struct {
	Value string `json:"value"`
	Note  string `json:"note,omitempty"`
}

func conv(d gedcom.Date) ref.RDate {
	return ref.RDate{Day: d.Day, Month: int(d.Month), Year: d.Year, Constraint: ref.Constraint(d.Constraint)}
}

// nearMiss names why a sentence is invalid (for signatures), from the tokens.
func nearMiss(value string) string {
	toks := strings.Fields(strings.ToLower(value))
	if len(toks) == 0 {
		return "empty"
	}
	if ref.BetweenWords[toks[0]] {
		return "range"
	}
	if _, ok := ref.Prefixes[toks[0]]; ok {
		toks = toks[1:]
	}
	isNum := func(s string) bool {
		if s == "" {
			return false
		}
		for _, c := range s {
			if c < '0' || c > '9' {
				return false
			}
		}
		return true
	}
	switch {
	case len(toks) == 0:
		return "prefix-only"
	case len(toks) > 3:
		return "trailing-text"
	case !isNum(toks[len(toks)-1]):
		if len(toks) == 3 && isNum(toks[0]) || len(toks) <= 2 {
			if _, ok := ref.MonthNames[toks[len(toks)-1]]; ok {
				return "missing-year"
			}
		}
		return "trailing-text"
	case len(toks) == 2 && isNum(toks[0]):
		return "day-without-month"
	case len(toks) >= 2:
		if _, ok := ref.MonthNames[toks[len(toks)-2]]; !ok {
			return "unknown-month-word"
		}
	}
	if len(toks) == 3 {
		if !isNum(toks[0]) {
			return "trailing-text"
		}
		d := 0
		fmt.Sscanf(toks[0], "%d", &d)
		switch {
		case d == 0:
			return "day-0"
		case d > 31:
			return "day-32"
		case d == 29:
			return "feb-29-non-leap"
		default:
			return "day-beyond-short-month"
		}
	}
	return "other"
}

func judge(value string) (sig, what, class string) {
	a, b, v := ref.ParseDate(value)
	var dr gedcom.DateRange
	var node *gedcom.DateNode
	var nodeStr, drStr string
	if p, msg, frame := vlib.Try(func() {
		dr = gedcom.NewDateRangeWithString(value)
		node = gedcom.NewDateNode(value)
		drStr = dr.String()
		nodeStr = node.String()
	}); p {
		return "panic:" + frame + ":" + vlib.MsgClass(msg), "parsing panicked: " + msg, "viol"
	}
	isRange := ""
	if toks := strings.Fields(strings.ToLower(value)); len(toks) > 0 && ref.BetweenWords[toks[0]] {
		isRange = "range:"
	}
	valid := dr.IsValid()
	if node.IsValid() != valid {
		return "datenode-disagrees-with-daterange", "DateNode.IsValid differs from DateRange.IsValid", "viol"
	}
	switch v {
	case ref.Invalid:
		if valid {
			return isRange + "invalid-accepted:" + nearMiss(value), fmt.Sprintf("%q is not in the documented grammar (or is calendar-impossible) but parses as %v .. %v", value, dr.StartDate(), dr.EndDate()), "viol"
		}
		return "", "", "invalid"
	case ref.Unspecified:
		if valid && dr.StartDate().Year != 0 && dr.EndDate().Year != 0 {
			// print/parse stability only (a Date cannot represent the year 0:
			// 0 means "not provided", so nothing is demanded there)
			if s := reparse(drStr, dr); s != "" {
				return isRange + "unspecified-form-unstable", s, "viol"
			}
		}
		return "", "", "unspecified"
	}
	if !valid {
		why := "other"
		if strings.Contains(value, "     ") {
			why = "five-spaces"
		}
		return isRange + "valid-reported-invalid:" + why, fmt.Sprintf("%q is a documented form (%v .. %v) but is reported invalid: %v", value, a, b, dr.ParseError()), "viol"
	}
	gs, ge := conv(dr.StartDate()), conv(dr.EndDate())
	if gs != a || ge != b {
		sig := isRange + "field-differs"
		ga, gb := gs, ge
		ga.Constraint, gb.Constraint = a.Constraint, b.Constraint
		if ga == a && gb == b {
			toks := strings.Fields(strings.ToLower(value))
			sig = isRange + "constraint-lost"
			if isRange == "" && len(toks) > 0 {
				sig += ":" + toks[0]
			}
		}
		return sig, fmt.Sprintf("%q parses as %+v .. %+v, documented meaning %+v .. %+v", value, gs, ge, a, b), "viol"
	}
	if dr.StartDate().IsEndOfRange || !dr.EndDate().IsEndOfRange {
		return "range-end-flags-wrong", "IsEndOfRange flags wrong", "viol"
	}
	want := ref.CanonicalRange(a, b)
	if drStr != want {
		sig := isRange + "string-not-canonical"
		if a != b && !strings.HasPrefix(drStr, "Bet.") {
			sig += ":range-printed-as-single-date"
		}
		return sig, fmt.Sprintf("%q prints as %q, canonical spelling is %q", value, drStr, want), "viol"
	}
	if nodeStr != want {
		return isRange + "datenode-string-not-canonical", fmt.Sprintf("DateNode(%q).String() = %q, canonical %q", value, nodeStr, want), "viol"
	}
	if s := reparse(drStr, dr); s != "" {
		return isRange + "reparse-differs", s, "viol"
	}
	return "", "", "valid"
}

func reparse(printed string, dr gedcom.DateRange) string {
	dr2 := gedcom.NewDateRangeWithString(printed)
	if conv(dr2.StartDate()) != conv(dr.StartDate()) || conv(dr2.EndDate()) != conv(dr.EndDate()) {
		return fmt.Sprintf("printed form %q parses back as %+v .. %+v, was %+v .. %+v", printed, conv(dr2.StartDate()), conv(dr2.EndDate()), conv(dr.StartDate()), conv(dr.EndDate()))
	}
	return ""
}

// dims of the single-date product
var dims = []int{len(prefixes), len(cases), len(days), len(monthWords), len(cases), len(years), len(spacings), len(junks)}

func total() int64 {
	t := int64(1)
	for _, d := range dims {
		t *= int64(d)
	}
	return t
}

func sentence(idx int64) (string, []int) {
	ix := make([]int, len(dims))
	for i, d := range dims {
		ix[i] = int(idx % int64(d))
		idx /= int64(d)
	}
	pre := applyCase(prefixes[ix[0]], cases[ix[1]])
	mon := applyCase(monthWords[ix[3]], cases[ix[4]])
	return assemble([]string{pre, days[ix[2]], mon, years[ix[5]], junks[ix[7]]}, spacings[ix[6]]), ix
}

// representative sentences for ranges
func rangeParts() []string {
	var out []string
	for _, p := range []string{"", "abt", "Abt.", "about", "c.", "ca", "cca.", "circa", "aft", "AFT.", "after", "bef", "Bef.", "before"} {
		for _, body := range []string{"1900", "Mar 1900", "3 Mar 1900", "03 march 1900", "29 Feb 1900", "29 Feb 2000", "31 Dec 9999", "1", "xyz 1900", "32 Jan 1900", "Jan"} {
			out = append(out, strings.TrimSpace(p+" "+body))
		}
	}
	// every documented month spelling (a between/and word may hide inside a month name, e.g. oc-to-ber)
	for _, m := range monthWords {
		if _, ok := ref.MonthNames[m]; ok {
			out = append(out, applyCase(m, "Capital")+" 1900", "7 "+m+" 1900", "Bef. "+strings.ToUpper(m)+" 1900")
		}
	}
	out = append(out, "", "x", "1900 x", "5 Jan 1900 and 6 Jan 1900", "to", "-")
	return out
}

type casingWord struct {
	kind, word string
	frames     []string
}

func casingWords() []casingWord {
	var out []casingWord
	for _, p := range prefixes {
		if p != "" {
			out = append(out, casingWord{"prefix", p, []string{"% 3 Sep 1901", "% Sep 1901", "% 1901", "from 1850 to % 3 Sep 1901", "bet % 1850 and 1901"}})
		}
	}
	for _, m := range monthWords {
		if _, ok := ref.MonthNames[m]; ok {
			out = append(out, casingWord{"month", m, []string{"3 % 1901", "% 1901", "Abt. 3 % 1901", "bet 3 % 1901 and % 1902"}})
		}
	}
	for _, b := range []string{"between", "bet", "bet.", "from"} {
		out = append(out, casingWord{"between", b, []string{"% 1900 and 1950", "% 3 Sep 1900 to Abt. 1950", "% 1900 - 1950"}})
	}
	for _, a := range []string{"and", "to"} {
		out = append(out, casingWord{"and", a, []string{"bet 1900 % 1950", "from 3 Sep 1900 % Oct 1950"}})
	}
	return out
}

var betweens = []string{"between", "bet", "bet.", "from", "Between", "BET", "Bet.", "FROM"}
var ands = []string{"and", "to", "-", "AND", "To"}

func run(tier, unit string, r *vlib.Rec) {
	name, lo, hi := vlib.ParseChunk(unit)
	switch name {
	case "single":
		for idx := lo; idx < hi; idx++ {
			s, ix := sentence(idx)
			// skip duplicate spellings (case of an empty word)
			if (prefixes[ix[0]] == "" && ix[1] != 0) || (monthWords[ix[3]] == "" && ix[4] != 0) {
				continue
			}
			if tier != "thorough" {
				// quick: at most one of {spacing, junk, prefix case, month case} deviates from default
				dev := 0
				for _, k := range []int{1, 4, 6, 7} {
					if ix[k] != 0 {
						dev++
					}
				}
				if dev > 1 {
					continue
				}
			}
			r.Eval()
			r.Count("prefix:" + prefixes[ix[0]])
			r.Count("month:" + monthWords[ix[3]])
			r.Count("day:" + days[ix[2]])
			r.Count("year:" + years[ix[5]])
			r.Count("spacing:" + spacings[ix[6]])
			r.EnterF(func() interface{} { return kase{Value: s} })
			sig, what, class := judge(s)
			r.Count("outcome:" + class)
			if class == "valid" || class == "invalid" {
				r.Nontrivial(s)
			}
			if sig != "" {
				r.Fail(sig, what, kase{Value: s})
			} else if class == "valid" && r.WantSample() && ix[0] != 0 && ix[2] != 0 {
				r.Sample(kase{Value: s})
			}
		}
	case "range":
		parts := rangeParts()
		n := int64(len(parts))
		for idx := lo; idx < hi; idx++ {
			x, y := parts[idx/n], parts[idx%n]
			for _, bw := range betweens {
				for _, aw := range ands {
					s := bw + " " + x + " " + aw + " " + y
					r.Eval()
					r.Count("between:" + strings.ToLower(bw))
					r.Count("and:" + strings.ToLower(aw))
					sig, what, class := judge(s)
					r.Count("outcome:range-" + class)
					if class == "valid" {
						r.Nontrivial(s)
					}
					if sig != "" {
						r.Fail(sig, what, kase{Value: s})
					}
				}
			}
		}
	case "casing": // every upper/lower pattern of every documented word, in every position it can take
		ws := casingWords()
		for wi := lo; wi < hi; wi++ {
			w := ws[wi]
			letters := 0
			for _, c := range w.word {
				if c >= 'a' && c <= 'z' {
					letters++
				}
			}
			for mask := 0; mask < 1<<uint(letters); mask++ {
				b := []byte(w.word)
				k := 0
				for i, c := range b {
					if c >= 'a' && c <= 'z' {
						if mask>>uint(k)&1 == 1 {
							b[i] = c - 32
						}
						k++
					}
				}
				for _, f := range w.frames {
					s := strings.Replace(f, "%", string(b), 1)
					r.Eval()
					r.Count("casing:" + w.kind)
					sig, what, class := judge(s)
					r.Count("outcome:casing-" + class)
					if class == "valid" {
						r.Nontrivial(s)
					}
					if sig != "" {
						r.Fail(sig, what, kase{Value: s})
					}
				}
			}
		}
	case "days": // thorough: every calendar day as "D Mon YYYY" with a fixed prefix, tying the parser to C05's calendar
		for y := int(lo); y < int(hi); y++ {
			for m := 1; m <= 12; m++ {
				for d := 1; d <= 31; d++ {
					s := fmt.Sprintf("Abt. %d %s %d", d, ref.MonthAbbr[m], y)
					r.Eval()
					sig, what, class := judge(s)
					r.Count("outcome:days-" + class)
					if sig != "" {
						r.Fail(sig, what, kase{Value: s})
					}
				}
			}
		}
	}
}

func plan(tier string) []string {
	out := vlib.Chunks("single", total(), 100000)
	n := int64(len(rangeParts()))
	out = append(out, vlib.Chunks("range", n*n, 1500)...)
	if tier == "thorough" {
		out = append(out, vlib.Chunks("days", 10000, 100)...)
	} else {
		out = append(out, "days:1896:1905", "days:1:3", "days:9998:10000")
	}
	out = append(out, vlib.Chunks("casing", int64(len(casingWords())), 2)...)
	return out
}

func replay(c json.RawMessage) (string, string) {
	var k kase
	json.Unmarshal(c, &k)
	sig, what, class := judge(k.Value)
	dr := gedcom.NewDateRangeWithString(k.Value)
	return sig, fmt.Sprintf("value %q -> class %s; impl start=%+v end=%+v valid=%v string=%q\n%s", k.Value, class, conv(dr.StartDate()), conv(dr.EndDate()), dr.IsValid(), dr.String(), what)
}

var _ = gen.Pow

func main() {
	vlib.Main(&vlib.Check{
		ID:    "C04",
		Level: "exploration",
		Rule: "cases: the product prefix(15 spellings+none) x case(3) x day class(14) x month word(23 documented + none + 4 near misses) x case(3) x year class(14) x spacing(8: up to 17 spaces) x trailing junk(3) (quick: at most one of {prefix case, month case, spacing, junk} non-default); " +
			"ranges: 8 between-words x 5 and-words x every ordered pair of " + fmt.Sprint(len(rangeParts())) + " representative date sentences; every calendar day of a year block as 'Abt. D Mon Y'; every upper/lower-case pattern of every documented word (prefixes, month names, between- and and-words) in 2-5 sentence frames each. Each compared with the reference parser. Non-trivial = reference verdict valid or invalid (not unspecified); distinct by sentence.",
		Assumptions: []string{
			"reference parser ref/date.go (token tables from the Date doc comment and the property's 15 keyword spellings) defines the documented meaning",
			"forms the documentation leaves open (more than one leading zero, year 0, 5-digit years) are judged only for no-crash and print/parse stability",
			"'optional extra spaces' is read as runs of up to five spaces and leading/trailing spaces",
		},
		Plan:   plan,
		Run:    run,
		Replay: replay,
		Required: func(string) []string {
			req := []string{"outcome:valid", "outcome:invalid", "outcome:unspecified", "outcome:range-valid", "outcome:range-invalid", "outcome:days-valid", "outcome:days-invalid"}
			for _, p := range prefixes {
				req = append(req, "prefix:"+p)
			}
			for _, p := range monthWords {
				req = append(req, "month:"+p)
			}
			for _, p := range spacings {
				req = append(req, "spacing:"+p)
			}
			return req
		},
		Deadline: func(tier string) time.Duration {
			if tier == "thorough" {
				return 25 * time.Minute
			}
			return 8 * time.Minute
		},
	})
}
