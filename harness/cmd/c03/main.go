// C03 — decoding never crashes: any input yields a document or an error that
// names the offending line; only the documented "indent is too large" panic is
// tolerated, and only while invalid indents are not allowed.
package main

import (
	"encoding/json"
	"fmt"
	"github.com/elliotchance/gedcom/v39"
	"os"
	"strconv"
	"strings"
	"time"

	"verif/harness/gen"
	"verif/harness/gx"
	"verif/harness/ref"
	"verif/harness/vlib"
)

var levelAlphabet = []string{"0", "1", "2", "3", "4", "10"}
var byteAlphabet = []byte{'0', '1', ' ', '@', 'A', '\n', '\r', 0xFF}

// structure-adversarial line alphabet: tag x level 0..3
var advTags = []string{"HUSB", "WIFE", "CHIL", "FAM", "INDI", "NAME", "DATE"}

func advLine(k int) gen.Line {
	tag := advTags[k%len(advTags)]
	level := strconv.Itoa(k / len(advTags))
	l := gen.Line{Level: level, Sep1: " ", Tag: tag, Sep2: " ", Value: "v", Term: "\n"}
	switch tag {
	case "HUSB", "WIFE", "CHIL":
		l.Value = "@I1@"
	case "FAM":
		l.Xref, l.Sep2, l.Value = "@F1@ ", "", ""
	case "INDI":
		l.Xref, l.Sep2, l.Value = "@I1@ ", "", ""
	case "DATE":
		l.Value = "1 Jan 1900"
	}
	return l
}

var advDeviations = []gen.Deviation{
	{"value-empty", func(l *gen.Line) { l.Sep2, l.Value = "", "" }},
	{"xref-added", func(l *gen.Line) { l.Xref = "@X9@ " }},
	{"xref-removed", func(l *gen.Line) { l.Xref = "" }},
	{"value-on-record", func(l *gen.Line) { l.Sep2, l.Value = " ", "@I1@" }},
	// the same tag in another letter case: a different (unregistered) tag to the grammar, but code that folds case on
	// one side of a guard and not on the other treats it as the registered one
	{"tag-lower-case", func(l *gen.Line) { l.Tag = strings.ToLower(l.Tag) }},
	{"tag-mixed-case", func(l *gen.Line) { l.Tag = l.Tag[:1] + strings.ToLower(l.Tag[1:]) }},
}

type kase struct {
	Data           string `json:"data"`
	Giant          string `json:"giant,omitempty"`
	File           bool   `json:"file_api,omitempty"`
	MultiLine      bool   `json:"multiline"`
	InvalidIndents bool   `json:"invalid_indents"`
}

func firstTagLine(data string) (role bool) {
	// is there a role line (HUSB/WIFE/CHIL) before the first FAM line?
	for _, line := range ref.SplitLines(strings.TrimPrefix(data, "\xef\xbb\xbf")) {
		_, _, tag, _, ok := ref.ParseLine(line)
		if !ok {
			continue
		}
		if tag == "FAM" {
			return false
		}
		if tag == "HUSB" || tag == "WIFE" || tag == "CHIL" {
			return true
		}
	}
	return false
}

func firstLineOverDeep(data string) bool {
	for _, line := range ref.SplitLines(strings.TrimPrefix(data, "\xef\xbb\xbf")) {
		if line == "" {
			continue
		}
		level, _, _, _, ok := ref.ParseLine(line)
		if !ok {
			return false // (with AllowMultiLine and no previous node the decoder rejects before this matters)
		}
		return level > 0
	}
	return false
}

func judge(data string, ml, ii bool) (sig, what, class string) {
	r := gx.Decode(data, ml, ii)
	model := ref.Decode(data, ml, ii)
	switch {
	case r.Panicked:
		mc := vlib.MsgClass(r.PanicMsg)
		// Undefined: the reference model stopped earlier (role line before any
		// family), so it cannot say whether the line is over-deep; tolerated.
		if mc == "indent is too large" && !ii && (model.Outcome == ref.TooDeep || model.Outcome == ref.Undefined) {
			return "", "", "documented-panic"
		}
		sig := "panic:" + r.Frame + ":" + mc
		switch {
		case mc == "without a family" && firstTagLine(data):
			sig += ":role-tag-before-FAM"
		case mc == "index out of range" && ii && firstLineOverDeep(data):
			sig += ":first-line-over-deep"
		}
		return sig, fmt.Sprintf("decoder panicked: %s (in %s)", r.PanicMsg, r.Frame), "viol"
	case r.Err != nil:
		msg := r.Err.Error()
		ln, ok := namedLine(msg)
		if !ok {
			return "error-names-no-line", "error does not name a line: " + msg, "viol"
		}
		if model.Outcome == ref.Reject && ln != model.Line {
			return "error-names-wrong-line", fmt.Sprintf("error names line %d, the first unreadable line is %d: %s", ln, model.Line, msg), "viol"
		}
		return "", "", "error"
	case r.Doc == nil:
		return "nil-document-nil-error", "decoder returned neither a document nor an error", "viol"
	}
	return "", "", "document"
}

// namedLine parses "line <n>: ".
func namedLine(msg string) (int, bool) {
	if !strings.HasPrefix(msg, "line ") {
		return 0, false
	}
	rest := msg[5:]
	i := 0
	for i < len(rest) && rest[i] >= '0' && rest[i] <= '9' {
		i++
	}
	if i == 0 || !strings.HasPrefix(rest[i:], ": ") {
		return 0, false
	}
	n, _ := strconv.Atoi(rest[:i])
	return n, true
}

var optCombos = [4][2]bool{{false, false}, {true, false}, {false, true}, {true, true}}

// judgeFile: gedcom.NewDocumentFromGEDCOMFile on a file holding data must do what the decoder does on
// the same bytes with default options: a document or an error, the documented panic at most.
func judgeFile(path, data string) (sig, what string) {
	if err := os.WriteFile(path, []byte(data), 0o644); err != nil {
		return "", ""
	}
	want := gx.Decode(data, false, false)
	var doc *gedcom.Document
	var err error
	p, msg, frame := vlib.Try(func() { doc, err = gedcom.NewDocumentFromGEDCOMFile(path) })
	switch {
	case p && want.Panicked:
		return "", ""
	case p:
		return "file-api:panic:" + frame + ":" + vlib.MsgClass(msg), fmt.Sprintf("NewDocumentFromGEDCOMFile panics (%s) where the decoder does not, on %q", msg, data)
	case want.Panicked:
		return "file-api:differs-from-decoder", fmt.Sprintf("the decoder panics (%s) on %q, NewDocumentFromGEDCOMFile returns doc=%v err=%v", want.PanicMsg, data, doc != nil, err)
	case doc == nil && err == nil:
		return "file-api:nil-document-nil-error", fmt.Sprintf("NewDocumentFromGEDCOMFile returned neither a document nor an error for %q", data)
	case (err != nil) != (want.Err != nil):
		return "file-api:differs-from-decoder", fmt.Sprintf("decoder error %v, file API error %v on %q", want.Err, err, data)
	case err == nil && doc.String() != want.Doc.String():
		return "file-api:differs-from-decoder", fmt.Sprintf("different documents for %q", data)
	}
	return "", ""
}

func runInputX(r *vlib.Rec, data string) { runInput(r, data, "") }

func runInput(r *vlib.Rec, data, giant string) {
	for _, o := range optCombos {
		r.Eval()
		sig, what, class := judge(data, o[0], o[1])
		r.Count("outcome:" + class)
		if class != "error" || strings.Count(data, "\n") >= 2 {
			r.Nontrivial(fmt.Sprintf("%v%v|%s", o[0], o[1], data))
		}
		if sig != "" {
			k := kase{Data: strconv.Quote(data), MultiLine: o[0], InvalidIndents: o[1]}
			if giant != "" {
				k = kase{Giant: giant, MultiLine: o[0], InvalidIndents: o[1]}
			}
			r.Fail(sig, what, k)
		}
	}
}

func giantInput(name string) string {
	switch name {
	case "line-1MB":
		return "0 NOTE " + strings.Repeat("x", 1<<20) + "\n1 CONT y\n"
	case "line-1MB-unparsable":
		return "0 NOTE v\n" + strings.Repeat("x", 1<<20) + "\n"
	case "nesting-1e5":
		var sb strings.Builder
		for i := 0; i < 100000; i++ {
			fmt.Fprintf(&sb, "%d NOTE v\n", i)
		}
		return sb.String()
	case "overdeep-1e5":
		var sb strings.Builder
		sb.WriteString("0 NOTE v\n")
		for i := 0; i < 100000; i++ {
			sb.WriteString("9 NOTE v\n")
		}
		return sb.String()
	case "roots-1e5":
		return strings.Repeat("0 @I1@ INDI\n", 100000)
	case "huge-level-number":
		return "0 NOTE v\n99999999999999999999999 NOTE v\n"
	}
	if name == "tags-1e4-distinct" {
		// ten thousand distinct non-standard tags in one stream (and so in one process)
		var sb strings.Builder
		sb.WriteString("0 @I1@ INDI\n")
		for i := 0; i < 10000; i++ {
			fmt.Fprintf(&sb, "1 _T%d v\n", i)
		}
		return sb.String()
	}
	if strings.HasPrefix(name, "level=") {
		// a level number at a machine-integer boundary, as first line, after a root and after a child
		lv := strings.TrimPrefix(name, "level=")
		return lv + " NOTE a\n0 NOTE v\n" + lv + " NOTE b\n1 NOTE c\n" + lv + " NOTE d\n"
	}
	panic("unknown giant " + name)
}

var giants = []string{"line-1MB", "line-1MB-unparsable", "nesting-1e5", "overdeep-1e5", "roots-1e5", "huge-level-number", "tags-1e4-distinct",
	"level=255", "level=256", "level=32767", "level=32768", "level=65535", "level=65536", "level=2147483647", "level=2147483648", "level=4294967295", "level=4294967296",
	"level=9223372036854775807", "level=9223372036854775808", "level=18446744073709551615", "level=18446744073709551616", "level=00000000000000000000001", "level=0000000000000000000000"}

func run(tier, unit string, r *vlib.Rec) {
	name, lo, hi := vlib.ParseChunk(unit)
	p := strings.Split(name, ":")
	switch p[0] {
	case "adv": // adv:<n>:<dev>
		n, _ := strconv.Atoi(p[1])
		dev := p[2] == "1"
		A := len(advTags) * 4
		for idx := lo; idx < hi; idx++ {
			ds := gen.Digits(idx, A, n)
			ls := make([]gen.Line, n)
			for i, d := range ds {
				ls[i] = advLine(d)
				r.Count("adv:" + ls[i].Tag + "@" + ls[i].Level)
			}
			runInput(r, gen.Join(ls), "")
			if dev {
				for i := range ls {
					for _, dv := range advDeviations {
						l2 := append([]gen.Line{}, ls...)
						dv.Apply(&l2[i])
						r.Count("advdev:" + dv.Name)
						runInput(r, gen.Join(l2), "")
					}
				}
			}
		}
	case "walk":
		n, _ := strconv.Atoi(p[1])
		maxdev, _ := strconv.Atoi(p[2])
		for idx := lo; idx < hi; idx++ {
			ds := gen.Digits(idx, len(levelAlphabet), n)
			lv := make([]string, n)
			for i, d := range ds {
				lv[i] = levelAlphabet[d]
			}
			base := gen.Walk(lv)
			r.Count("walk")
			runInput(r, gen.Join(base), "")
			if maxdev >= 1 {
				for i := 0; i < n; i++ {
					for _, dv := range gen.LineDeviations {
						ls := append([]gen.Line{}, base...)
						dv.Apply(&ls[i])
						r.Count("dev:" + dv.Name)
						runInput(r, gen.Join(ls), "")
					}
				}
			}
		}
	case "bytes":
		L, _ := strconv.Atoi(p[1])
		bom := p[2] == "1"
		buf := make([]byte, L)
		for idx := lo; idx < hi; idx++ {
			ds := gen.Digits(idx, len(byteAlphabet), L)
			for i, d := range ds {
				buf[i] = byteAlphabet[d]
			}
			s := string(buf)
			if bom {
				// full byte-order mark, and streams truncated inside it
				for _, pre := range []string{"\xef", "\xef\xbb", "\xef\xbb\xbf\xef"} {
					r.Count("bom-truncated")
					runInputX(r, pre+s)
				}
				s = "\xef\xbb\xbf" + s
				r.Count("bom")
			}
			r.Count("bytes")
			runInput(r, s, "")
		}
	case "fileapi": // the file entry point: every sequence of <=2 adversarial lines, written to a file
		A := len(advTags) * 4
		path := fmt.Sprintf("/dev/shm/c03-fileapi-%d.ged", os.Getpid())
		defer os.Remove(path)
		for idx := lo; idx < hi; idx++ {
			n := 2
			k := idx
			if idx < int64(A) {
				n = 1
			} else {
				k = idx - int64(A)
			}
			ds := gen.Digits(k, A, n)
			ls := make([]gen.Line, n)
			for i, d := range ds {
				ls[i] = advLine(d)
			}
			for _, data := range []string{gen.Join(ls), "0 NOTE v\n" + gen.Join(ls)} {
				r.Eval()
				r.Count("fileapi")
				if sig, what := judgeFile(path, data); sig != "" {
					r.Fail(sig, what, kase{Data: strconv.Quote(data), File: true})
				}
			}
		}
	case "giant":
		g := giants[lo]
		r.Count("giant")
		runInput(r, giantInput(g), g)
	}
}

func plan(tier string) []string {
	var out []string
	A := len(advTags) * 4
	advN, advDevN, walkN, walkDevN, maxL := 4, 3, 6, 4, 6
	if tier == "thorough" {
		advN, advDevN, walkN, walkDevN, maxL = 5, 4, 8, 6, 7
	}
	for n := 1; n <= advN; n++ {
		dev := "0"
		size := int64(20000)
		if n <= advDevN {
			dev = "1"
			size = 2000
		}
		out = append(out, vlib.Chunks(fmt.Sprintf("adv:%d:%s", n, dev), gen.Pow(A, n), size)...)
	}
	for n := 1; n <= walkN; n++ {
		dev, size := 0, int64(5000)
		if n <= walkDevN {
			dev, size = 1, 60
		}
		out = append(out, vlib.Chunks(fmt.Sprintf("walk:%d:%d", n, dev), gen.Pow(len(levelAlphabet), n), size)...)
	}
	for L := 0; L <= maxL; L++ {
		for _, bom := range []string{"0", "1"} {
			if bom == "1" && L > maxL-1 {
				continue
			}
			out = append(out, vlib.Chunks(fmt.Sprintf("bytes:%d:%s", L, bom), gen.Pow(len(byteAlphabet), L), 20000)...)
		}
	}
	out = append(out, vlib.Chunks("giant", int64(len(giants)), 1)...)
	out = append(out, vlib.Chunks("fileapi", int64(A)+gen.Pow(A, 2), 100)...)
	return out
}

func replay(c json.RawMessage) (string, string) {
	var k kase
	json.Unmarshal(c, &k)
	data, _ := strconv.Unquote(k.Data)
	if k.Giant != "" {
		data = giantInput(k.Giant)
	}
	if k.File {
		path := fmt.Sprintf("/dev/shm/c03-fileapi-replay-%d.ged", os.Getpid())
		defer os.Remove(path)
		sig, what := judgeFile(path, data)
		return sig, what
	}
	sig, what, class := judge(data, k.MultiLine, k.InvalidIndents)
	show := k.Data
	if k.Giant != "" {
		show = "giant:" + k.Giant
	}
	return sig, fmt.Sprintf("input %s multiline=%v invalid_indents=%v -> %s %s", show, k.MultiLine, k.InvalidIndents, class, what)
}

func main() {
	vlib.Main(&vlib.Check{
		ID:    "C03",
		Level: "exploration",
		Rule: "inputs: (a) every sequence of <=n lines over the structure-adversarial alphabet {HUSB,WIFE,CHIL,FAM,INDI,NAME,DATE} x level 0..3, the short ones also with one line deviating (empty value, xref added/removed, value on a record line); " +
			"(b) C02's level walks with <=1 deviating line; (c) every byte string of length <=L over {0,1,space,@,A,LF,CR,0xFF} with/without BOM; (d) the file entry point NewDocumentFromGEDCOMFile on every sequence of <=2 adversarial lines; (e) seven parametric giants (incl. ten thousand distinct non-standard tags in one process) and level numbers at every machine-integer boundary (2^8..2^64, zero-padded); each x 4 option combinations. " +
			"Non-trivial = not (a rejected input of fewer than two lines); distinct by (options, bytes).",
		Assumptions: []string{
			"the documented panic is accepted only when its text is 'indent is too large', AllowInvalidIndents is off and the reference decoder agrees that the line is over-deep",
			"an error names the offending line when it has the form 'line <n>: ...' and, where the reference decoder finds an unreadable line, n is that line (lines end at CR or LF, so CRLF ends two lines)",
			"giants (1 MB line, 1e5 levels, 1e5 roots) are single parametric cases, not a space",
		},
		Plan:   plan,
		Run:    run,
		Replay: replay,
		Required: func(string) []string {
			req := []string{"outcome:document", "outcome:error", "outcome:documented-panic", "bytes", "bom", "giant", "walk"}
			for _, t := range advTags {
				for l := 0; l < 4; l++ {
					req = append(req, fmt.Sprintf("adv:%s@%d", t, l))
				}
			}
			for _, d := range advDeviations {
				req = append(req, "advdev:"+d.Name)
			}
			return req
		},
		Deadline: func(tier string) time.Duration {
			if tier == "thorough" {
				return 25 * time.Minute
			}
			return 8 * time.Minute
		},
		Bounds: func(tier string) interface{} {
			if tier == "thorough" {
				return map[string]interface{}{"adversarial_lines": "n<=5 (n<=4 with one deviation)", "walks": "n<=8 (n<=6 with one deviation)", "bytes": "L<=7", "giants": giants}
			}
			return map[string]interface{}{"adversarial_lines": "n<=4 (n<=3 with one deviation)", "walks": "n<=6 (n<=4 with one deviation)", "bytes": "L<=6", "giants": giants}
		},
	})
}
