// Package vlib is the shared runner of the bounded-exhaustive checks: it
// shards a check's plan over worker subprocesses (one gedcom "world" per
// process, so process-wide caches are never shared between cases that run at
// the same time), merges what the workers counted, classifies findings against
// /verif/known_findings.json, writes the evidence file and sets the exit
// status (0 held, 1 VIOLATION, 2 internal error).
package vlib

import (
	"bufio"
	"crypto/sha1"
	"encoding/hex"
	"encoding/json"
	"flag"
	"fmt"
	"hash/fnv"
	"io"
	"os"
	"os/exec"
	"path/filepath"
	"runtime"
	"runtime/debug"
	"sort"
	"strconv"
	"strings"
	"sync"
	"sync/atomic"
	"time"
)

// VerifDir is the root of the verification tree.
var VerifDir = func() string {
	if d := os.Getenv("VERIF_DIR"); d != "" {
		return d
	}
	return "/verif"
}()

// Finding is one property violation observed on one case.
type Finding struct {
	Sig  string          `json:"sig"`
	What string          `json:"what"`
	Case json.RawMessage `json:"case"`
	Unit string          `json:"unit,omitempty"` // the unit whose enumeration reached the case
}

// Rec collects what one unit of work covered.
type Rec struct {
	Unit        string            `json:"unit"`
	Evaluations int64             `json:"evaluations"`
	Hashes      []uint64          `json:"-"`
	HashBlob    string            `json:"hashes,omitempty"`
	Counters    map[string]int64  `json:"counters,omitempty"`
	Samples     []json.RawMessage `json:"samples,omitempty"`
	Findings    []Finding         `json:"findings,omitempty"`
	FindingN    map[string]int64  `json:"finding_n,omitempty"`
	Err         string            `json:"err,omitempty"`
	Capped      bool              `json:"capped,omitempty"`
	hset        map[uint64]struct{}
	maxSamples  int
	out         *bufio.Writer
	deadline    time.Time
	cur         atomic.Value  // last case announced with Enter (for the hang watchdog)
	stamp       int64         // bumped by Enter and Begin
	maxGap      int64         // longest time without progress seen by the watchdog (ms)
	hangLimit   time.Duration // per-unit override sent by the parent (0 = default)
}

// Enter cheaply notes the case that is about to run (no I/O); if the unit then makes no
// progress for the hang limit, the watchdog attributes the hang to this case.
func (r *Rec) Enter(c interface{}) {
	if announce {
		r.Begin(c)
		return
	}
	r.cur.Store(&c)
	atomic.AddInt64(&r.stamp, 1)
}

// EnterF is Enter with the case built only when somebody needs it (hot loops).
func (r *Rec) EnterF(f func() interface{}) {
	if announce {
		r.Begin(f())
		return
	}
	var c interface{} = lazyCase(f)
	r.cur.Store(&c)
	atomic.AddInt64(&r.stamp, 1)
}

type lazyCase func() interface{}

// announce: the parent re-runs a unit in which a worker died with every Enter flushed to the
// parent (as Begin does), so that the death can be attributed to a case.
var announce = os.Getenv("VERIF_ANNOUNCE") == "1"

func newRec(unit string, out *bufio.Writer) *Rec {
	return &Rec{Unit: unit, Counters: map[string]int64{}, FindingN: map[string]int64{},
		hset: map[uint64]struct{}{}, maxSamples: 2, out: out}
}

// Eval counts one executed case.
func (r *Rec) Eval() { r.Evaluations++ }

// EvalN counts n executed cases.
func (r *Rec) EvalN(n int64) { r.Evaluations += n }

// Nontrivial records a case that is non-trivial by the check's rule; distinct
// cases are counted by the hash of their canonical form.
func (r *Rec) Nontrivial(canon string) {
	h := fnv.New64a()
	h.Write([]byte(canon))
	r.hset[h.Sum64()] = struct{}{}
}

// NontrivialHash is Nontrivial for a pre-computed hash.
func (r *Rec) NontrivialHash(h uint64) { r.hset[h] = struct{}{} }

// Count bumps a named counter (alphabet symbol hit counters, outcome classes).
func (r *Rec) Count(name string) { r.Counters[name]++ }

// Add adds n to a named counter.
func (r *Rec) Add(name string, n int64) { r.Counters[name] += n }

// Max keeps the maximum under a named counter.
func (r *Rec) Max(name string, n int64) {
	if n > r.Counters[name] {
		r.Counters[name] = n
	}
}

// Sample keeps up to two written-out cases per unit.
func (r *Rec) Sample(v interface{}) {
	if len(r.Samples) >= r.maxSamples {
		return
	}
	b, err := json.Marshal(v)
	if err == nil {
		r.Samples = append(r.Samples, b)
	}
}

// WantSample reports whether another sample would be kept.
func (r *Rec) WantSample() bool { return len(r.Samples) < r.maxSamples }

// Fail records a violation on a case. Only the first (simplest-first
// enumeration: smallest) case per signature is kept, all are counted.
func (r *Rec) Fail(sig, what string, c interface{}) {
	r.FindingN[sig]++
	if r.FindingN[sig] > 1 {
		return
	}
	b, _ := json.Marshal(c)
	r.Findings = append(r.Findings, Finding{Sig: sig, What: what, Case: b})
}

// Begin announces a case that may kill the worker process; if the worker dies
// the parent attributes the death to the last announced case.
func (r *Rec) Begin(c interface{}) {
	r.cur.Store(&c)
	atomic.AddInt64(&r.stamp, 1)
	b, _ := json.Marshal(c)
	r.out.WriteString("B ")
	r.out.Write(b)
	r.out.WriteString("\n")
	r.out.Flush()
}

// Expired reports whether the unit's soft deadline has passed; units that stop
// early must call Cap.
func (r *Rec) Expired() bool { return !r.deadline.IsZero() && time.Now().After(r.deadline) }

// Cap marks the unit as not exhaustively covered.
func (r *Rec) Cap() { r.Capped = true }

// Check describes one property check.
type Check struct {
	ID          string
	Level       string // evidence level: exploration | model_checking | fault_enumeration
	Rule        string
	Assumptions []string
	// Plan lists the work units of a tier (opaque descriptors).
	Plan func(tier string) []string
	// Run executes one unit inside a worker process.
	Run func(tier, unit string, r *Rec)
	// Replay re-runs one recorded case and returns the signature it produces
	// ("" when the case passes) and a printable observation.
	Replay func(c json.RawMessage) (sig string, obs string)
	// Required counters must be non-zero after a complete run (vacuity guard).
	Required func(tier string) []string
	// Deadline per tier; when hit the run ends with exhaustive:false, exit 0.
	Deadline func(tier string) time.Duration
	// HangLimit: a unit that neither counts an evaluation nor announces a case for this long is
	// reported as a hang of the code under test (default 90s, VERIF_HANG overrides). A single case
	// of every check takes micro- to milliseconds (C14/C19 subprocess cases: seconds, with their own
	// watchdogs), so the limit is four or more orders of magnitude above the normal case time.
	HangLimit time.Duration
	// DiedSig classifies the death of a worker on an announced case.
	DiedSig func(c json.RawMessage, stderr string) (sig, what string)
	// Finish may add coverage keys computed from the merged counters.
	Finish func(tier string, cov map[string]interface{}, counters map[string]int64)
	// WorkerInit runs once in each worker before the first unit.
	WorkerInit func()
	// SameFinding decides whether a replayed signature confirms a finding (default: equality).
	SameFinding func(found, replayed string) bool
	// MinRepro is the number of the 5 replays that must confirm a finding (default 5).
	MinRepro int
	// MinReproFor, when set and > 0 for a signature, replaces MinRepro for that signature. For oracles that
	// state determinism ("identical across runs") a finding that comes back in some replays and not in
	// others is itself what the oracle forbids.
	MinReproFor func(sig string) int
	// MaxWorkers caps the number of worker processes (0 = NumCPU).
	MaxWorkers int
	// Bounds describes the alphabet and size bounds of a tier for the evidence.
	Bounds func(tier string) interface{}
}

type known struct {
	Property  string `json:"property"`
	Signature string `json:"signature"`
	Status    string `json:"status"`
	What      string `json:"what"`
	Commit    string `json:"commit,omitempty"`
}

func loadKnown(id string) map[string]known {
	out := map[string]known{}
	b, err := os.ReadFile(filepath.Join(VerifDir, "known_findings.json"))
	if err != nil {
		return out
	}
	var all struct {
		Findings []known `json:"findings"`
	}
	if err := json.Unmarshal(b, &all); err != nil {
		fmt.Fprintln(os.Stderr, "known_findings.json:", err)
		os.Exit(2)
	}
	for _, k := range all.Findings {
		if k.Property == id && k.Status == "known" {
			out[k.Signature] = k
		}
	}
	return out
}

// Try runs f and reports a recovered panic value as text ("" when none),
// together with the innermost gedcom frame.
func Try(f func()) (panicked bool, msg string, frame string) {
	defer func() {
		if r := recover(); r != nil {
			panicked = true
			msg = fmt.Sprint(r)
			frame = topRepoFrame(string(debug.Stack()))
		}
	}()
	f()
	return
}

// defaultDiedSig names the death of a process (unrecoverable: stack overflow, out of memory, a
// panic in a goroutine of the code under test) by its message class and innermost gedcom frame.
func defaultDiedSig(stderr string) (sig, what string) {
	msg := ""
	for _, l := range strings.Split(stderr, "\n") {
		if strings.HasPrefix(l, "fatal error:") || strings.HasPrefix(l, "panic:") || strings.HasPrefix(l, "runtime: goroutine stack exceeds") {
			msg = l
			if strings.HasPrefix(l, "runtime: goroutine stack exceeds") {
				msg = "stack overflow"
			}
			break
		}
	}
	fr := topRepoFrame(stderr)
	head := stderr
	if len(head) > 1500 {
		head = head[:1500]
	}
	return "process-dies:" + MsgClass(strings.TrimPrefix(strings.TrimPrefix(msg, "fatal error: "), "panic: ")) + ":" + fr, "the process running the case died (not recoverable by a caller):\n" + head
}

// repoDir is the tree under test (frames are recognised by their file path).
var repoDir = func() string {
	if r := os.Getenv("VERIF_REPO"); r != "" {
		return strings.TrimRight(r, "/")
	}
	return "/repo"
}()

func topRepoFrame(stack string) string {
	lines := strings.Split(stack, "\n")
	for i := 0; i+1 < len(lines); i++ {
		l := lines[i]
		if strings.HasPrefix(l, "github.com/elliotchance/gedcom/") && strings.Contains(lines[i+1], repoDir+"/") {
			fn := l
			if j := strings.LastIndex(fn, "("); j > 0 {
				fn = fn[:j]
			}
			fn = strings.TrimPrefix(fn, "github.com/elliotchance/gedcom/v39")
			fn = strings.TrimPrefix(fn, ".")
			fn = strings.TrimPrefix(fn, "/")
			return fn
		}
	}
	return "?"
}

// MsgClass reduces a panic/error message to a class without data values.
func MsgClass(msg string) string {
	switch {
	case strings.Contains(msg, "index out of range"):
		return "index out of range"
	case strings.Contains(msg, "slice bounds out of range"):
		return "slice bounds out of range"
	case strings.Contains(msg, "nil pointer dereference"):
		return "nil pointer dereference"
	case strings.Contains(msg, "interface conversion"):
		return "interface conversion"
	case strings.Contains(msg, "without a family"):
		return "without a family"
	case strings.Contains(msg, "without a document"):
		return "without a document"
	case strings.Contains(msg, "indent is too large"):
		return "indent is too large"
	case strings.Contains(msg, "reflect:"):
		return "reflect"
	case strings.Contains(msg, "stack overflow"):
		return "stack overflow"
	case strings.Contains(msg, "out of memory"):
		return "out of memory"
	case strings.Contains(msg, "divide by zero"):
		return "divide by zero"
	}
	if len(msg) > 40 {
		msg = msg[:40]
	}
	return msg
}

// Main is the entry point of every check binary.
func Main(c *Check) {
	tier := flag.String("tier", envOr("VERIF_TIER", "quick"), "quick|thorough")
	replay := flag.String("replay", "", "replay file")
	worker := flag.Bool("worker", false, "internal: worker mode")
	jobs := flag.Int("jobs", 0, "worker processes")
	flag.Parse()
	if *worker {
		workerMain(c, *tier)
		return
	}
	if *replay != "" {
		os.Exit(replayMain(c, *replay))
	}
	os.Exit(parentMain(c, *tier, *jobs))
}

func envOr(k, d string) string {
	if v := os.Getenv(k); v != "" {
		return v
	}
	return d
}

func workerMain(c *Check, tier string) {
	debug.SetMaxStack(64 << 20)
	if c.WorkerInit != nil {
		c.WorkerInit()
	}
	in := bufio.NewReaderSize(os.Stdin, 1<<20)
	out := bufio.NewWriterSize(os.Stdout, 1<<20)
	for {
		line, err := in.ReadString('\n')
		line = strings.TrimRight(line, "\n")
		if line != "" {
			// "<deadline-unix-ms> <unit>"
			sp := strings.IndexByte(line, ' ')
			head := line[:sp]
			hangMs := int64(0)
			if i := strings.IndexByte(head, ','); i >= 0 {
				hangMs, _ = strconv.ParseInt(head[i+1:], 10, 64)
				head = head[:i]
			}
			ms, _ := strconv.ParseInt(head, 10, 64)
			unit := line[sp+1:]
			r := newRec(unit, out)
			if ms > 0 {
				r.deadline = time.UnixMilli(ms)
			}
			r.hangLimit = time.Duration(hangMs) * time.Millisecond
			stop := startWatchdog(c, tier, unit, r, func(line string) {
				os.Stdout.WriteString(line)
				os.Exit(3)
			})
			func() {
				defer func() {
					if p := recover(); p != nil {
						r.Err = fmt.Sprintf("harness panic in unit %s: %v\n%s", unit, p, debug.Stack())
					}
				}()
				c.Run(tier, unit, r)
			}()
			stop()
			r.Counters["max_ms_without_progress"] = atomic.LoadInt64(&r.maxGap)
			r.HashBlob = encodeHashes(r.hset)
			b, _ := json.Marshal(r)
			out.WriteString("R ")
			out.Write(b)
			out.WriteString("\n")
			out.Flush()
		}
		if err != nil {
			return
		}
	}
}

// hangLimit is the no-progress time after which a unit is declared hung.
func hangLimit(c *Check) time.Duration {
	d := 90 * time.Second
	if c.HangLimit > 0 {
		d = c.HangLimit
	}
	if s := os.Getenv("VERIF_HANG"); s != "" {
		if v, err := time.ParseDuration(s); err == nil && v > 0 {
			d = v
		}
	}
	return d
}

// HangCase is the replayable description of a hang: the unit (deterministic) is run again under
// the same watchdog; Case is the case announced last, when the unit announces cases.
type HangCase struct {
	HangUnit string          `json:"hang_unit"`
	Tier     string          `json:"tier"`
	Evals    int64           `json:"evaluations_before"`
	Case     json.RawMessage `json:"last_case,omitempty"`
}

// UnitCase is the replayable description of a finding that needs the history of its unit: the
// unit is re-run from its start in a fresh process.
type UnitCase struct {
	ReplayUnit string          `json:"replay_unit"`
	Tier       string          `json:"tier"`
	Sig        string          `json:"signature"`
	Case       json.RawMessage `json:"case"`
}

// startWatchdog watches r for progress (evaluation count, Enter/Begin stamps); on a hang it calls
// report with an "H <json>\n" line. The returned function stops it.
func startWatchdog(c *Check, tier, unit string, r *Rec, report func(line string)) func() {
	limit := hangLimit(c)
	if r.hangLimit > 0 && r.hangLimit < limit {
		limit = r.hangLimit
	}
	done := make(chan struct{})
	go func() {
		lastE, lastS := int64(-1), int64(-1)
		since := time.Now()
		t := time.NewTicker(500 * time.Millisecond)
		defer t.Stop()
		for {
			select {
			case <-done:
				return
			case <-t.C:
			}
			e, st := atomic.LoadInt64(&r.Evaluations), atomic.LoadInt64(&r.stamp)
			if g := time.Since(since).Milliseconds(); g > atomic.LoadInt64(&r.maxGap) {
				atomic.StoreInt64(&r.maxGap, g)
			}
			if e != lastE || st != lastS {
				lastE, lastS, since = e, st, time.Now()
				continue
			}
			if time.Since(since) < limit {
				continue
			}
			hc := HangCase{HangUnit: unit, Tier: tier, Evals: e}
			if p, ok := r.cur.Load().(*interface{}); ok && p != nil {
				v := *p
				if f, ok := v.(lazyCase); ok {
					v = f()
				}
				hc.Case, _ = json.Marshal(v)
			}
			b, _ := json.Marshal(hc)
			report("H " + string(b) + "\n")
			return
		}
	}()
	return func() { close(done) }
}

// hangSig names a hang by the unit family (unit name without chunk numbers).
func hangSig(unit string) string {
	if i := strings.Index(unit, "\x00after="); i >= 0 {
		unit = unit[:i]
	}
	var sb strings.Builder
	for _, f := range strings.FieldsFunc(unit, func(r rune) bool { return r == ':' || r == '/' || r == ',' }) {
		if _, err := strconv.ParseInt(f, 10, 64); err == nil {
			continue
		}
		if sb.Len() > 0 {
			sb.WriteByte(':')
		}
		sb.WriteString(f)
	}
	return "hang:" + sb.String()
}

func encodeHashes(m map[uint64]struct{}) string {
	var sb strings.Builder
	for h := range m {
		sb.WriteString(strconv.FormatUint(h, 36))
		sb.WriteByte(',')
	}
	return sb.String()
}

func decodeHashes(s string, into map[uint64]struct{}) {
	for _, p := range strings.Split(s, ",") {
		if p == "" {
			continue
		}
		h, _ := strconv.ParseUint(p, 36, 64)
		into[h] = struct{}{}
	}
}

type merged struct {
	hangSeen    map[string]bool
	mu          sync.Mutex
	evaluations int64
	hashes      map[uint64]struct{}
	counters    map[string]int64
	samples     []json.RawMessage
	findings    map[string]Finding
	findingN    map[string]int64
	errs        []string
	capped      bool
	unitsDone   int
}

var maxCounters = map[string]bool{"max_ms_without_progress": true}

// MaxCounter declares that a counter merges by maximum instead of by sum.
func MaxCounter(name string) { maxCounters[name] = true }

func (m *merged) add(r *Rec) {
	m.mu.Lock()
	defer m.mu.Unlock()
	m.evaluations += r.Evaluations
	decodeHashes(r.HashBlob, m.hashes)
	for k, v := range r.Counters {
		if maxCounters[k] {
			if v > m.counters[k] {
				m.counters[k] = v
			}
		} else {
			m.counters[k] += v
		}
	}
	if len(m.samples) < 6 {
		m.samples = append(m.samples, r.Samples...)
	}
	for _, f := range r.Findings {
		if f.Unit == "" {
			f.Unit = r.Unit
		}
		old, ok := m.findings[f.Sig]
		if !ok || len(f.Case) < len(old.Case) {
			m.findings[f.Sig] = f
		}
	}
	for k, v := range r.FindingN {
		m.findingN[k] += v
	}
	if r.Err != "" {
		m.errs = append(m.errs, r.Err)
	}
	if r.Capped {
		m.capped = true
	}
	m.unitsDone++
}

func parentMain(c *Check, tier string, jobs int) int {
	start := time.Now()
	seed, _ := strconv.ParseInt(os.Getenv("VERIF_SEED"), 10, 64)
	units := c.Plan(tier)
	if len(units) == 0 {
		fmt.Fprintln(os.Stderr, "empty plan")
		return 2
	}
	// VERIF_SEED only rotates the order in which units are visited.
	if seed != 0 {
		k := int(uint64(seed) % uint64(len(units)))
		units = append(append([]string{}, units[k:]...), units[:k]...)
	}
	if jobs <= 0 {
		jobs = runtime.NumCPU()
	}
	if c.MaxWorkers > 0 && jobs > c.MaxWorkers {
		jobs = c.MaxWorkers
	}
	if jobs > len(units) {
		jobs = len(units)
	}
	var deadline time.Time
	if c.Deadline != nil {
		if d := c.Deadline(tier); d > 0 {
			deadline = start.Add(d)
		}
	}
	// VERIF_DEADLINE (a Go duration) replaces the tier's soft deadline, for deeper or shorter runs
	// of the same plan; what was not reached is reported as exhaustive:false either way.
	if s := os.Getenv("VERIF_DEADLINE"); s != "" {
		if d, err := time.ParseDuration(s); err == nil && d > 0 {
			deadline = start.Add(d)
		}
	}
	m := &merged{hangSeen: map[string]bool{}, hashes: map[uint64]struct{}{}, counters: map[string]int64{},
		findings: map[string]Finding{}, findingN: map[string]int64{}}
	work := make(chan string, len(units))
	for _, u := range units {
		work <- u
	}
	close(work)
	var wg sync.WaitGroup
	timedOut := false
	var tmu sync.Mutex
	for w := 0; w < jobs; w++ {
		wg.Add(1)
		go func() {
			defer wg.Done()
			runWorker(c, tier, work, m, deadline, func() { tmu.Lock(); timedOut = true; tmu.Unlock() })
		}()
	}
	wg.Wait()

	exhaustive := !timedOut && !m.capped && m.unitsDone == len(units)
	knownSet := loadKnown(c.ID)
	exit := 0
	if len(m.errs) > 0 {
		for _, e := range m.errs {
			fmt.Fprintln(os.Stderr, "INTERNAL:", e)
		}
		exit = 2
	}
	// vacuity guard
	if exhaustive && c.Required != nil {
		for _, k := range c.Required(tier) {
			if m.counters[k] == 0 {
				fmt.Fprintf(os.Stderr, "INTERNAL: required counter %q is zero (vacuous generator?)\n", k)
				exit = 2
			}
		}
	}
	sigs := make([]string, 0, len(m.findings))
	for s := range m.findings {
		sigs = append(sigs, s)
	}
	sort.Strings(sigs)
	violations := 0
	knownHits := map[string]int64{}
	for _, s := range sigs {
		f := m.findings[s]
		if k, ok := knownSet[s]; ok {
			fmt.Printf("KNOWN-FINDING: property=%s %s [%s; %d cases]\n", c.ID, k.What, s, m.findingN[s])
			knownHits[s] = m.findingN[s]
			continue
		}
		// re-run before believing
		if c.Replay != nil {
			okN := 0
			tries := 5
			if strings.HasPrefix(s, "hang:") {
				tries = 2 // each costs the time to the hang plus the hang limit
			}
			for i := 0; i < tries; i++ {
				got, _ := replayInSubprocess(c, f.Case)
				for _, g := range strings.Split(got, "\x1f") {
					if g == s || (c.SameFinding != nil && g != "" && c.SameFinding(s, g)) {
						okN++
						break
					}
				}
			}
			need := tries
			if c.MinRepro > 0 && c.MinRepro < need {
				need = c.MinRepro
			}
			if c.MinReproFor != nil {
				if n := c.MinReproFor(s); n > 0 && n < need {
					need = n
				}
			}
			if okN < need && okN == 0 && f.Unit != "" && !strings.HasPrefix(s, "hang:") {
				// The case alone does not reproduce in a fresh process. The code under test may keep
				// process-wide state (caches, shared nodes) so that the failure needs the cases
				// enumerated before it: re-run the whole (deterministic) unit in a fresh process, twice.
				uc, _ := json.Marshal(UnitCase{ReplayUnit: f.Unit, Tier: tier, Sig: s, Case: f.Case})
				n := 0
				for i := 0; i < 2; i++ {
					got, _ := replayInSubprocess(c, uc)
					for _, g := range strings.Split(got, "\x1f") {
						if g == s || (c.SameFinding != nil && g != "" && c.SameFinding(s, g)) {
							n++
							break
						}
					}
				}
				if n == 2 {
					f.Case = uc
					f.What = "(reproduces only after the earlier cases of its unit in the same process: the code under test keeps state across calls) " + f.What
					okN = need
				}
			}
			if okN < need {
				fmt.Fprintf(os.Stderr, "INTERNAL: finding %s reproduced %d/%d times on replay; not reported as violation\ncase: %s\n", s, okN, tries, f.Case)
				exit = 2
				continue
			}
		}
		path := writeReplay(c.ID, f)
		fmt.Printf("VIOLATION property=%s replay=%s\n", c.ID, path)
		fmt.Printf("  signature: %s\n  what: %s\n  cases with this signature: %d\n", s, f.What, m.findingN[s])
		violations++
	}
	cov := map[string]interface{}{
		"evaluations":         m.evaluations,
		"distinct_nontrivial": len(m.hashes),
		"rule":                c.Rule,
		"samples":             m.samples,
		"exhaustive":          exhaustive,
		"units_planned":       len(units),
		"units_completed":     m.unitsDone,
		"counters":            m.counters,
		"known_finding_cases": knownHits,
		"workers":             jobs,
	}
	if c.Bounds != nil {
		cov["bounds"] = c.Bounds(tier)
	}
	if timedOut {
		cov["deadline_hit"] = true
	}
	if c.Finish != nil {
		c.Finish(tier, cov, m.counters)
	}
	if len(m.samples) == 0 {
		cov["samples"] = []string{"(no samples recorded)"}
	}
	ev := map[string]interface{}{
		"property_id": c.ID,
		"tier":        tier,
		"seed":        seed,
		"level":       c.Level,
		"coverage":    cov,
		"assumptions": c.Assumptions,
		"wall_s":      time.Since(start).Seconds(),
		"violations":  violations,
	}
	b, _ := json.MarshalIndent(ev, "", " ")
	os.MkdirAll(filepath.Join(VerifDir, "evidence"), 0o755)
	if err := os.WriteFile(filepath.Join(VerifDir, "evidence", c.ID+".json"), b, 0o644); err != nil {
		fmt.Fprintln(os.Stderr, "INTERNAL: cannot write evidence:", err)
		exit = 2
	}
	fmt.Printf("%s tier=%s evaluations=%d distinct_nontrivial=%d units=%d/%d exhaustive=%v violations=%d wall=%.1fs\n",
		c.ID, tier, m.evaluations, len(m.hashes), m.unitsDone, len(units), exhaustive, violations, time.Since(start).Seconds())
	if violations > 0 {
		return 1
	}
	return exit
}

func runWorker(c *Check, tier string, work chan string, m *merged, deadline time.Time, onTimeout func()) {
	for {
		// (re)start a worker process
		unit, ok := <-work
		if !ok {
			return
		}
		pending := &unit
		announcing := false
		for pending != nil {
			if !deadline.IsZero() && time.Now().After(deadline) {
				onTimeout()
				return
			}
			cmd := exec.Command(os.Args[0], "--worker", "--tier", tier)
			cmd.Env = append(os.Environ(), "GOMAXPROCS=2", "GOMEMLIMIT=6GiB")
			if announcing {
				cmd.Env = append(cmd.Env, "VERIF_ANNOUNCE=1")
			}
			stdin, _ := cmd.StdinPipe()
			stdout, _ := cmd.StdoutPipe()
			var errBuf tailBuffer
			cmd.Stderr = &errBuf
			if err := cmd.Start(); err != nil {
				m.mu.Lock()
				m.errs = append(m.errs, "cannot start worker: "+err.Error())
				m.mu.Unlock()
				return
			}
			rd := bufio.NewReaderSize(stdout, 1<<20)
			var lastBegin json.RawMessage
			var hang json.RawMessage
			died := false
			send := func(u string) {
				ms := int64(0)
				if !deadline.IsZero() {
					ms = deadline.UnixMilli()
				}
				// once a unit family has hung (and is reported), its other units get a short limit
				hm := int64(0)
				m.mu.Lock()
				if m.hangSeen[hangSig(u)] {
					hm = 10000
				}
				m.mu.Unlock()
				fmt.Fprintf(stdin, "%d,%d %s\n", ms, hm, u)
			}
			send(*pending)
			cur := *pending
			for {
				line, err := rd.ReadString('\n')
				if strings.HasPrefix(line, "B ") {
					lastBegin = json.RawMessage(strings.TrimSpace(line[2:]))
					continue
				}
				if strings.HasPrefix(line, "H ") {
					hang = json.RawMessage(strings.TrimSpace(line[2:]))
					continue
				}
				if strings.HasPrefix(line, "R ") {
					var r Rec
					if e := json.Unmarshal([]byte(line[2:]), &r); e != nil {
						m.mu.Lock()
						m.errs = append(m.errs, "bad worker result: "+e.Error())
						m.mu.Unlock()
					} else {
						m.add(&r)
					}
					lastBegin = nil
					next, ok := <-work
					if !ok || (!deadline.IsZero() && time.Now().After(deadline)) {
						if ok {
							onTimeout()
						}
						stdin.Close()
						cmd.Wait()
						return
					}
					cur = next
					send(cur)
					continue
				}
				if err != nil {
					died = true
					break
				}
			}
			stdin.Close()
			cmd.Wait()
			if died && hang != nil {
				// the code under test did not return: a finding for the unit; the unit is not resumed
				r := newRec(cur, nil)
				r.Fail(hangSig(cur), fmt.Sprintf("no progress for %s in unit %q: the code under test does not return (case: last_case if the unit announces cases, else re-run the unit)", hangLimit(c), cur), hang)
				r.HashBlob = ""
				m.add(r)
				m.mu.Lock()
				m.unitsDone--
				m.capped = true
				m.hangSeen[hangSig(cur)] = true
				m.mu.Unlock()
				pending = nil
				continue
			}
			if died && lastBegin == nil && !announcing {
				// nobody announced the fatal case: run the unit again with every Enter announced
				announcing = true
				continue
			}
			if died && lastBegin != nil && (c.DiedSig == nil || announcing) {
				sig, what := defaultDiedSig(errBuf.String())
				if c.DiedSig != nil {
					sig, what = c.DiedSig(lastBegin, errBuf.String())
				}
				r := newRec(cur, nil)
				r.Fail(sig, what, lastBegin)
				r.HashBlob = ""
				m.add(r)
				m.mu.Lock()
				m.unitsDone-- // unit not completed and (without resume support) not resumed
				m.capped = true
				m.mu.Unlock()
				pending = nil
				continue
			}
			if died {
				if lastBegin != nil && c.DiedSig != nil {
					sig, what := c.DiedSig(lastBegin, errBuf.String())
					r := newRec(cur, nil)
					r.Fail(sig, what, lastBegin)
					r.HashBlob = ""
					m.add(r)
					m.mu.Lock()
					m.unitsDone-- // unit not completed
					m.mu.Unlock()
					// resume the same unit after the fatal case
					base := cur
					if i := strings.Index(cur, "\x00after="); i >= 0 {
						base = cur[:i]
					}
					if After(cur) == string(lastBegin) {
						m.mu.Lock()
						m.errs = append(m.errs, fmt.Sprintf("worker died twice on the same case in unit %q: %s", base, lastBegin))
						m.mu.Unlock()
						pending = nil
						continue
					}
					next := base + "\x00after=" + string(lastBegin)
					pending = &next
					continue
				}
				m.mu.Lock()
				m.errs = append(m.errs, fmt.Sprintf("worker died in unit %q: %s", cur, errBuf.String()))
				m.mu.Unlock()
			}
			pending = nil
		}
	}
}

type tailBuffer struct {
	mu  sync.Mutex
	buf []byte
}

func (t *tailBuffer) Write(p []byte) (int, error) {
	t.mu.Lock()
	defer t.mu.Unlock()
	t.buf = append(t.buf, p...)
	if len(t.buf) > 16384 {
		// keep head (panic message) and tail
		head := append([]byte{}, t.buf[:4096]...)
		tail := t.buf[len(t.buf)-8192:]
		t.buf = append(append(head, []byte("\n...\n")...), tail...)
	}
	return len(p), nil
}

func (t *tailBuffer) String() string {
	t.mu.Lock()
	defer t.mu.Unlock()
	return string(t.buf)
}

func writeReplay(id string, f Finding) string {
	dir := filepath.Join(VerifDir, "replays", id)
	os.MkdirAll(dir, 0o755)
	h := sha1.Sum([]byte(f.Sig))
	path := filepath.Join(dir, hex.EncodeToString(h[:6])+".json")
	b, _ := json.MarshalIndent(map[string]interface{}{
		"property": id, "signature": f.Sig, "what": f.What, "case": f.Case,
	}, "", " ")
	os.WriteFile(path, b, 0o644)
	return path
}

func replayInSubprocess(c *Check, cs json.RawMessage) (string, string) {
	f, err := os.CreateTemp("", "vreplay*.json")
	if err != nil {
		return "?", err.Error()
	}
	defer os.Remove(f.Name())
	b, _ := json.Marshal(map[string]interface{}{"case": cs})
	f.Write(b)
	f.Close()
	cmd := exec.Command(os.Args[0], "--replay", f.Name())
	out, _ := cmd.CombinedOutput()
	s := string(out)
	sig := ""
	for _, l := range strings.Split(s, "\n") {
		if strings.HasPrefix(l, "REPLAY-SIG: ") {
			if sig != "" {
				sig += "\x1f"
			}
			sig += strings.TrimPrefix(l, "REPLAY-SIG: ")
		}
	}
	if sig == "" && !strings.Contains(s, "REPLAY-PASS") {
		if c.DiedSig != nil {
			sig, _ = c.DiedSig(cs, s)
		} else if strings.Contains(s, "fatal error:") || strings.Contains(s, "panic:") || strings.Contains(s, "goroutine ") {
			sig, _ = defaultDiedSig(s)
		}
	}
	return sig, s
}

func replayMain(c *Check, path string) int {
	b, err := os.ReadFile(path)
	if err != nil {
		fmt.Fprintln(os.Stderr, err)
		return 2
	}
	var rf struct {
		Case json.RawMessage `json:"case"`
	}
	if err := json.Unmarshal(b, &rf); err != nil {
		fmt.Fprintln(os.Stderr, err)
		return 2
	}
	debug.SetMaxStack(64 << 20)
	runtime.GOMAXPROCS(2) // as in the worker processes (code under test may read it)
	if c.WorkerInit != nil {
		c.WorkerInit()
	}
	var hc HangCase
	if json.Unmarshal(rf.Case, &hc) == nil && hc.HangUnit != "" {
		// re-run the (deterministic) unit under the same watchdog
		r := newRec(hc.HangUnit, bufio.NewWriter(io.Discard))
		stop := startWatchdog(c, hc.Tier, hc.HangUnit, r, func(line string) {
			fmt.Println("unit hung again: " + strings.TrimSpace(line))
			fmt.Println("REPLAY-SIG: " + hangSig(hc.HangUnit))
			os.Exit(1)
		})
		func() {
			defer func() { recover() }()
			c.Run(hc.Tier, hc.HangUnit, r)
		}()
		stop()
		fmt.Println("unit completed")
		fmt.Println("REPLAY-PASS")
		return 0
	}
	var uc UnitCase
	if json.Unmarshal(rf.Case, &uc) == nil && uc.ReplayUnit != "" {
		r := newRec(uc.ReplayUnit, bufio.NewWriter(io.Discard))
		stop := startWatchdog(c, uc.Tier, uc.ReplayUnit, r, func(line string) {
			fmt.Println("REPLAY-SIG: " + hangSig(uc.ReplayUnit))
			os.Exit(1)
		})
		c.Run(uc.Tier, uc.ReplayUnit, r)
		stop()
		if len(r.Findings) == 0 {
			fmt.Println("REPLAY-PASS")
			return 0
		}
		for _, f := range r.Findings {
			fmt.Printf("unit %s: %s: %s\n", uc.ReplayUnit, f.Sig, f.What)
			fmt.Println("REPLAY-SIG: " + f.Sig)
		}
		return 1
	}
	if c.Replay == nil {
		fmt.Fprintln(os.Stderr, "no replay for this check")
		return 2
	}
	sig, obs := c.Replay(rf.Case)
	fmt.Println(obs)
	if sig == "" {
		fmt.Println("REPLAY-PASS")
		return 0
	}
	// a case may produce several findings (joined by \x1f)
	for _, one := range strings.Split(sig, "\x1f") {
		fmt.Println("REPLAY-SIG: " + one)
	}
	return 1
}

// ---- small helpers shared by the checks ----

// Chunks splits [0,n) into units "name:lo:hi" of at most size each.
func Chunks(name string, n, size int64) []string {
	var out []string
	for lo := int64(0); lo < n; lo += size {
		hi := lo + size
		if hi > n {
			hi = n
		}
		out = append(out, fmt.Sprintf("%s:%d:%d", name, lo, hi))
	}
	return out
}

// ParseChunk parses a unit made by Chunks.
func ParseChunk(u string) (name string, lo, hi int64) {
	if i := strings.Index(u, "\x00"); i >= 0 {
		u = u[:i]
	}
	p := strings.Split(u, ":")
	name = strings.Join(p[:len(p)-2], ":")
	lo, _ = strconv.ParseInt(p[len(p)-2], 10, 64)
	hi, _ = strconv.ParseInt(p[len(p)-1], 10, 64)
	return
}

// After returns the case announced before a worker death, if this unit is a
// resumption ("" otherwise).
func After(u string) string {
	if i := strings.Index(u, "\x00after="); i >= 0 {
		return u[i+len("\x00after="):]
	}
	return ""
}

// Discard is an io.Writer that drops everything.
var Discard io.Writer = io.Discard

// JSON marshals v compactly (for canonical forms).
func JSON(v interface{}) string {
	b, _ := json.Marshal(v)
	return string(b)
}

// DeadlineTime returns the unit's soft deadline (zero when none).
func (r *Rec) DeadlineTime() time.Time { return r.deadline }

// NewReplayRec returns a recorder for use inside Replay functions.
func NewReplayRec() *Rec { return newRec("replay", bufio.NewWriter(io.Discard)) }

// Signatures lists the signatures recorded so far.
func (r *Rec) Signatures() []string {
	var out []string
	for _, f := range r.Findings {
		out = append(out, f.Sig)
	}
	return out
}
