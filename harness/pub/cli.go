package pub

// Publishing through the real command line: the binary is run on a file and the output directory is
// read back as pages.

import (
	"context"
	"os"
	"os/exec"
	"path/filepath"
	"sort"
	"time"
)

// CLIPublish runs `<binary> publish -gedcom <file with text> -output-dir <dir> [-living <living>] <no-flags for
// the groups missing in mask> -jobs <jobs>` and returns the files of the output directory. refused is
// true when the command ends with a non-zero status (e.g. a value it does not accept).
func CLIPublish(binary, text, living string, mask, jobs int) (w *MemWriter, refused bool, stderr string) {
	dir, err := os.MkdirTemp("/dev/shm", "clipub-")
	if err != nil {
		dir, _ = os.MkdirTemp("", "clipub-")
	}
	defer os.RemoveAll(dir)
	in, out := filepath.Join(dir, "in.ged"), filepath.Join(dir, "out")
	os.WriteFile(in, []byte(text), 0o644)
	os.MkdirAll(out, 0o755)
	args := []string{"publish", "-gedcom", in, "-output-dir", out}
	if living != "" {
		args = append(args, "-living", living)
	}
	for i, g := range Groups {
		if mask&(1<<uint(i)) == 0 {
			args = append(args, "-no-"+g)
		}
	}
	if jobs > 0 {
		args = append(args, "-jobs", itoa(jobs))
	}
	ctx, cancel := context.WithTimeout(context.Background(), 60*time.Second)
	defer cancel()
	cmd := exec.CommandContext(ctx, binary, args...)
	cmd.Env = append(os.Environ(), "GOMAXPROCS=2")
	b, runErr := cmd.CombinedOutput()
	w = &MemWriter{}
	if runErr != nil {
		return w, true, string(b)
	}
	var names []string
	filepath.Walk(out, func(p string, fi os.FileInfo, err error) error {
		if err == nil && !fi.IsDir() {
			rel, _ := filepath.Rel(out, p)
			names = append(names, rel)
		}
		return nil
	})
	sort.Strings(names)
	for i, n := range names {
		body, _ := os.ReadFile(filepath.Join(out, n))
		w.Pages = append(w.Pages, Page{Name: n, Body: string(body), Seq: i})
	}
	return w, false, string(b)
}

func itoa(n int) string {
	if n == 0 {
		return "0"
	}
	s := ""
	for n > 0 {
		s = string(rune('0'+n%10)) + s
		n /= 10
	}
	return s
}
