// Package pub holds what the publishing checks (C17, C18, C19) share: an
// in-memory FileWriter that renders every page under recover, and a strict
// HTML tokenizer.
package pub

import (
	"bytes"
	"errors"
	"fmt"
	"html"
	"regexp"
	"sort"
	"strings"
	"sync"

	"github.com/elliotchance/gedcom/v39"
	ghtml "github.com/elliotchance/gedcom/v39/html"
	"github.com/elliotchance/gedcom/v39/html/core"
)

type Page struct {
	Name  string
	Body  string
	Panic string
	Seq   int
}

// MemWriter collects the files handed to it. FailAt > 0 makes the FailAt-th WriteFile return an error;
// with KeepsFailing every later call fails as well (a full disk, a removed output directory).
type MemWriter struct {
	mu      sync.Mutex
	Pages   []Page
	FailAt  int
	KeepsFailing bool
	calls   int
	AfterFailure int // files handed over after a failure was returned
	failed  bool
}

var ErrInjected = errors.New("injected write failure")

func (w *MemWriter) WriteFile(f *core.File) (err error) {
	w.mu.Lock()
	w.calls++
	n := w.calls
	if w.failed {
		w.AfterFailure++
	}
	if w.FailAt > 0 && (n == w.FailAt || (w.KeepsFailing && n > w.FailAt)) {
		w.failed = true
		w.mu.Unlock()
		return ErrInjected
	}
	w.mu.Unlock()
	p := Page{Name: f.Name, Seq: n}
	func() {
		defer func() {
			if r := recover(); r != nil {
				p.Panic = fmt.Sprint(r)
			}
		}()
		var buf bytes.Buffer
		if _, e := f.Component.WriteHTMLTo(&buf); e != nil {
			p.Panic = "error: " + e.Error()
		}
		p.Body = buf.String()
	}()
	w.mu.Lock()
	w.Pages = append(w.Pages, p)
	w.mu.Unlock()
	return nil
}

// Sorted returns the pages ordered by name (then sequence).
func (w *MemWriter) Sorted() []Page {
	out := append([]Page{}, w.Pages...)
	sort.SliceStable(out, func(i, j int) bool { return out[i].Name < out[j].Name })
	return out
}

// Options builds publish options from a page-group mask (bit i set = group i shown).
var Groups = []string{"individuals", "places", "families", "surnames", "sources", "statistics"}

func Options(mask int, living ghtml.LivingVisibility) *ghtml.PublishShowOptions {
	return &ghtml.PublishShowOptions{
		ShowIndividuals: mask&1 != 0, ShowPlaces: mask&2 != 0, ShowFamilies: mask&4 != 0,
		ShowSurnames: mask&8 != 0, ShowSources: mask&16 != 0, ShowStatistics: mask&32 != 0,
		LivingVisibility: living,
	}
}

// Publish publishes a decoded document into memory.
func Publish(doc *gedcom.Document, opt *ghtml.PublishShowOptions, jobs int, failAt int) (*MemWriter, error) {
	w := &MemWriter{FailAt: failAt}
	err := ghtml.NewPublisher(doc, opt).Publish(w, jobs)
	return w, err
}

// ---------- strict HTML tokenizer ----------

type Attr struct {
	Name  string
	Value string // raw (entities not decoded)
	Quote byte   // '"', '\'' or 0 (unquoted / no value)
	HasValue bool
}

type Token struct {
	Kind  string // text | start | end | comment | doctype | raw
	Name  string
	Attrs []Attr
	Text  string
	Pos   int
	SelfClosing bool
}

var voidElements = map[string]bool{"meta": true, "link": true, "br": true, "hr": true, "img": true, "input": true, "area": true, "base": true, "col": true, "embed": true, "source": true, "track": true, "wbr": true}
var rawElements = map[string]bool{"script": true, "style": true, "title": false, "textarea": false}

func isNameStart(c byte) bool { return c >= 'a' && c <= 'z' || c >= 'A' && c <= 'Z' }
func isNameChar(c byte) bool {
	return isNameStart(c) || c >= '0' && c <= '9' || c == '-' || c == '_' || c == ':'
}
func isSpace(c byte) bool { return c == ' ' || c == '\n' || c == '\t' || c == '\r' || c == '\f' }

// Tokenize splits a page strictly; any construct it cannot read is an error.
func Tokenize(s string) ([]Token, error) {
	var out []Token
	i := 0
	for i < len(s) {
		if s[i] != '<' {
			j := strings.IndexByte(s[i:], '<')
			if j < 0 {
				j = len(s) - i
			}
			out = append(out, Token{Kind: "text", Text: s[i : i+j], Pos: i})
			i += j
			continue
		}
		switch {
		case strings.HasPrefix(s[i:], "<!--"):
			j := strings.Index(s[i+4:], "-->")
			if j < 0 {
				return out, fmt.Errorf("unterminated comment at %d", i)
			}
			out = append(out, Token{Kind: "comment", Text: s[i : i+4+j+3], Pos: i})
			i += 4 + j + 3
		case strings.HasPrefix(strings.ToLower(s[i:]), "<!doctype"):
			j := strings.IndexByte(s[i:], '>')
			if j < 0 {
				return out, fmt.Errorf("unterminated doctype at %d", i)
			}
			out = append(out, Token{Kind: "doctype", Text: s[i : i+j+1], Pos: i})
			i += j + 1
		case i+1 < len(s) && s[i+1] == '/':
			j := i + 2
			for j < len(s) && isNameChar(s[j]) {
				j++
			}
			if j == i+2 {
				return out, fmt.Errorf("malformed end tag at %d: %q", i, clip(s[i:]))
			}
			name := strings.ToLower(s[i+2 : j])
			for j < len(s) && isSpace(s[j]) {
				j++
			}
			if j >= len(s) || s[j] != '>' {
				return out, fmt.Errorf("malformed end tag at %d: %q", i, clip(s[i:]))
			}
			out = append(out, Token{Kind: "end", Name: name, Pos: i})
			i = j + 1
		case i+1 < len(s) && isNameStart(s[i+1]):
			j := i + 1
			for j < len(s) && isNameChar(s[j]) {
				j++
			}
			t := Token{Kind: "start", Name: strings.ToLower(s[i+1 : j]), Pos: i}
			for {
				sp := j
				for j < len(s) && isSpace(s[j]) {
					j++
				}
				if j >= len(s) {
					return out, fmt.Errorf("unterminated tag at %d: %q", i, clip(s[i:]))
				}
				if s[j] == '>' {
					j++
					break
				}
				if s[j] == '/' && j+1 < len(s) && s[j+1] == '>' {
					t.SelfClosing = true
					j += 2
					break
				}
				if sp == j {
					return out, fmt.Errorf("missing space before attribute at %d in tag at %d: %q", j, i, clip(s[i:]))
				}
				k := j
				for k < len(s) && !isSpace(s[k]) && s[k] != '=' && s[k] != '>' && s[k] != '/' && s[k] != '"' && s[k] != '\'' && s[k] != '<' {
					k++
				}
				if k == j {
					return out, fmt.Errorf("malformed attribute name at %d in tag at %d: %q", j, i, clip(s[i:]))
				}
				a := Attr{Name: strings.ToLower(s[j:k])}
				j = k
				if j < len(s) && s[j] == '=' {
					j++
					a.HasValue = true
					if j < len(s) && (s[j] == '"' || s[j] == '\'') {
						qc := s[j]
						e := strings.IndexByte(s[j+1:], qc)
						if e < 0 {
							return out, fmt.Errorf("unterminated attribute value at %d: %q", j, clip(s[i:]))
						}
						a.Quote = qc
						a.Value = s[j+1 : j+1+e]
						j = j + 1 + e + 1
					} else {
						k := j
						for k < len(s) && !isSpace(s[k]) && s[k] != '>' {
							if s[k] == '"' || s[k] == '\'' || s[k] == '<' || s[k] == '=' || s[k] == '`' {
								return out, fmt.Errorf("illegal character in unquoted attribute value at %d: %q", k, clip(s[i:]))
							}
							k++
						}
						a.Value = s[j:k]
						j = k
					}
				}
				t.Attrs = append(t.Attrs, a)
			}
			out = append(out, t)
			i = j
			if rawElements[t.Name] && !t.SelfClosing {
				e := strings.Index(strings.ToLower(s[i:]), "</"+t.Name)
				if e < 0 {
					return out, fmt.Errorf("unterminated <%s> at %d", t.Name, t.Pos)
				}
				out = append(out, Token{Kind: "raw", Name: t.Name, Text: s[i : i+e], Pos: i})
				i += e
			}
		default:
			return out, fmt.Errorf("stray '<' at %d: %q", i, clip(s[i:]))
		}
	}
	return out, nil
}

func clip(s string) string {
	if len(s) > 80 {
		return s[:80]
	}
	return s
}

// CheckNesting verifies that start and end tags are properly nested.
func CheckNesting(toks []Token) error {
	var stack []string
	for _, t := range toks {
		switch t.Kind {
		case "start":
			if voidElements[t.Name] || t.SelfClosing {
				continue
			}
			stack = append(stack, t.Name)
		case "end":
			if voidElements[t.Name] {
				continue
			}
			if len(stack) == 0 || stack[len(stack)-1] != t.Name {
				top := "(nothing)"
				if len(stack) > 0 {
					top = stack[len(stack)-1]
				}
				return fmt.Errorf("</%s> at %d closes <%s>", t.Name, t.Pos, top)
			}
			stack = stack[:len(stack)-1]
		}
	}
	if len(stack) > 0 {
		return fmt.Errorf("unclosed <%s>", stack[len(stack)-1])
	}
	return nil
}

var locationRe = regexp.MustCompile(`location\.href\s*=\s*'([^']*)'`)

// Links returns the href targets and the location.href targets of a page (entities decoded).
func Links(toks []Token) []string {
	var out []string
	for _, t := range toks {
		if t.Kind != "start" {
			continue
		}
		for _, a := range t.Attrs {
			v := html.UnescapeString(a.Value)
			switch {
			case a.Name == "href":
				out = append(out, v)
			case strings.HasPrefix(a.Name, "on"):
				for _, m := range locationRe.FindAllStringSubmatch(v, -1) {
					out = append(out, m[1])
				}
			}
		}
	}
	return out
}
