#!/bin/bash
# e1/build.sh <cmd-dir-name> <output binary>: instrument the current /repo tree and build an E1 harness with the overlay.
set -eu
export GOFLAGS=-mod=mod GOPROXY=off GOSUMDB=off GOTOOLCHAIN=local
NAME="$1"; OUT="$2"
V="${VERIF_DIR:-/verif}"
R="${VERIF_REPO:-/repo}"
mkdir -p "$V/.build"
if [ ! -x "$V/.build/vinstr" ] || [ -n "$(find "$V/tools/vinstr" -name '*.go' -newer "$V/.build/vinstr")" ]; then
  (cd "$V/tools/vinstr" && go build -o "$V/.build/vinstr" .)
fi
if [ -n "${E1_KEEP_SCRATCH:-}" ]; then
  SCRATCH="$E1_KEEP_SCRATCH"; mkdir -p "$SCRATCH"   # the caller removes it (tools/racecross.sh reads the rewritten files)
else
  SCRATCH=$(mktemp -d "${VERIF_SCRATCH:-/dev/shm}/vinstr.XXXXXX")
  trap 'rm -rf "$SCRATCH"' EXIT
fi
"$V/.build/vinstr" -repo "$R" -out "$SCRATCH" -vsched "$V/engine/vsched" -extra "$R/html/zz_verif_reset.go=$V/engine/hooks/html_reset.go" > "$SCRATCH/vinstr.log" || { cat "$SCRATCH/vinstr.log" >&2; exit 2; }
cp "$SCRATCH/vinstr-report.json" "$V/.build/vinstr-report.json"
(cd "$V/harness" && go build ${E1_GOFLAGS:-} -overlay "$SCRATCH/overlay.json" -o "$OUT" "./cmd/$NAME")
