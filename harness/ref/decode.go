package ref

// Reference line/level decoder for C02/C03/C20. Written by hand from the line
// grammar in the property text: no regular expressions, no gedcom code.

type RNode struct {
	Level    int
	Pointer  string
	Tag      string
	Value    string
	Children []*RNode
	Line     int
}

type Outcome int

const (
	Accept    Outcome = iota
	Reject            // an error naming line Line
	TooDeep           // the documented "indent is too large" panic (AllowInvalidIndents=false)
	Undefined         // the property defines nothing here (C03's business)
)

type Decoded struct {
	Outcome Outcome
	Line    int // offending line for Reject / TooDeep / Undefined
	Why     string
	HasBOM  bool
	Roots   []*RNode
	// Unreadable is true when an accepted stream contained a line the grammar
	// cannot read (only possible with AllowMultiLine).
	Continuations int
}

func isDigit(b byte) bool { return b >= '0' && b <= '9' }
func isWord(b byte) bool {
	return b == '_' || isDigit(b) || (b >= 'a' && b <= 'z') || (b >= 'A' && b <= 'Z')
}

// TrimASCII trims ASCII white space (the alphabets used contain no other
// Unicode space).
func TrimASCII(s string) string {
	i, j := 0, len(s)
	sp := func(b byte) bool { return b == ' ' || b == '\t' || b == '\n' || b == '\r' || b == '\v' || b == '\f' }
	for i < j && sp(s[i]) {
		i++
	}
	for j > i && sp(s[j-1]) {
		j--
	}
	return s[i:j]
}

// ParseLine reads "level [@xref@] tag [value]". maxLevelDigits is the number
// of level digits the grammar allows (0 = any number).
func ParseLine(line string) (level int, pointer, tag, value string, ok bool) {
	i := 0
	for i < len(line) && isDigit(line[i]) {
		if level < 1<<40 {
			level = level*10 + int(line[i]-'0') // saturates: a level this large is over-deep anyway
		}
		i++
	}
	if i == 0 {
		return 0, "", "", "", false
	}
	j := i
	for j < len(line) && line[j] == ' ' {
		j++
	}
	if j == i {
		return 0, "", "", "", false
	}
	i = j
	if i < len(line) && line[i] == '@' {
		k := i + 1
		for k < len(line) && line[k] != '@' {
			k++
		}
		// need at least one char between the @s, a closing @ and one space
		if k == i+1 || k >= len(line) || k+1 >= len(line) || line[k+1] != ' ' {
			return 0, "", "", "", false
		}
		pointer = line[i+1 : k]
		i = k + 2
	}
	j = i
	for j < len(line) && isWord(line[j]) {
		j++
	}
	if j == i {
		return 0, "", "", "", false
	}
	tag = line[i:j]
	if j < len(line) && line[j] == ' ' {
		j++
	}
	value = line[j:]
	return level, pointer, tag, value, true
}

// LevelDigits returns the number of leading digits of a line.
func LevelDigits(line string) int {
	i := 0
	for i < len(line) && isDigit(line[i]) {
		i++
	}
	return i
}

// SplitLines splits at every CR or LF. The final unterminated segment is
// included (possibly empty).
func SplitLines(data string) []string {
	var out []string
	start := 0
	for i := 0; i < len(data); i++ {
		if data[i] == '\n' || data[i] == '\r' {
			out = append(out, data[start:i])
			start = i + 1
		}
	}
	out = append(out, data[start:])
	return out
}

func Decode(data string, allowMultiLine, allowInvalidIndents bool) Decoded {
	var res Decoded
	if len(data) >= 3 && data[0] == 0xEF && data[1] == 0xBB && data[2] == 0xBF {
		res.HasBOM = true
		data = data[3:]
	}
	var open []*RNode // open[k] = deepest open node at level k
	var prev *RNode
	var all []*RNode
	seenFamily := false
	for idx, line := range SplitLines(data) {
		ln := idx + 1
		if line == "" {
			if allowMultiLine && prev != nil {
				prev.Value += "\n"
			}
			continue
		}
		level, pointer, tag, value, ok := ParseLine(line)
		if !ok {
			if allowMultiLine && prev != nil {
				prev.Value += "\n" + line
				res.Continuations++
				continue
			}
			res.Outcome, res.Line, res.Why = Reject, ln, "unparsable line"
			return res
		}
		if (tag == "HUSB" || tag == "WIFE" || tag == "CHIL") && !seenFamily {
			res.Outcome, res.Line, res.Why = Undefined, ln, "family role line before any family record"
			return res
		}
		if tag == "FAM" {
			seenFamily = true
		}
		if tag == "INDI" || tag == "FAM" {
			value = "" // individual and family record lines carry no value
		}
		n := &RNode{Level: level, Pointer: pointer, Tag: tag, Value: value, Line: ln}
		all = append(all, n)
		if level == 0 {
			res.Roots = append(res.Roots, n)
			open = []*RNode{n}
			prev = n
			continue
		}
		if level > len(open) {
			if !allowInvalidIndents {
				res.Outcome, res.Line, res.Why = TooDeep, ln, "level deeper than any open parent allows"
				return res
			}
			if len(open) == 0 {
				res.Outcome, res.Line, res.Why = Undefined, ln, "over-deep first line: no open node to hang it from"
				return res
			}
			level = len(open)
			n.Level = level
		}
		parent := open[level-1]
		parent.Children = append(parent.Children, n)
		open = append(open[:level], n)
		prev = n
	}
	for _, n := range all {
		n.Value = TrimASCII(n.Value)
	}
	return res
}

// Count returns the number of nodes of a forest.
func Count(ns []*RNode) int {
	c := 0
	for _, n := range ns {
		c += 1 + Count(n.Children)
	}
	return c
}
