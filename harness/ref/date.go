package ref

import "strings"

// Reference DATE parser written from the grammar in the Date doc comment:
// table lookups and token splitting only, no regular expressions.

type Constraint int

const (
	Exact Constraint = iota
	About
	Before
	After
)

type RDate struct {
	Day, Month, Year int
	Constraint       Constraint
}

type Verdict int

const (
	Valid Verdict = iota
	Invalid
	Unspecified // the documentation does not say (extra leading zeros, year 0, 5-digit years)
)

var Prefixes = map[string]Constraint{
	"abt": About, "abt.": About, "about": About, "c.": About, "ca": About, "ca.": About, "cca": About, "cca.": About, "circa": About,
	"aft": After, "aft.": After, "after": After,
	"bef": Before, "bef.": Before, "before": Before,
}

var MonthNames = map[string]int{
	"jan": 1, "january": 1, "feb": 2, "february": 2, "mar": 3, "march": 3, "apr": 4, "april": 4, "may": 5,
	"jun": 6, "june": 6, "jul": 7, "july": 7, "aug": 8, "august": 8, "sep": 9, "september": 9,
	"oct": 10, "october": 10, "nov": 11, "november": 11, "dec": 12, "december": 12,
}

var BetweenWords = map[string]bool{"between": true, "bet": true, "bet.": true, "from": true}
var AndWords = map[string]bool{"and": true, "to": true, "-": true}

func allDigits(s string) bool {
	if s == "" {
		return false
	}
	for i := 0; i < len(s); i++ {
		if !isDigit(s[i]) {
			return false
		}
	}
	return true
}

func atoi(s string) int {
	n := 0
	for i := 0; i < len(s); i++ {
		n = n*10 + int(s[i]-'0')
		if n > 1<<30 {
			return 1 << 30
		}
	}
	return n
}

func fields(s string) []string {
	var out []string
	for _, f := range strings.Split(s, " ") {
		if f != "" {
			out = append(out, f)
		}
	}
	return out
}

// ParseSingle parses "prefix? [day] [month] year" given as tokens.
func ParseSingle(tokens []string) (RDate, Verdict) {
	var d RDate
	if len(tokens) == 0 {
		return d, Invalid
	}
	if c, ok := Prefixes[strings.ToLower(tokens[0])]; ok {
		d.Constraint = c
		tokens = tokens[1:]
	}
	if len(tokens) < 1 || len(tokens) > 3 {
		return RDate{}, Invalid
	}
	unspecified := false
	ys := tokens[len(tokens)-1]
	if !allDigits(ys) {
		return RDate{}, Invalid
	}
	if len(ys) > 4 {
		unspecified = true
	}
	d.Year = atoi(ys)
	if d.Year == 0 {
		unspecified = true
	}
	if len(tokens) >= 2 {
		m, ok := MonthNames[strings.ToLower(tokens[len(tokens)-2])]
		if !ok {
			return RDate{}, Invalid
		}
		d.Month = m
	}
	if len(tokens) == 3 {
		ds := tokens[0]
		if !allDigits(ds) {
			return RDate{}, Invalid
		}
		d.Day = atoi(ds)
		if len(ds) > 2 {
			unspecified = true // more than one leading zero / three digits
		}
		if d.Day < 1 || d.Day > 31 {
			if unspecified {
				return RDate{}, Unspecified
			}
			return RDate{}, Invalid
		}
		if d.Year >= 1 && d.Year <= 9999 && d.Day > DaysInMonth(d.Year, d.Month) {
			return RDate{}, Invalid
		}
	}
	if unspecified {
		return d, Unspecified
	}
	return d, Valid
}

// ParseDate parses a DATE value. For Valid, start and end are the two ends.
func ParseDate(s string) (start, end RDate, v Verdict) {
	tokens := fields(s)
	if len(tokens) == 0 {
		return start, end, Invalid
	}
	if BetweenWords[strings.ToLower(tokens[0])] {
		var ands []int
		for i := 1; i < len(tokens); i++ {
			if AndWords[strings.ToLower(tokens[i])] {
				ands = append(ands, i)
			}
		}
		if len(ands) != 1 {
			return start, end, Invalid
		}
		a, va := ParseSingle(tokens[1:ands[0]])
		b, vb := ParseSingle(tokens[ands[0]+1:])
		switch {
		case va == Invalid || vb == Invalid:
			return RDate{}, RDate{}, Invalid
		case va == Unspecified || vb == Unspecified:
			return a, b, Unspecified
		}
		return a, b, Valid
	}
	d, vd := ParseSingle(tokens)
	return d, d, vd
}

var constraintWord = [4]string{"", "Abt.", "Bef.", "Aft."}

// Canonical spelling of one date.
func (d RDate) String() string {
	var parts []string
	if w := constraintWord[d.Constraint]; w != "" {
		parts = append(parts, w)
	}
	if d.Day != 0 {
		parts = append(parts, itoa(d.Day))
	}
	if d.Month != 0 {
		parts = append(parts, MonthAbbr[d.Month])
	}
	if d.Year != 0 {
		parts = append(parts, itoa(d.Year))
	}
	return strings.Join(parts, " ")
}

// CanonicalRange is the documented output form of a date value.
func CanonicalRange(a, b RDate) string {
	if a == b {
		return a.String()
	}
	return "Bet. " + a.String() + " and " + b.String()
}

func itoa(n int) string {
	if n == 0 {
		return "0"
	}
	var b []byte
	for n > 0 {
		b = append([]byte{byte('0' + n%10)}, b...)
		n /= 10
	}
	return string(b)
}
