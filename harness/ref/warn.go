package ref

import (
	"fmt"
	"sort"
	"strings"
)

// Reference evaluator of the documented warning conditions, for documents
// whose event dates are exact days. Works on the reference decoder's tree.

func kids(n *RNode, tag string) []*RNode {
	var out []*RNode
	for _, c := range n.Children {
		if c.Tag == tag {
			out = append(out, c)
		}
	}
	return out
}

// exactDay returns the day number of an exact "D Mon YYYY" value.
func exactDay(v string) (int, bool) {
	a, b, verdict := ParseDate(v)
	if verdict != Valid || a != b || a.Day == 0 || a.Constraint != Exact {
		return 0, false
	}
	return DayNumber(a.Year, a.Month, a.Day), true
}

// eventDays: exact days of all DATE lines under all events with the tags.
func eventDays(rec *RNode, tags ...string) []int {
	var out []int
	for _, t := range tags {
		for _, ev := range kids(rec, t) {
			for _, d := range kids(ev, "DATE") {
				if day, ok := exactDay(d.Value); ok {
					out = append(out, day)
				}
			}
		}
	}
	return out
}

func minDay(ds []int) (int, bool) {
	if len(ds) == 0 {
		return 0, false
	}
	m := ds[0]
	for _, d := range ds {
		if d < m {
			m = d
		}
	}
	return m, true
}

func ptrOf(v string) string { return strings.Trim(v, "@") }

// Warnings returns the expected multiset, one string per warning.
func Warnings(roots []*RNode) []string {
	recs := map[string]*RNode{}
	for _, r := range roots {
		if r.Pointer != "" {
			recs[r.Pointer] = r
		}
	}
	indi := func(v string) *RNode {
		r := recs[ptrOf(v)]
		if r != nil && r.Tag == "INDI" {
			return r
		}
		return nil
	}
	birth := func(p *RNode) (int, bool) { // first DATE of the BIRT events
		if p == nil {
			return 0, false
		}
		ds := eventDays(p, "BIRT")
		if len(ds) == 0 {
			return 0, false
		}
		return ds[0], true
	}
	estBirth := func(p *RNode) (int, bool) {
		if d, ok := minDay(eventDays(p, "BIRT")); ok {
			return d, true
		}
		return minDay(eventDays(p, "BAPM", "BAPL"))
	}
	estDeath := func(p *RNode) (int, bool) {
		if d, ok := minDay(eventDays(p, "DEAT")); ok {
			return d, true
		}
		return minDay(eventDays(p, "BURI"))
	}
	first := func(n *RNode, tag string) *RNode {
		if k := kids(n, tag); len(k) > 0 {
			return k[0]
		}
		return nil
	}
	var out []string
	var unparsable func(n *RNode, ctx string)
	unparsable = func(n *RNode, ctx string) {
		if n.Tag == "DATE" {
			if _, _, v := ParseDate(n.Value); v == Invalid {
				out = append(out, fmt.Sprintf("UnparsableDate|%s|%s", ctx, n.Value))
			}
		}
		for _, c := range n.Children {
			unparsable(c, ctx)
		}
	}
	for _, r := range roots {
		ctx := "-"
		if r.Tag == "INDI" || r.Tag == "FAM" {
			ctx = r.Tag + ":" + r.Pointer
		}
		unparsable(r, ctx)
		switch r.Tag {
		case "INDI":
			groups := [][]string{{"BIRT"}, {"BAPM", "BAPL"}, {"DEAT"}, {"BURI"}}
			type ed struct {
				tag string
				day int
			}
			var gs [][]ed
			for _, g := range groups {
				var es []ed
				for _, t := range g {
					for _, ev := range kids(r, t) {
						for _, d := range kids(ev, "DATE") {
							if day, ok := exactDay(d.Value); ok {
								es = append(es, ed{t, day})
							}
						}
					}
				}
				gs = append(gs, es)
			}
			for i := range gs {
				for _, e := range gs[i] {
					for j := i + 1; j < len(gs); j++ {
						for _, f := range gs[j] {
							if f.day < e.day {
								out = append(out, fmt.Sprintf("IncorrectEventOrder|%s|%s-before-%s", r.Pointer, f.tag, e.tag))
							}
						}
					}
				}
			}
			if ed, ok := estDeath(r); ok {
				if eb, ok := estBirth(r); ok && float64(ed-eb)/365.25 > 100 {
					out = append(out, "IndividualTooOld|"+r.Pointer)
				}
			}
			if len(kids(r, "SEX")) > 1 {
				out = append(out, "MultipleSexes|"+r.Pointer)
			}
		case "FAM":
			var father, mother *RNode
			if h := first(r, "HUSB"); h != nil {
				father = indi(h.Value)
			}
			if w := first(r, "WIFE"); w != nil {
				mother = indi(w.Value)
			}
			var children []*RNode
			for _, c := range kids(r, "CHIL") {
				if p := indi(c.Value); p != nil {
					children = append(children, p)
				}
			}
			for _, c := range children {
				bc, ok := birth(c)
				if !ok {
					continue
				}
				if bf, ok := birth(father); ok && bc < bf {
					out = append(out, fmt.Sprintf("ChildBornBeforeParent|%s|%s", father.Pointer, c.Pointer))
				}
				if bm, ok := birth(mother); ok && bc < bm {
					out = append(out, fmt.Sprintf("ChildBornBeforeParent|%s|%s", mother.Pointer, c.Pointer))
				}
			}
			seen := map[string]bool{}
			for _, c1 := range children {
				for _, c2 := range children {
					if c1.Pointer == c2.Pointer {
						continue
					}
					b1, ok1 := birth(c1)
					b2, ok2 := birth(c2)
					if !ok1 || !ok2 {
						continue
					}
					if d := b1 - b2; d >= 2 && d < 274 {
						ps := []string{c1.Pointer, c2.Pointer}
						sort.Strings(ps)
						key := strings.Join(ps, "+")
						if !seen[key] {
							seen[key] = true
							out = append(out, fmt.Sprintf("SiblingsBornTooClose|%s|%s", r.Pointer, key))
						}
					}
				}
			}
			for _, marr := range kids(r, "MARR") {
				md, ok := minDay(eventDays(&RNode{Children: []*RNode{marr}}, "MARR"))
				if !ok {
					continue
				}
				for _, sp := range []*RNode{father, mother} {
					if sp == nil {
						continue
					}
					eb, ok := estBirth(sp)
					if !ok {
						continue
					}
					age := float64(md-eb) / 365.25
					if age < 16 {
						out = append(out, fmt.Sprintf("MarriedOutOfRange|%s|%s|young", r.Pointer, sp.Pointer))
					}
					if age > 100 {
						out = append(out, fmt.Sprintf("MarriedOutOfRange|%s|%s|old", r.Pointer, sp.Pointer))
					}
				}
			}
			if father != nil && mother != nil {
				fs, ms := first(father, "SEX"), first(mother, "SEX")
				if fs != nil && ms != nil && fs.Value == "F" && ms.Value == "M" {
					out = append(out, "InverseSpouses|"+r.Pointer)
				}
			}
		}
	}
	sort.Strings(out)
	return out
}
