// Package ref holds the reference models: plain Go, no regular expressions,
// no code shared with gedcom.
package ref

// Own proleptic Gregorian arithmetic. Day numbers count from 0 = 1 Jan 0001.

var cumDays = [13]int{0, 31, 59, 90, 120, 151, 181, 212, 243, 273, 304, 334, 365}

func IsLeap(y int) bool { return y%4 == 0 && (y%100 != 0 || y%400 == 0) }

func DaysInMonth(y, m int) int {
	switch m {
	case 4, 6, 9, 11:
		return 30
	case 2:
		if IsLeap(y) {
			return 29
		}
		return 28
	}
	return 31
}

func DaysInYear(y int) int {
	if IsLeap(y) {
		return 366
	}
	return 365
}

// DayNumber of y-m-d (1 Jan 0001 = 0).
func DayNumber(y, m, d int) int {
	py := y - 1
	n := py*365 + py/4 - py/100 + py/400
	n += cumDays[m-1]
	if m > 2 && IsLeap(y) {
		n++
	}
	return n + d - 1
}

// FromDayNumber is the inverse of DayNumber.
func FromDayNumber(n int) (y, m, d int) {
	// estimate year then correct
	y = n/366 + 1
	for DayNumber(y+1, 1, 1) <= n {
		y++
	}
	rem := n - DayNumber(y, 1, 1)
	m = 1
	for rem >= DaysInMonth(y, m) {
		rem -= DaysInMonth(y, m)
		m++
	}
	return y, m, rem + 1
}

// UnixOfDay returns the Unix second of 00:00:00 UTC of a day number.
func UnixOfDay(n int) int64 { return -62135596800 + int64(n)*86400 }

var MonthAbbr = [13]string{"", "Jan", "Feb", "Mar", "Apr", "May", "Jun", "Jul", "Aug", "Sep", "Oct", "Nov", "Dec"}
