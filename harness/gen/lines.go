// Package gen holds the bounded-exhaustive enumerators. Each is a pure function
// index -> case with a known Count, so work can be sharded by index range and a
// case can be named by its index.
package gen

import "strings"

// Pow returns b^e.
func Pow(b, e int) int64 {
	r := int64(1)
	for i := 0; i < e; i++ {
		r *= int64(b)
	}
	return r
}

// Digits decodes idx into n digits of the given base (least significant first).
func Digits(idx int64, base, n int) []int {
	out := make([]int, n)
	for i := 0; i < n; i++ {
		out[i] = int(idx % int64(base))
		idx /= int64(base)
	}
	return out
}

// Line is one GEDCOM line in generator form.
type Line struct {
	Level string // as written
	Sep1  string // separator after the level
	Xref  string // "" or "@X@ " as written (incl. trailing space)
	Tag   string
	Sep2  string // separator before the value ("" when no value)
	Value string
	Term  string // terminator bytes
	Raw   string // when non-empty the whole line is this text (unparsable lines)
}

func (l Line) String() string {
	if l.Raw != "" {
		return l.Raw + l.Term
	}
	return l.Level + l.Sep1 + l.Xref + l.Tag + l.Sep2 + l.Value + l.Term
}

// DefaultLine is the default line at a level.
func DefaultLine(level string) Line {
	return Line{Level: level, Sep1: " ", Tag: "NOTE", Sep2: " ", Value: "v", Term: "\n"}
}

// Deviation is one way in which a line can differ from the default.
type Deviation struct {
	Name  string
	Apply func(l *Line)
}

// LineDeviations is the deviation alphabet of C02.
var LineDeviations = []Deviation{
	{"xref", func(l *Line) { l.Xref = "@X1@ " }},
	{"xref-space-inside", func(l *Line) { l.Xref = "@X 1@ " }},
	{"xref-unterminated", func(l *Line) { l.Xref = "@X1 " }},
	{"xref-no-space", func(l *Line) { l.Xref = "@X1@" }},
	{"xref-double-space", func(l *Line) { l.Xref = "@X1@  " }},
	{"xref-tab", func(l *Line) { l.Xref = "@X1@\t" }},
	{"xref-empty", func(l *Line) { l.Xref = "@@ " }},
	{"xref-double-at", func(l *Line) { l.Xref = "@X1@@ " }},
	{"sep-level-tab", func(l *Line) { l.Sep1 = "\t" }},
	{"tag-NAME", func(l *Line) { l.Tag = "NAME" }},
	{"tag-INDI", func(l *Line) { l.Tag = "INDI"; l.Xref = "@I1@ " }},
	{"tag-INDI-noxref", func(l *Line) { l.Tag = "INDI" }},
	{"tag-FAM", func(l *Line) { l.Tag = "FAM"; l.Xref = "@F1@ " }},
	{"tag-DATE", func(l *Line) { l.Tag = "DATE" }},
	{"tag-custom", func(l *Line) { l.Tag = "_X" }},
	{"tag-digits", func(l *Line) { l.Tag = "1" }},
	// family-role lines (they refer to the most recently seen FAM record, wherever they stand)
	{"tag-HUSB", func(l *Line) { l.Tag = "HUSB"; l.Value = "@I1@" }},
	{"tag-CHIL", func(l *Line) { l.Tag = "CHIL"; l.Value = "@I1@" }},
	{"tag-lowercase", func(l *Line) { l.Tag = "note" }},
	{"tag-mixed-case", func(l *Line) { l.Tag = "Name" }},
	{"tag-lowercase-indi", func(l *Line) { l.Tag = "indi"; l.Xref = "@I1@ " }},
	{"tag-lowercase-cont", func(l *Line) { l.Tag = "cont" }},
	{"value-percent", func(l *Line) { l.Value = "100% %s %d%" }},
	{"value-empty", func(l *Line) { l.Sep2 = ""; l.Value = "" }},
	{"value-empty-trailing-space", func(l *Line) { l.Sep2 = " "; l.Value = "" }},
	{"value-padded", func(l *Line) { l.Value = " v " }},
	{"value-at-inside", func(l *Line) { l.Value = "a@b" }},
	{"value-pointer-like", func(l *Line) { l.Value = "@I1@" }},
	{"value-line-like", func(l *Line) { l.Value = "0 X" }},
	{"value-nonutf8", func(l *Line) { l.Value = "\xff" }},
	{"value-tab-padded", func(l *Line) { l.Value = "\tv\t" }},
	{"value-no-separator", func(l *Line) { l.Sep2 = ""; l.Value = "@x" }},
	{"term-CR", func(l *Line) { l.Term = "\r" }},
	{"term-CRLF", func(l *Line) { l.Term = "\r\n" }},
	{"term-LFLF", func(l *Line) { l.Term = "\n\n" }},
	{"term-none", func(l *Line) { l.Term = "" }},
	{"sep-level-double", func(l *Line) { l.Sep1 = "  " }},
	{"sep-level-none", func(l *Line) { l.Sep1 = "" }},
	{"sep-value-double", func(l *Line) { l.Sep2 = "  " }},
	{"level-leading-zero", func(l *Line) { l.Level = "0" + l.Level }},
	{"raw-garbage", func(l *Line) { l.Raw = "garbage" }},
	{"raw-space-first", func(l *Line) { l.Raw = " " + l.Level + " NOTE v" }},
	{"raw-only-level", func(l *Line) { l.Raw = l.Level }},
	{"raw-nonutf8-tag", func(l *Line) { l.Raw = l.Level + " N\xffTE v" }},
}

// Walk renders the lines of a level walk (levels given as strings).
func Walk(levels []string) []Line {
	out := make([]Line, len(levels))
	for i, lv := range levels {
		out[i] = DefaultLine(lv)
	}
	return out
}

// Join concatenates lines.
func Join(ls []Line) string {
	var sb strings.Builder
	for _, l := range ls {
		sb.WriteString(l.String())
	}
	return sb.String()
}
