package gen

// Forests calls f with the level sequence of every ordered forest of exactly n
// nodes (levels[0] = 0, levels[i+1] <= levels[i]+1; 0 starts a new root).
// The slice is reused between calls. Returns the number of forests.
func Forests(n int, f func(levels []int)) int {
	if n == 0 {
		f(nil)
		return 1
	}
	levels := make([]int, n)
	count := 0
	var rec func(i int)
	rec = func(i int) {
		if i == n {
			count++
			f(levels)
			return
		}
		for l := 0; l <= levels[i-1]+1; l++ {
			levels[i] = l
			rec(i + 1)
		}
	}
	levels[0] = 0
	rec(1)
	return count
}

// Trees is Forests restricted to a single root (levels[i] >= 1 for i > 0).
func Trees(n int, f func(levels []int)) int {
	if n == 0 {
		return 0
	}
	levels := make([]int, n)
	count := 0
	var rec func(i int)
	rec = func(i int) {
		if i == n {
			count++
			f(levels)
			return
		}
		for l := 1; l <= levels[i-1]+1; l++ {
			levels[i] = l
			rec(i + 1)
		}
	}
	rec(1)
	return count
}

// AllForests materialises Forests(n).
func AllForests(n int) [][]int {
	var out [][]int
	Forests(n, func(l []int) { out = append(out, append([]int{}, l...)) })
	return out
}

// AllTrees materialises Trees(n).
func AllTrees(n int) [][]int {
	var out [][]int
	Trees(n, func(l []int) { out = append(out, append([]int{}, l...)) })
	return out
}

// Parents converts a level sequence to parent indices (-1 for roots).
func Parents(levels []int) []int {
	par := make([]int, len(levels))
	var open []int
	for i, l := range levels {
		if l == 0 {
			par[i] = -1
		} else {
			par[i] = open[l-1]
		}
		if l < len(open) {
			open = open[:l]
		}
		open = append(open, i)
	}
	return par
}

// Permutations calls f with every permutation of 0..n-1 (slice reused).
func Permutations(n int, f func(p []int)) {
	p := make([]int, n)
	for i := range p {
		p[i] = i
	}
	var rec func(k int)
	rec = func(k int) {
		if k == n {
			f(p)
			return
		}
		for i := k; i < n; i++ {
			p[k], p[i] = p[i], p[k]
			rec(k + 1)
			p[k], p[i] = p[i], p[k]
		}
	}
	rec(0)
}
