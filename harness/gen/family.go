package gen

import (
	"fmt"
	"strings"
)

// Person is one individual of a generated family graph.
type Person struct {
	Ptr     string
	Given   string
	Surname string
	Sex     string
	Birth   string   // DATE value ("" = no BIRT)
	BirthPl string   // PLAC under BIRT
	Death   string   // DATE value; "Y" = DEAT Y without date; "" = none
	Marker  string   // unique marker token, written as "1 NOTE <marker>"
	Extra   []string // further lines (level >= 1), verbatim
	Fams    []string // family pointers (spouse)
	Famc    []string // family pointers (child)
}

// Family is one family record.
type Family struct {
	Ptr   string
	Husb  string
	Wife  string
	Chil  []string
	Marr  string // DATE value of MARR
	Extra []string
}

// Graph is a family graph document.
type Graph struct {
	People   []Person
	Families []Family
	Tail     []string // further root records, verbatim
}

// Clone deep-copies a graph.
func (g Graph) Clone() Graph {
	var out Graph
	for _, p := range g.People {
		q := p
		q.Extra = append([]string{}, p.Extra...)
		q.Fams = append([]string{}, p.Fams...)
		q.Famc = append([]string{}, p.Famc...)
		out.People = append(out.People, q)
	}
	for _, f := range g.Families {
		h := f
		h.Chil = append([]string{}, f.Chil...)
		h.Extra = append([]string{}, f.Extra...)
		out.Families = append(out.Families, h)
	}
	out.Tail = append([]string{}, g.Tail...)
	return out
}

// Link fills Fams/Famc from the family records.
func (g *Graph) Link() {
	idx := map[string]int{}
	for i := range g.People {
		g.People[i].Fams, g.People[i].Famc = nil, nil
		idx[g.People[i].Ptr] = i
	}
	for _, f := range g.Families {
		for _, s := range []string{f.Husb, f.Wife} {
			if i, ok := idx[s]; ok && s != "" {
				g.People[i].Fams = append(g.People[i].Fams, f.Ptr)
			}
		}
		for _, c := range f.Chil {
			if i, ok := idx[c]; ok {
				g.People[i].Famc = append(g.People[i].Famc, f.Ptr)
			}
		}
	}
}

// Text renders the graph as GEDCOM.
func (g Graph) Text() string {
	var sb strings.Builder
	for _, p := range g.People {
		fmt.Fprintf(&sb, "0 @%s@ INDI\n", p.Ptr)
		if p.Given != "" || p.Surname != "" {
			fmt.Fprintf(&sb, "1 NAME %s /%s/\n", p.Given, p.Surname)
		}
		if p.Sex != "" {
			fmt.Fprintf(&sb, "1 SEX %s\n", p.Sex)
		}
		if p.Birth != "" || p.BirthPl != "" {
			sb.WriteString("1 BIRT\n")
			if p.Birth != "" {
				fmt.Fprintf(&sb, "2 DATE %s\n", p.Birth)
			}
			if p.BirthPl != "" {
				fmt.Fprintf(&sb, "2 PLAC %s\n", p.BirthPl)
			}
		}
		if p.Death == "Y" {
			sb.WriteString("1 DEAT Y\n")
		} else if p.Death != "" {
			fmt.Fprintf(&sb, "1 DEAT\n2 DATE %s\n", p.Death)
		}
		if p.Marker != "" {
			fmt.Fprintf(&sb, "1 NOTE %s\n", p.Marker)
		}
		for _, e := range p.Extra {
			sb.WriteString(e + "\n")
		}
		for _, f := range p.Fams {
			fmt.Fprintf(&sb, "1 FAMS @%s@\n", f)
		}
		for _, f := range p.Famc {
			fmt.Fprintf(&sb, "1 FAMC @%s@\n", f)
		}
	}
	for _, f := range g.Families {
		fmt.Fprintf(&sb, "0 @%s@ FAM\n", f.Ptr)
		if f.Husb != "" {
			fmt.Fprintf(&sb, "1 HUSB @%s@\n", f.Husb)
		}
		if f.Wife != "" {
			fmt.Fprintf(&sb, "1 WIFE @%s@\n", f.Wife)
		}
		for _, c := range f.Chil {
			fmt.Fprintf(&sb, "1 CHIL @%s@\n", c)
		}
		if f.Marr != "" {
			fmt.Fprintf(&sb, "1 MARR\n2 DATE %s\n", f.Marr)
		}
		for _, e := range f.Extra {
			sb.WriteString(e + "\n")
		}
	}
	for _, t := range g.Tail {
		sb.WriteString(t + "\n")
	}
	return sb.String()
}
