// Package gx has helpers over the gedcom API used by several checks:
// canonical dumps, identity sets, structural comparison with reference trees.
package gx

import (
	"fmt"
	"reflect"
	"strings"

	"github.com/elliotchance/gedcom/v39"
	"verif/harness/ref"
)

// Dump renders a forest position by position: tag, value, pointer and
// optionally the Go type of every node.
func Dump(nodes gedcom.Nodes, withTypes bool) string {
	var sb strings.Builder
	var rec func(n gedcom.Node, depth int)
	onPath := map[gedcom.Node]bool{}
	rec = func(n gedcom.Node, depth int) {
		if gedcom.IsNil(n) {
			fmt.Fprintf(&sb, "%d <nil>\n", depth)
			return
		}
		if onPath[n] {
			fmt.Fprintf(&sb, "%d <cycle: node is its own descendant>\n", depth)
			return
		}
		onPath[n] = true
		defer delete(onPath, n)
		fmt.Fprintf(&sb, "%d|%s|%s|%s", depth, n.Pointer(), n.Tag().Tag(), n.Value())
		if withTypes {
			fmt.Fprintf(&sb, "|%s", reflect.TypeOf(n).String())
		}
		sb.WriteByte('\n')
		for _, c := range n.Nodes() {
			rec(c, depth+1)
		}
	}
	for _, n := range nodes {
		rec(n, 0)
	}
	return sb.String()
}

// DumpRef renders a reference forest in the same form as Dump(…, false).
func DumpRef(nodes []*ref.RNode) string {
	var sb strings.Builder
	var rec func(n *ref.RNode, depth int)
	rec = func(n *ref.RNode, depth int) {
		fmt.Fprintf(&sb, "%d|%s|%s|%s\n", depth, n.Pointer, n.Tag, n.Value)
		for _, c := range n.Children {
			rec(c, depth+1)
		}
	}
	for _, n := range nodes {
		rec(n, 0)
	}
	return sb.String()
}

// Identities collects the identity (pointer value) of every node of a forest.
func Identities(nodes gedcom.Nodes, into map[gedcom.Node]bool) map[gedcom.Node]bool {
	if into == nil {
		into = map[gedcom.Node]bool{}
	}
	for _, n := range nodes {
		if gedcom.IsNil(n) {
			continue
		}
		into[n] = true
		Identities(n.Nodes(), into)
	}
	return into
}

// Shared reports a node object that occurs at two positions of the forest (or is its own
// descendant); "" when every position has its own object.
func Shared(nodes gedcom.Nodes) string {
	seen := map[gedcom.Node]bool{}
	var rec func(ns gedcom.Nodes, depth int) string
	rec = func(ns gedcom.Nodes, depth int) string {
		for _, n := range ns {
			if gedcom.IsNil(n) {
				continue
			}
			if seen[n] {
				return fmt.Sprintf("the node object for %q (depth %d) occurs at more than one position", n.Tag().Tag()+" "+n.Value(), depth)
			}
			seen[n] = true
			if depth > 200 {
				return "deeper than 200"
			}
			if s := rec(n.Nodes(), depth+1); s != "" {
				return s
			}
		}
		return ""
	}
	return rec(nodes, 0)
}

// CountNodes counts the nodes of a forest.
func CountNodes(nodes gedcom.Nodes) int {
	c := 0
	for _, n := range nodes {
		if gedcom.IsNil(n) {
			continue
		}
		c += 1 + CountNodes(n.Nodes())
	}
	return c
}

// ExpectedType is the harness's own table of the specialised node kind per
// tag (independent of the implementation's switch).
var ExpectedType = map[string]string{
	"BAPM": "*gedcom.BaptismNode", "BIRT": "*gedcom.BirthNode", "BURI": "*gedcom.BurialNode",
	"CHIL": "*gedcom.ChildNode", "DATE": "*gedcom.DateNode", "DEAT": "*gedcom.DeathNode",
	"EVEN": "*gedcom.EventNode", "FAM": "*gedcom.FamilyNode", "_FID": "*gedcom.FamilySearchIDNode",
	"_FSFTID": "*gedcom.FamilySearchIDNode", "FORM": "*gedcom.FormatNode", "HUSB": "*gedcom.HusbandNode",
	"INDI": "*gedcom.IndividualNode", "LATI": "*gedcom.LatitudeNode", "LONG": "*gedcom.LongitudeNode",
	"MAP": "*gedcom.MapNode", "NAME": "*gedcom.NameNode", "NICK": "*gedcom.NicknameNode",
	"NOTE": "*gedcom.NoteNode", "FONE": "*gedcom.PhoneticVariationNode", "PLAC": "*gedcom.PlaceNode",
	"RESI": "*gedcom.ResidenceNode", "ROMN": "*gedcom.RomanizedVariationNode", "SEX": "*gedcom.SexNode",
	"SOUR": "*gedcom.SourceNode", "TYPE": "*gedcom.TypeNode", "_UID": "*gedcom.UniqueIDNode",
	"WIFE": "*gedcom.WifeNode",
}

// TypeOf returns the Go type a tag must decode to.
func TypeOf(tag string) string {
	if t, ok := ExpectedType[tag]; ok {
		return t
	}
	return "*gedcom.SimpleNode"
}

// CheckTypes returns the first node whose Go type is not the expected one.
func CheckTypes(nodes gedcom.Nodes) string {
	for _, n := range nodes {
		if gedcom.IsNil(n) {
			return "nil node"
		}
		if got, want := reflect.TypeOf(n).String(), TypeOf(n.Tag().Tag()); got != want {
			return fmt.Sprintf("tag %s has Go type %s, want %s", n.Tag().Tag(), got, want)
		}
		if s := CheckTypes(n.Nodes()); s != "" {
			return s
		}
	}
	return ""
}

// DecodeResult is what one call of the real decoder did.
type DecodeResult struct {
	Doc      *gedcom.Document
	Err      error
	Panicked bool
	PanicMsg string
	Frame    string
}

// Decode runs the real decoder under recover.
func Decode(data string, multiLine, invalidIndents bool) (r DecodeResult) {
	defer func() {
		if p := recover(); p != nil {
			r.Panicked = true
			r.PanicMsg = fmt.Sprint(p)
			r.Frame = repoFrame()
		}
	}()
	dec := gedcom.NewDecoder(strings.NewReader(data))
	dec.AllowMultiLine = multiLine
	dec.AllowInvalidIndents = invalidIndents
	r.Doc, r.Err = dec.Decode()
	return
}

// Eq is Node.Equals in either direction.
func Eq(a, b gedcom.Node) bool { return a.Equals(b) || b.Equals(a) }

// PathCovered: node x is represented among candidates by an Equals node whose
// children recursively cover x's children.
func PathCovered(x gedcom.Node, candidates gedcom.Nodes) bool {
	for _, c := range candidates {
		if !Eq(c, x) {
			continue
		}
		ok := true
		for _, xc := range x.Nodes() {
			if !PathCovered(xc, c.Nodes()) {
				ok = false
				break
			}
		}
		if ok {
			return true
		}
	}
	return false
}
