package gx

import (
	"runtime"
	"strings"
)

// repoFrame returns the innermost gedcom function on the current (panicking)
// stack.
func repoFrame() string {
	pc := make([]uintptr, 64)
	n := runtime.Callers(3, pc)
	frames := runtime.CallersFrames(pc[:n])
	for {
		f, more := frames.Next()
		if strings.HasPrefix(f.Function, "github.com/elliotchance/gedcom/") {
			fn := strings.TrimPrefix(f.Function, "github.com/elliotchance/gedcom/v39")
			fn = strings.TrimPrefix(fn, ".")
			fn = strings.TrimPrefix(fn, "/")
			return fn
		}
		if !more {
			break
		}
	}
	return "?"
}

// RepoFrame is repoFrame for callers inside a deferred recover of their own.
func RepoFrame() string { return repoFrame() }
