#!/bin/bash
# parseed.sh <workers> <list-file> <out-file>
# Like parsweep.sh, but for NEW seeded changes still sitting in their authors' worktrees: each is first
# confirmed in the worker's own repository copy (demonstration passes without the change; with the change
# the tree builds, the repository's whole suite passes, the demonstration fails), stored under
# /verif/seeded/<ID>-<wt>-<n>/ (patch.diff, demo_test.go, notes.md, meta.json), and then the quick checks
# named are run against the copy with the change applied. /repo and /verif/evidence are not touched.
# List lines:  <worktree> <n> <ID> <demo package dir> <check id> [<check id> ...]
# Output lines: <label>|confirmed=<0|1>|<check>|<exit>|exhaustive=<..>|<first signatures>
set -u
export GOFLAGS=-mod=mod GOPROXY=off GOSUMDB=off GOTOOLCHAIN=local
W="$1"; LIST="$2"; OUT="$3"
ROOT=/dev/shm/parseed.$$
mkdir -p "$ROOT"; : > "$OUT"
worker() {
  local k="$1" D="$ROOT/$1"
  mkdir -p "$D"
  git -C /repo worktree add -q --detach "$D/repo" HEAD
  mkdir -p "$D/verif"
  (cd /verif && tar cf - --exclude=.build --exclude=replays --exclude=.git --exclude=seeded .) | (cd "$D/verif" && tar xf -)
  sed -i "s#=> /repo#=> $D/repo#" "$D/verif/harness/go.mod"
  local n=0
  while read -r wt num id pkg checks; do
    n=$((n+1)); [ $(( (n-1) % W )) -eq "$k" ] || continue
    [ -z "$wt" ] && continue
    local S="$wt/SEED/$num" label="$id-$(basename $wt)-$num" R="$D/repo"
    [ -f "$S/patch.diff" ] || { echo "$label|confirmed=0|-|no-patch||" >> "$OUT"; continue; }
    local DEST="/verif/seeded/$label"; mkdir -p "$DEST"
    cp "$S/patch.diff" "$S/demo_test.go" "$S/notes.md" "$DEST/" 2>/dev/null
    local log="$DEST/.log"; : > "$log"
    cp "$S/demo_test.go" "$R/$pkg/zz_seed_demo_test.go"
    (cd "$R/$pkg" && go test -count=1 . > /dev/null 2>&1); a=$?; echo "demo without patch: exit $a (want 0)" >> "$log"
    rm -f "$R/$pkg/zz_seed_demo_test.go"
    if ! git -C "$R" apply "$S/patch.diff" 2>/dev/null; then echo "$label|confirmed=0|-|does-not-apply||" >> "$OUT"; echo "patch does not apply to HEAD" >> "$log"; continue; fi
    (cd "$R" && go build ./... > /dev/null 2>&1); b=$?; echo "build with patch: exit $b (want 0)" >> "$log"
    (cd "$R" && go test -count=1 ./... > /dev/null 2>&1); t=$?; echo "existing suite with patch: exit $t (want 0)" >> "$log"
    cp "$S/demo_test.go" "$R/$pkg/zz_seed_demo_test.go"
    (cd "$R/$pkg" && go test -count=1 . > /dev/null 2>&1); d=$?; echo "demo with patch: exit $d (want non-zero)" >> "$log"
    rm -f "$R/$pkg/zz_seed_demo_test.go"
    local ok=0; [ $a -eq 0 ] && [ $b -eq 0 ] && [ $t -eq 0 ] && [ $d -ne 0 ] && ok=1
    echo "confirmed=$ok" >> "$log"
    for c in $checks; do
      (cd "$D/verif" && VERIF_DIR="$D/verif" VERIF_REPO="$R" timeout 2400 bin/vcheck run "$c" --tier quick --jobs "${PAR_JOBS:-5}" > "$D/out.txt" 2>&1); rc=$?
      sig=$(grep -v '^KNOWN' "$D/out.txt" | grep -m3 'signature:' | sed 's/ *signature: //' | tr '\n' ';' | tr '|' '/')
      int=$(grep -m1 'INTERNAL' "$D/out.txt" | cut -c1-160 | tr '|' '/')
      ex=$(grep -o 'exhaustive=[a-z]*' "$D/out.txt" | tail -1)
      echo "$label|confirmed=$ok|$c|$rc|$ex|$sig$int" >> "$OUT"
      echo "check $c quick with patch: exit $rc (1 = detected) $ex $sig" >> "$log"
    done
    git -C "$R" checkout -q -- . ; git -C "$R" clean -fdq
    python3 - "$DEST" "$id" "$pkg" <<'PY'
import json,sys,re
dest,pid,pkg=sys.argv[1:]
log=open(dest+'/.log').read().splitlines()
det=[l for l in log if l.startswith('check ')]
json.dump({"property":pid,"confirmed":"confirmed=1" in log,"demo_package_dir":pkg,"needs_to_manifest":"see notes.md","what_was_run":log,
 "detected_by_quick_check":any('exit 1 ' in l for l in det)},open(dest+'/meta.json','w'),indent=1)
PY
    rm -f "$log"
  done < "$LIST"
  git -C /repo worktree remove --force "$D/repo"
}
for k in $(seq 0 $((W-1))); do worker $k & done
wait
git -C /repo worktree prune
rm -rf "$ROOT"
sort -o "$OUT" "$OUT"
echo "parseed done: $(wc -l < "$OUT") results"
