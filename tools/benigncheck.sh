#!/bin/bash
# benigncheck.sh <worktree> <n> <property-id>
# Stores a property-preserving change under /verif/seeded/benign/<ID>-<n>/, confirms that it compiles and
# passes the repository's suite, and runs the quick checks of the property and of every property whose
# anchored files the patch touches against /repo with the change applied (undone afterwards).
# Any VIOLATION is either a false alarm of the check or a change that does break a property: to be judged by hand.
set -u
export GOFLAGS=-mod=mod GOPROXY=off GOSUMDB=off GOTOOLCHAIN=local
WT="$1"; N="$2"; ID="$3"
S="$WT/SEED/$N"
[ -f "$S/patch.diff" ] || { echo "no patch in $S"; exit 2; }
DEST="/verif/seeded/benign/$ID-$N"; mkdir -p "$DEST"
cp "$S/patch.diff" "$S/notes.md" "$DEST/" 2>/dev/null
cd /repo && git status --short | grep -v '^??' | grep . && { echo "/repo not clean"; exit 2; }
git -C /repo apply "$DEST/patch.diff" || { echo "PATCH DOES NOT APPLY"; exit 2; }
(cd /repo && go build ./... > /dev/shm/benign.build 2>&1); B=$?
(cd /repo && go test -count=1 ./... > /dev/shm/benign.suite 2>&1); T=$?
FILES=$(grep '^+++ b/' "$DEST/patch.diff" | sed 's/+++ b\///')
CHECKS="$ID"
for f in $FILES; do
  case "$f" in
    decoder.go|encoder.go|tag.go|simple_node.go|document.go) CHECKS="$CHECKS C01 C02 C03 C13";;
    date.go|date_range.go|date_node.go|date_constraint.go|util.go) CHECKS="$CHECKS C04 C05 C06 C12 C20";;
    equal.go|copy.go|filter.go|uuid.go|unique_id_node.go|residence_node.go|event_node.go|*_node.go|nodes.go) CHECKS="$CHECKS C07 C08 C09 C13";;
    node_diff.go) CHECKS="$CHECKS C08";;
    merge.go) CHECKS="$CHECKS C09 C10";;
    individual_nodes.go|individual_node.go|family_node.go|jaro.go|util/*) CHECKS="$CHECKS C10 C11 C12 C13 C20";;
    q/*) CHECKS="$CHECKS C15 C16 C13";;
    html/*) CHECKS="$CHECKS C14 C17 C18 C19";;
    warning*.go|*_warning.go) CHECKS="$CHECKS C20 C13";;
    cmd/*) CHECKS="$CHECKS C14 C11";;
  esac
done
CHECKS=$(echo $CHECKS | tr ' ' '\n' | sort -u | tr '\n' ' ')
echo "build=$B suite=$T checks: $CHECKS"
RES=""
for C in $CHECKS; do
  (cd /verif && timeout 1800 bin/vcheck run $C --tier quick > /dev/shm/benign.out 2>&1); rc=$?
  sig=$(grep -v '^KNOWN' /dev/shm/benign.out | grep -m3 'signature:' | sed 's/ *signature: //' | tr '\n' ';')
  echo "  $C exit=$rc $sig"
  grep -m2 'INTERNAL' /dev/shm/benign.out | cut -c1-300
  RES="$RES$C:$rc:$sig|"
done
git -C /repo checkout -- .
python3 - "$DEST" "$ID" "$B" "$T" "$RES" <<'PY'
import json,sys
dest,pid,b,t,res=sys.argv[1:]
checks=[dict(zip(("check","exit","signatures"),r.split(":",2))) for r in res.split("|") if r]
json.dump({"property":pid,"kind":"property-preserving change","builds":b=="0","suite_passes":t=="0","checks":checks},open(dest+"/meta.json","w"),indent=1)
PY
