package main

import (
	"fmt"

	"golang.org/x/tools/go/packages"
)

func main() {
	cfg := &packages.Config{Mode: packages.NeedName | packages.NeedFiles | packages.NeedSyntax | packages.NeedTypes | packages.NeedTypesInfo | packages.NeedImports | packages.NeedDeps, Dir: "/repo"}
	pkgs, err := packages.Load(cfg, "./...")
	fmt.Println(len(pkgs), err)
	for _, p := range pkgs {
		fmt.Println(p.PkgPath, len(p.Syntax), len(p.Errors))
	}
}
