package main

import (
	"go/ast"
	"go/parser"
	"go/token"
)

func parserParse(fset *token.FileSet, path string, src []byte) (*ast.File, error) {
	return parser.ParseFile(fset, path, src, 0)
}
