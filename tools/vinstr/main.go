// vinstr rewrites the concurrency constructs and shared-memory accesses of the
// repository's non-test sources into calls of the vsched scheduler/monitor and
// emits a `go build -overlay` file. Nothing is written into the repository.
//
//	vinstr -repo /repo -out <scratch dir> -vsched /verif/engine/vsched
//
// Exit status 2 with file:line when a construct is not supported (never a
// silent skip).
package main

import (
	"bytes"
	"encoding/json"
	"flag"
	"fmt"
	"go/ast"
	"go/printer"
	"go/token"
	"go/types"
	"os"
	"path/filepath"
	"sort"
	"strconv"
	"strings"

	"golang.org/x/tools/go/ast/astutil"
	"golang.org/x/tools/go/packages"
)

const modPath = "github.com/elliotchance/gedcom/v39"
const vschedPath = modPath + "/vsched"

// which stand-in for "sync" a file gets
var syncVariant = map[string]string{
	"nodes.go":       "vquiet",
	"simple_node.go": "vquiet",
	"document.go":    "vro",
}

type rewriter struct {
	fset      *token.FileSet
	pkg       *packages.Package
	info      *types.Info
	file      *ast.File
	fileName  string
	rel       string
	usedHooks bool
	written   map[*types.Var]bool // fields / package vars / captured locals that are written after construction
	captured  map[*types.Var]bool
	tmp       int
	stats     map[string]int
	notes     *[]string
}

func fatal(fset *token.FileSet, pos token.Pos, format string, a ...interface{}) {
	fmt.Fprintf(os.Stderr, "vinstr: %s: %s\n", fset.Position(pos), fmt.Sprintf(format, a...))
	os.Exit(2)
}

func (r *rewriter) name(prefix string) *ast.Ident {
	r.tmp++
	return ast.NewIdent(fmt.Sprintf("vs%s%d", prefix, r.tmp))
}

var fsCalls = map[string]bool{"Create": true, "Open": true, "OpenFile": true, "Rename": true, "Remove": true, "RemoveAll": true, "Mkdir": true, "MkdirAll": true,
	"WriteFile": true, "ReadFile": true, "Stat": true, "Lstat": true, "Symlink": true, "Link": true, "Truncate": true, "Chmod": true, "ReadDir": true, "CreateTemp": true, "MkdirTemp": true, "TempFile": true, "TempDir": true}

func hook(name string, args ...ast.Expr) *ast.CallExpr {
	return &ast.CallExpr{Fun: &ast.SelectorExpr{X: ast.NewIdent("vsched"), Sel: ast.NewIdent(name)}, Args: args}
}

func exprStmt(e ast.Expr) ast.Stmt { return &ast.ExprStmt{X: e} }

func define(lhs []ast.Expr, rhs ...ast.Expr) ast.Stmt {
	return &ast.AssignStmt{Lhs: lhs, Tok: token.DEFINE, Rhs: rhs}
}

func (r *rewriter) site(pos token.Pos, what string) ast.Expr {
	p := r.fset.Position(pos)
	return &ast.BasicLit{Kind: token.STRING, Value: strconv.Quote(fmt.Sprintf("%s:%d %s", r.rel, p.Line, what))}
}

func (r *rewriter) isChan(e ast.Expr) bool {
	t := r.info.TypeOf(e)
	if t == nil {
		return false
	}
	_, ok := t.Underlying().(*types.Chan)
	return ok
}

func (r *rewriter) isBuiltin(fun ast.Expr, name string) bool {
	id, ok := fun.(*ast.Ident)
	if !ok || id.Name != name {
		return false
	}
	_, isB := r.info.Uses[id].(*types.Builtin)
	return isB
}

func hasCall(e ast.Expr) bool {
	found := false
	ast.Inspect(e, func(n ast.Node) bool {
		switch n.(type) {
		case *ast.CallExpr, *ast.FuncLit:
			found = true
		}
		return !found
	})
	return found
}

// ---------- statement-level rewriting ----------

func (r *rewriter) block(b *ast.BlockStmt) {
	if b == nil {
		return
	}
	b.List = r.stmts(b.List)
}

func (r *rewriter) stmts(list []ast.Stmt) []ast.Stmt {
	var out []ast.Stmt
	for _, s := range list {
		out = append(out, r.stmt(s)...)
	}
	return out
}

// funcLits rewrites the bodies of function literals inside an expression / simple statement.
func (r *rewriter) funcLits(n ast.Node) {
	if n == nil {
		return
	}
	ast.Inspect(n, func(x ast.Node) bool {
		if fl, ok := x.(*ast.FuncLit); ok {
			r.block(fl.Body)
			return false
		}
		return true
	})
}

func (r *rewriter) recvOf(e ast.Expr) *ast.UnaryExpr {
	if p, ok := e.(*ast.ParenExpr); ok {
		return r.recvOf(p.X)
	}
	if u, ok := e.(*ast.UnaryExpr); ok && u.Op == token.ARROW {
		return u
	}
	return nil
}

func (r *rewriter) containsRecv(n ast.Node) (found *ast.UnaryExpr) {
	ast.Inspect(n, func(x ast.Node) bool {
		if _, ok := x.(*ast.FuncLit); ok {
			return false
		}
		if u, ok := x.(*ast.UnaryExpr); ok && u.Op == token.ARROW {
			found = u
		}
		return found == nil
	})
	return
}

func (r *rewriter) stmt(s ast.Stmt) []ast.Stmt {
	switch s := s.(type) {
	case *ast.GoStmt:
		return []ast.Stmt{r.goStmt(s)}
	case *ast.SendStmt:
		r.funcLits(s.Value)
		c, v := r.name("C"), r.name("V")
		r.usedHooks = true
		r.stats["send"]++
		return []ast.Stmt{&ast.BlockStmt{List: []ast.Stmt{
			define([]ast.Expr{c, v}, s.Chan, s.Value),
			exprStmt(hook("BeforeSend", c)),
			&ast.SendStmt{Chan: c, Value: v},
			exprStmt(hook("AfterSend", c)),
		}}}
	case *ast.ExprStmt:
		if u := r.recvOf(s.X); u != nil {
			c := r.name("C")
			r.usedHooks = true
			r.stats["recv"]++
			return []ast.Stmt{&ast.BlockStmt{List: []ast.Stmt{
				define([]ast.Expr{c}, u.X),
				exprStmt(hook("BeforeRecv", c)),
				exprStmt(&ast.UnaryExpr{Op: token.ARROW, X: c}),
				exprStmt(hook("AfterRecv", c)),
			}}}
		}
		if call, ok := s.X.(*ast.CallExpr); ok && r.isBuiltin(call.Fun, "close") && len(call.Args) == 1 {
			c := r.name("C")
			r.usedHooks = true
			r.stats["close"]++
			return []ast.Stmt{&ast.BlockStmt{List: []ast.Stmt{
				define([]ast.Expr{c}, call.Args[0]),
				exprStmt(hook("BeforeClose", c)),
				exprStmt(&ast.CallExpr{Fun: ast.NewIdent("close"), Args: []ast.Expr{c}}),
			}}}
		}
		if u := r.containsRecv(s); u != nil {
			fatal(r.fset, u.Pos(), "unsupported receive expression inside a larger expression")
		}
		r.funcLits(s.X)
		return []ast.Stmt{s}
	case *ast.AssignStmt:
		if len(s.Rhs) == 1 {
			if u := r.recvOf(s.Rhs[0]); u != nil {
				if hasCall(u.X) {
					fatal(r.fset, u.Pos(), "unsupported: receive from a channel expression with calls")
				}
				r.usedHooks = true
				r.stats["recv"]++
				return []ast.Stmt{exprStmt(hook("BeforeRecv", u.X)), s, exprStmt(hook("AfterRecv", u.X))}
			}
		}
		if u := r.containsRecv(s); u != nil {
			fatal(r.fset, u.Pos(), "unsupported receive expression inside an assignment")
		}
		r.funcLits(s)
		return []ast.Stmt{s}
	case *ast.DeferStmt:
		if r.isBuiltin(s.Call.Fun, "close") {
			fatal(r.fset, s.Pos(), "unsupported: defer close(ch)")
		}
		if u := r.containsRecv(s); u != nil {
			fatal(r.fset, u.Pos(), "unsupported receive in defer")
		}
		r.funcLits(s.Call)
		return []ast.Stmt{s}
	case *ast.BlockStmt:
		r.block(s)
		return []ast.Stmt{s}
	case *ast.IfStmt:
		r.simple(s.Init)
		r.noRecv(s.Cond)
		r.funcLits(s.Cond)
		r.block(s.Body)
		if s.Else != nil {
			e := r.stmt(s.Else)
			if len(e) == 1 {
				switch e[0].(type) {
				case *ast.BlockStmt, *ast.IfStmt:
					s.Else = e[0]
				default:
					s.Else = &ast.BlockStmt{List: e}
				}
			} else {
				s.Else = &ast.BlockStmt{List: e}
			}
		}
		return []ast.Stmt{s}
	case *ast.ForStmt:
		r.simple(s.Init)
		r.noRecv(s.Cond)
		r.funcLits(s.Cond)
		r.simple(s.Post)
		r.block(s.Body)
		return []ast.Stmt{s}
	case *ast.RangeStmt:
		if r.isChan(s.X) {
			return []ast.Stmt{r.rangeChan(s)}
		}
		if t := r.info.TypeOf(s.X); t != nil {
			if _, isMap := t.Underlying().(*types.Map); isMap {
				return []ast.Stmt{r.rangeMap(s)}
			}
		}
		r.noRecv(s.X)
		r.funcLits(s.X)
		r.block(s.Body)
		return []ast.Stmt{s}
	case *ast.SwitchStmt:
		r.simple(s.Init)
		r.noRecv(s.Tag)
		r.funcLits(s.Tag)
		for _, c := range s.Body.List {
			cc := c.(*ast.CaseClause)
			for _, e := range cc.List {
				r.noRecv(e)
				r.funcLits(e)
			}
			cc.Body = r.stmts(cc.Body)
		}
		return []ast.Stmt{s}
	case *ast.TypeSwitchStmt:
		r.simple(s.Init)
		r.funcLits(s.Assign)
		for _, c := range s.Body.List {
			cc := c.(*ast.CaseClause)
			cc.Body = r.stmts(cc.Body)
		}
		return []ast.Stmt{s}
	case *ast.SelectStmt:
		return []ast.Stmt{r.selectStmt(s)}
	case *ast.LabeledStmt:
		inner := r.stmt(s.Stmt)
		if len(inner) != 1 {
			fatal(r.fset, s.Pos(), "unsupported: labelled statement that expands to several statements")
		}
		if _, isRange := s.Stmt.(*ast.RangeStmt); isRange && inner[0] != s.Stmt {
			fatal(r.fset, s.Pos(), "unsupported: labelled range over a channel or map")
		}
		s.Stmt = inner[0]
		return []ast.Stmt{s}
	case *ast.ReturnStmt:
		for _, e := range s.Results {
			r.noRecv(e)
			r.funcLits(e)
		}
		return []ast.Stmt{s}
	case *ast.DeclStmt:
		if u := r.containsRecv(s); u != nil {
			fatal(r.fset, u.Pos(), "unsupported receive in a declaration")
		}
		r.funcLits(s)
		return []ast.Stmt{s}
	case *ast.IncDecStmt, *ast.BranchStmt, *ast.EmptyStmt:
		return []ast.Stmt{s}
	}
	fatal(r.fset, s.Pos(), "unsupported statement %T", s)
	return nil
}

func (r *rewriter) noRecv(e ast.Expr) {
	if e == nil {
		return
	}
	if u := r.containsRecv(e); u != nil {
		fatal(r.fset, u.Pos(), "unsupported receive expression in a condition/header")
	}
}

// simple handles the init/post statements of if/for/switch: no expansion possible.
func (r *rewriter) simple(s ast.Stmt) {
	if s == nil {
		return
	}
	switch s.(type) {
	case *ast.SendStmt, *ast.GoStmt:
		fatal(r.fset, s.Pos(), "unsupported: send/go in a statement header")
	}
	if u := r.containsRecv(s); u != nil {
		fatal(r.fset, u.Pos(), "unsupported receive in a statement header")
	}
	r.funcLits(s)
}

func (r *rewriter) goStmt(s *ast.GoStmt) ast.Stmt {
	r.usedHooks = true
	r.stats["go"]++
	call := s.Call
	var pre []ast.Stmt
	var args []ast.Expr
	for _, a := range call.Args {
		r.funcLits(a)
		t := r.name("A")
		pre = append(pre, define([]ast.Expr{t}, a))
		args = append(args, t)
	}
	fun := call.Fun
	if fl, ok := fun.(*ast.FuncLit); ok {
		r.block(fl.Body)
		if len(call.Args) == 0 && fl.Type.Results == nil {
			return exprStmt(hook("Go", fl))
		}
	} else {
		if hasCall(fun) {
			fatal(r.fset, s.Pos(), "unsupported: go statement whose function expression contains a call")
		}
		r.funcLits(fun)
	}
	inner := &ast.CallExpr{Fun: fun, Args: args, Ellipsis: call.Ellipsis}
	body := &ast.FuncLit{Type: &ast.FuncType{Params: &ast.FieldList{}}, Body: &ast.BlockStmt{List: []ast.Stmt{exprStmt(inner)}}}
	return &ast.BlockStmt{List: append(pre, exprStmt(hook("Go", body)))}
}

func (r *rewriter) rangeChan(s *ast.RangeStmt) ast.Stmt {
	r.usedHooks = true
	r.stats["range-chan"]++
	if s.Value != nil {
		fatal(r.fset, s.Pos(), "range over channel with two variables")
	}
	// a closure capturing the loop variable would see per-iteration instead of per-loop semantics
	if id, ok := s.Key.(*ast.Ident); ok && id.Name != "_" {
		obj := r.info.Defs[id]
		captured := false
		ast.Inspect(s.Body, func(n ast.Node) bool {
			if fl, ok := n.(*ast.FuncLit); ok {
				ast.Inspect(fl, func(m ast.Node) bool {
					if u, ok := m.(*ast.Ident); ok && obj != nil && r.info.Uses[u] == obj {
						captured = true
					}
					return true
				})
			}
			return true
		})
		if captured {
			fatal(r.fset, s.Pos(), "unsupported: closure captures the variable of a range over a channel")
		}
	}
	ch, ok := r.name("R"), r.name("Ok")
	r.block(s.Body)
	var recv ast.Stmt
	rx := &ast.UnaryExpr{Op: token.ARROW, X: ch}
	var pre []ast.Stmt
	switch {
	case s.Key == nil:
		recv = define([]ast.Expr{ast.NewIdent("_"), ok}, rx)
	case s.Tok == token.DEFINE:
		recv = define([]ast.Expr{s.Key, ok}, rx)
	default:
		pre = append(pre, &ast.DeclStmt{Decl: &ast.GenDecl{Tok: token.VAR, Specs: []ast.Spec{&ast.ValueSpec{Names: []*ast.Ident{ok}, Type: ast.NewIdent("bool")}}}})
		recv = &ast.AssignStmt{Lhs: []ast.Expr{s.Key, ok}, Tok: token.ASSIGN, Rhs: []ast.Expr{rx}}
	}
	body := []ast.Stmt{
		exprStmt(hook("BeforeRecv", ch)),
		recv,
		exprStmt(hook("AfterRecv", ch)),
		&ast.IfStmt{Cond: &ast.UnaryExpr{Op: token.NOT, X: ok}, Body: &ast.BlockStmt{List: []ast.Stmt{&ast.BranchStmt{Tok: token.BREAK}}}},
	}
	if id, isId := s.Key.(*ast.Ident); isId && id.Name != "_" && s.Tok == token.DEFINE {
		// keep "declared and not used" away when the body does not use the variable
		body = append(body, &ast.AssignStmt{Lhs: []ast.Expr{ast.NewIdent("_")}, Tok: token.ASSIGN, Rhs: []ast.Expr{ast.NewIdent(id.Name)}})
	}
	body = append(body, s.Body.List...)
	r.funcLits(s.X)
	list := []ast.Stmt{define([]ast.Expr{ch}, s.X)}
	list = append(list, pre...)
	list = append(list, &ast.ForStmt{Body: &ast.BlockStmt{List: body}})
	return &ast.BlockStmt{List: list}
}

// rangeMap turns `for k, v := range m {B}` into an iteration over vsched.Keys(m)
// (sorted under exploration), looking every entry up again so that deleted
// entries are skipped.
func (r *rewriter) rangeMap(s *ast.RangeStmt) ast.Stmt {
	r.usedHooks = true
	r.stats["range-map"]++
	r.noRecv(s.X)
	r.funcLits(s.X)
	r.block(s.Body)
	m, k, ok := r.name("M"), r.name("K"), r.name("Ok")
	var body []ast.Stmt
	assign := func(lhs ast.Expr, rhs ast.Expr) {
		if lhs == nil {
			return
		}
		if id, isId := lhs.(*ast.Ident); isId && id.Name == "_" {
			return
		}
		if s.Tok == token.DEFINE {
			body = append(body, define([]ast.Expr{lhs}, rhs))
			body = append(body, &ast.AssignStmt{Lhs: []ast.Expr{ast.NewIdent("_")}, Tok: token.ASSIGN, Rhs: []ast.Expr{lhs}})
		} else {
			body = append(body, &ast.AssignStmt{Lhs: []ast.Expr{lhs}, Tok: token.ASSIGN, Rhs: []ast.Expr{rhs}})
		}
	}
	val := r.name("V")
	body = append(body, define([]ast.Expr{val, ok}, &ast.IndexExpr{X: m, Index: k}))
	body = append(body, &ast.IfStmt{Cond: &ast.UnaryExpr{Op: token.NOT, X: ok}, Body: &ast.BlockStmt{List: []ast.Stmt{&ast.BranchStmt{Tok: token.CONTINUE}}}})
	body = append(body, &ast.AssignStmt{Lhs: []ast.Expr{ast.NewIdent("_")}, Tok: token.ASSIGN, Rhs: []ast.Expr{val}})
	assign(s.Key, k)
	assign(s.Value, val)
	body = append(body, s.Body.List...)
	loop := &ast.RangeStmt{Key: ast.NewIdent("_"), Value: k, Tok: token.DEFINE, X: hook("Keys", hook("RdMap", m, r.site(s.Pos(), "map "+exprName(s.X)))), Body: &ast.BlockStmt{List: body}}
	return &ast.BlockStmt{List: []ast.Stmt{define([]ast.Expr{m}, s.X), loop}}
}

func (r *rewriter) selectStmt(s *ast.SelectStmt) ast.Stmt {
	r.usedHooks = true
	r.stats["select"]++
	hasDefault := false
	var chans []ast.Expr
	var tmps []*ast.Ident
	var pre []ast.Stmt
	var cases []ast.Stmt
	// rewrite bodies first (shared between the scheduled form and the fallback select)
	for _, c := range s.Body.List {
		cc := c.(*ast.CommClause)
		cc.Body = r.stmts(cc.Body)
	}
	idx := 0
	var defaultBody []ast.Stmt
	for _, c := range s.Body.List {
		cc := c.(*ast.CommClause)
		if cc.Comm == nil {
			hasDefault = true
			defaultBody = cc.Body
			continue
		}
		var u *ast.UnaryExpr
		var comm ast.Stmt
		switch cm := cc.Comm.(type) {
		case *ast.ExprStmt:
			u = r.recvOf(cm.X)
		case *ast.AssignStmt:
			if len(cm.Rhs) == 1 {
				u = r.recvOf(cm.Rhs[0])
			}
		}
		if u == nil {
			fatal(r.fset, cc.Pos(), "unsupported select case (only receive cases are supported)")
		}
		if hasCall(u.X) {
			fatal(r.fset, u.Pos(), "unsupported: select on a channel expression with calls")
		}
		t := r.name("S")
		tmps = append(tmps, t)
		pre = append(pre, define([]ast.Expr{t}, u.X))
		chans = append(chans, t)
		// the communication, on the temporary
		switch cm := cc.Comm.(type) {
		case *ast.ExprStmt:
			comm = exprStmt(&ast.UnaryExpr{Op: token.ARROW, X: t})
		case *ast.AssignStmt:
			comm = &ast.AssignStmt{Lhs: cm.Lhs, Tok: cm.Tok, Rhs: []ast.Expr{&ast.UnaryExpr{Op: token.ARROW, X: t}}}
		}
		body := append([]ast.Stmt{comm, exprStmt(hook("AfterRecv", t))}, cc.Body...)
		// silence "declared and not used" for variables of the communication that the body does not use
		if as, ok := comm.(*ast.AssignStmt); ok && as.Tok == token.DEFINE {
			for _, l := range as.Lhs {
				if id, ok := l.(*ast.Ident); ok && id.Name != "_" {
					body = append([]ast.Stmt{body[0], &ast.AssignStmt{Lhs: []ast.Expr{ast.NewIdent("_")}, Tok: token.ASSIGN, Rhs: []ast.Expr{ast.NewIdent(id.Name)}}}, body[1:]...)
				}
			}
		}
		cases = append(cases, &ast.CaseClause{List: []ast.Expr{&ast.BasicLit{Kind: token.INT, Value: strconv.Itoa(idx)}}, Body: body})
		idx++
	}
	if hasDefault {
		cases = append(cases, &ast.CaseClause{List: []ast.Expr{&ast.BasicLit{Kind: token.INT, Value: strconv.Itoa(idx)}}, Body: defaultBody})
	}
	// fallback: the original select when no exploration is in progress
	cases = append(cases, &ast.CaseClause{List: []ast.Expr{&ast.UnaryExpr{Op: token.SUB, X: &ast.BasicLit{Kind: token.INT, Value: "1"}}}, Body: []ast.Stmt{s}})
	hd := "false"
	if hasDefault {
		hd = "true"
	}
	sw := &ast.SwitchStmt{Tag: hook("Select", append([]ast.Expr{ast.NewIdent(hd)}, chans...)...), Body: &ast.BlockStmt{List: cases}}
	return &ast.BlockStmt{List: append(pre, sw)}
}

// ---------- expression-level rewriting ----------

func (r *rewriter) inModule(obj types.Object) bool {
	return obj != nil && obj.Pkg() != nil && strings.HasPrefix(obj.Pkg().Path(), modPath) && !strings.HasPrefix(obj.Pkg().Path(), vschedPath)
}

func (r *rewriter) addressable(e ast.Expr) bool {
	switch e := e.(type) {
	case *ast.Ident:
		_, ok := r.info.Uses[e].(*types.Var)
		return ok
	case *ast.ParenExpr:
		return r.addressable(e.X)
	case *ast.StarExpr:
		return true
	case *ast.SelectorExpr:
		sel := r.info.Selections[e]
		if sel == nil || sel.Kind() != types.FieldVal {
			return false
		}
		if sel.Indirect() {
			return true
		}
		if _, isPtr := r.info.TypeOf(e.X).Underlying().(*types.Pointer); isPtr {
			return true
		}
		return r.addressable(e.X)
	case *ast.IndexExpr:
		switch r.info.TypeOf(e.X).Underlying().(type) {
		case *types.Slice:
			return true
		case *types.Pointer:
			return true
		case *types.Array:
			return r.addressable(e.X)
		}
		return false
	}
	return false
}

// throughPointer: evaluating the selector dereferences a pointer somewhere (so the memory may be shared).
func (r *rewriter) throughPointer(e *ast.SelectorExpr) bool {
	sel := r.info.Selections[e]
	if sel.Indirect() {
		return true
	}
	switch x := e.X.(type) {
	case *ast.SelectorExpr:
		if s2 := r.info.Selections[x]; s2 != nil && s2.Kind() == types.FieldVal {
			return r.throughPointer(x)
		}
	case *ast.Ident:
		if v, ok := r.info.Uses[x].(*types.Var); ok {
			return v.Parent() == v.Pkg().Scope() || r.captured[v]
		}
	case *ast.StarExpr, *ast.IndexExpr, *ast.CallExpr:
		return true
	}
	return false
}

func (r *rewriter) exprs(root ast.Node) {
	skip := map[ast.Node]bool{}
	writeCtx := map[ast.Node]bool{}
	noReplace := map[ast.Node]bool{}
	astutil.Apply(root, func(c *astutil.Cursor) bool {
		n := c.Node()
		switch n := n.(type) {
		case *ast.AssignStmt:
			for _, l := range n.Lhs {
				if n.Tok == token.DEFINE {
					noReplace[l] = true
				} else {
					writeCtx[unparen(l)] = true
				}
			}
		case *ast.IncDecStmt:
			writeCtx[unparen(n.X)] = true
		case *ast.RangeStmt:
			if n.Key != nil {
				noReplace[n.Key] = true
			}
			if n.Value != nil {
				noReplace[n.Value] = true
			}
		case *ast.SelectorExpr:
			// do not instrument a struct-valued prefix of a longer field path separately
			if x, ok := n.X.(*ast.SelectorExpr); ok {
				outer := r.info.Selections[n]
				if s := r.info.Selections[x]; s != nil && s.Kind() == types.FieldVal && outer != nil && outer.Kind() == types.FieldVal {
					if _, isStruct := r.info.TypeOf(x).Underlying().(*types.Struct); isStruct {
						skip[x] = true
					}
				}
			}
			noReplace[n.Sel] = true
		case *ast.KeyValueExpr:
			if id, ok := n.Key.(*ast.Ident); ok {
				noReplace[id] = true
			}
		case *ast.CallExpr:
			// append(s, ...): an in-place append writes into s's array
			if r.isBuiltin(n.Fun, "append") && len(n.Args) >= 2 {
				if t := r.info.TypeOf(n.Args[0]); t != nil {
					if _, isSlice := t.Underlying().(*types.Slice); isSlice {
						if tv, ok := r.info.Types[n.Args[0]]; ok && !tv.IsNil() {
							r.usedHooks = true
							r.stats["append"]++
							n.Args[0] = hook("Append", n.Args[0], r.site(n.Pos(), "append to "+exprName(n.Args[0])))
						}
					}
				}
			}
			if r.isBuiltin(n.Fun, "delete") && len(n.Args) == 2 {
				writeCtx[n.Args[0]] = true // marks the map operand
			}
		case *ast.IndexExpr:
			if writeCtx[n] {
				if _, isMap := r.info.TypeOf(n.X).Underlying().(*types.Map); isMap {
					writeCtx[n.X] = true
					// the map operand itself (a field or variable) is only read
					noReplace[nil] = false
				}
			}
		case *ast.Field, *ast.LabeledStmt, *ast.BranchStmt:
			return true
		}
		return true
	}, func(c *astutil.Cursor) bool {
		switch n := c.Node().(type) {
		case *ast.SelectorExpr:
			sel := r.info.Selections[n]
			if sel == nil || sel.Kind() != types.FieldVal || skip[n] || noReplace[n] {
				return true
			}
			fld, _ := sel.Obj().(*types.Var)
			if fld == nil || !r.inModule(fld) || !r.written[fld] {
				return true
			}
			if !r.addressable(n) || !r.throughPointer(n) {
				r.stats["access-not-instrumentable"]++
				return true
			}
			// a map-typed operand of a written index expression: the field itself is read
			isWrite := writeCtx[n]
			if _, isMap := r.info.TypeOf(n).Underlying().(*types.Map); isMap && isWrite {
				if _, parentIsIndex := c.Parent().(*ast.IndexExpr); parentIsIndex {
					isWrite = false
				} else if call, ok := c.Parent().(*ast.CallExpr); ok && r.isBuiltin(call.Fun, "delete") {
					isWrite = false
				}
			}
			fn := "Rd"
			if isWrite {
				fn = "Wr"
			}
			recv := sel.Recv()
			if p, ok := recv.(*types.Pointer); ok {
				recv = p.Elem()
			}
			owner := types.TypeString(recv, func(*types.Package) string { return "" })
			if i := strings.LastIndex(owner, "."); i >= 0 {
				owner = owner[i+1:]
			}
			r.usedHooks = true
			r.stats["field-access"]++
			c.Replace(&ast.ParenExpr{X: &ast.StarExpr{X: hook(fn, &ast.UnaryExpr{Op: token.AND, X: n}, r.site(n.Pos(), owner+"."+fld.Name()))}})
		case *ast.Ident:
			if noReplace[n] {
				return true
			}
			v, ok := r.info.Uses[n].(*types.Var)
			if !ok || v.IsField() || !r.inModule(v) || !r.written[v] {
				return true
			}
			isPkgVar := v.Parent() == v.Pkg().Scope()
			if !isPkgVar && !r.captured[v] {
				return true
			}
			switch p := c.Parent().(type) {
			case *ast.SelectorExpr:
				if p.Sel == n {
					return true
				}
			case *ast.KeyValueExpr:
				if p.Key == n {
					if _, isStructLit := r.info.Uses[n].(*types.Var); isStructLit && v.IsField() {
						return true
					}
				}
			}
			isWrite := writeCtx[n]
			if _, isMap := v.Type().Underlying().(*types.Map); isMap && isWrite {
				if _, parentIsIndex := c.Parent().(*ast.IndexExpr); parentIsIndex {
					isWrite = false
				} else if call, ok := c.Parent().(*ast.CallExpr); ok && r.isBuiltin(call.Fun, "delete") {
					isWrite = false
				}
			}
			fn := "Rd"
			if isWrite {
				fn = "Wr"
			}
			kind := "var "
			if !isPkgVar {
				kind = "local "
			}
			r.usedHooks = true
			r.stats["var-access"]++
			c.Replace(&ast.ParenExpr{X: &ast.StarExpr{X: hook(fn, &ast.UnaryExpr{Op: token.AND, X: ast.NewIdent(n.Name)}, r.site(n.Pos(), kind+n.Name))}})
		case *ast.IndexExpr:
			// map element access: record an access to the map object
			t := r.info.TypeOf(n.X)
			if t == nil {
				return true
			}
			if _, isSlice := t.Underlying().(*types.Slice); isSlice {
				// slice element access: the element is the shared memory
				if noReplace[n] {
					return true
				}
				if tv, ok := r.info.Types[n]; !ok || !tv.IsValue() {
					return true
				}
				fn := "Rd"
				if writeCtx[n] {
					fn = "Wr"
				}
				r.usedHooks = true
				r.stats["slice-element-access"]++
				c.Replace(&ast.ParenExpr{X: &ast.StarExpr{X: hook(fn, &ast.UnaryExpr{Op: token.AND, X: n}, r.site(n.Pos(), "element of "+exprName(n.X)))}})
				return true
			}
			if _, isMap := t.Underlying().(*types.Map); !isMap {
				return true
			}
			fn := "RdMap"
			if writeCtx[n] {
				fn = "WrMap"
			}
			r.usedHooks = true
			r.stats["map-access"]++
			n.X = hook(fn, n.X, r.site(n.Pos(), "map "+exprName(n.X)))
		case *ast.CallExpr:
			// append(s, ...): an in-place append writes into s's array
			if r.isBuiltin(n.Fun, "append") && len(n.Args) >= 2 {
				if t := r.info.TypeOf(n.Args[0]); t != nil {
					if _, isSlice := t.Underlying().(*types.Slice); isSlice {
						if tv, ok := r.info.Types[n.Args[0]]; ok && !tv.IsNil() {
							r.usedHooks = true
							r.stats["append"]++
							n.Args[0] = hook("Append", n.Args[0], r.site(n.Pos(), "append to "+exprName(n.Args[0])))
						}
					}
				}
			}
			if r.isBuiltin(n.Fun, "delete") && len(n.Args) == 2 {
				r.usedHooks = true
				r.stats["map-access"]++
				n.Args[0] = hook("WrMap", n.Args[0], r.site(n.Pos(), "map "+exprName(n.Args[0])))
			}
			// time.Sleep -> vsched.Sleep
			if se, ok := n.Fun.(*ast.SelectorExpr); ok {
				if id, ok := se.X.(*ast.Ident); ok {
					if pn, ok := r.info.Uses[id].(*types.PkgName); ok && pn.Imported().Path() == "time" && se.Sel.Name == "Sleep" {
						r.usedHooks = true
						r.stats["sleep"]++
						n.Fun = &ast.SelectorExpr{X: ast.NewIdent("vsched"), Sel: ast.NewIdent("Sleep")}
					}
				}
			}
			// file-system operations are visible operations: a scheduling point before os.Create/Rename/... and
			// before (*os.File).Close/Sync (the first argument resp. the receiver is passed through vsched.FS)
			if se, ok := n.Fun.(*ast.SelectorExpr); ok {
				if id, ok := se.X.(*ast.Ident); ok {
					if pn, ok := r.info.Uses[id].(*types.PkgName); ok && (pn.Imported().Path() == "os" || pn.Imported().Path() == "io/ioutil") && fsCalls[se.Sel.Name] && len(n.Args) >= 1 {
						r.usedHooks = true
						r.stats["fs-point"]++
						n.Args[0] = hook("FS", n.Args[0], r.site(n.Pos(), pn.Imported().Path()+"."+se.Sel.Name))
					}
				}
				if t := r.info.TypeOf(se.X); t != nil && t.String() == "*os.File" && (se.Sel.Name == "Close" || se.Sel.Name == "Sync") {
					r.usedHooks = true
					r.stats["fs-point"]++
					se.X = hook("FS", se.X, r.site(n.Pos(), "(*os.File)."+se.Sel.Name))
				}
			}
			// make(chan T, N) with a literal N >= 2
			if r.isBuiltin(n.Fun, "make") && len(n.Args) == 2 {
				if _, isChan := n.Args[0].(*ast.ChanType); isChan {
					if lit, ok := n.Args[1].(*ast.BasicLit); ok && lit.Kind == token.INT {
						if v, _ := strconv.Atoi(lit.Value); v >= 2 {
							r.usedHooks = true
							r.stats["chan-cap"]++
							n.Args[1] = hook("Cap", lit)
						}
					}
				}
			}
		case *ast.RangeStmt:
			if t := r.info.TypeOf(n.X); t != nil {
				if _, isMap := t.Underlying().(*types.Map); isMap {
					r.usedHooks = true
					r.stats["map-access"]++
					n.X = hook("RdMap", n.X, r.site(n.Pos(), "map "+exprName(n.X)))
				}
			}
		}
		return true
	})
}

func unparen(e ast.Expr) ast.Expr {
	for {
		p, ok := e.(*ast.ParenExpr)
		if !ok {
			return e
		}
		e = p.X
	}
}

func exprName(e ast.Expr) string {
	var buf bytes.Buffer
	printer.Fprint(&buf, token.NewFileSet(), e)
	s := buf.String()
	if len(s) > 40 {
		s = s[:40]
	}
	return strings.ReplaceAll(s, "\n", " ")
}

// ---------- pre-pass: which variables are written after construction / captured ----------

func collect(pkgs []*packages.Package) (written, captured map[*types.Var]bool) {
	written, captured = map[*types.Var]bool{}, map[*types.Var]bool{}
	for _, p := range pkgs {
		info := p.TypesInfo
		varOf := func(e ast.Expr) *types.Var {
			switch e := unparen(e).(type) {
			case *ast.SelectorExpr:
				if s := info.Selections[e]; s != nil && s.Kind() == types.FieldVal {
					v, _ := s.Obj().(*types.Var)
					return v
				}
			case *ast.Ident:
				v, _ := info.Uses[e].(*types.Var)
				return v
			}
			return nil
		}
		for _, f := range p.Syntax {
			ast.Inspect(f, func(n ast.Node) bool {
				switch n := n.(type) {
				case *ast.AssignStmt:
					for _, l := range n.Lhs {
						if v := varOf(l); v != nil {
							written[v] = true
						}
					}
				case *ast.IncDecStmt:
					if v := varOf(n.X); v != nil {
						written[v] = true
					}
				case *ast.UnaryExpr:
					if n.Op == token.AND {
						if v := varOf(n.X); v != nil {
							written[v] = true
						}
					}
				case *ast.RangeStmt:
					for _, e := range []ast.Expr{n.Key, n.Value} {
						if e != nil && n.Tok == token.ASSIGN {
							if v := varOf(e); v != nil {
								written[v] = true
							}
						}
					}
				case *ast.FuncLit:
					// variables used inside a function literal but declared outside it
					ast.Inspect(n.Body, func(m ast.Node) bool {
						if id, ok := m.(*ast.Ident); ok {
							if v, ok := info.Uses[id].(*types.Var); ok && !v.IsField() && v.Pkg() != nil && v.Parent() != v.Pkg().Scope() {
								if v.Pos() < n.Pos() || v.Pos() > n.End() {
									captured[v] = true
								}
							}
						}
						return true
					})
				}
				return true
			})
		}
	}
	return
}

// ---------- driver ----------

func main() {
	repo := flag.String("repo", "/repo", "repository root")
	out := flag.String("out", "", "scratch directory for rewritten files")
	vs := flag.String("vsched", "/verif/engine/vsched", "vsched sources")
	extra := flag.String("extra", "", "comma separated list of extra overlay entries dst=src")
	flag.Parse()
	if *out == "" {
		fmt.Fprintln(os.Stderr, "vinstr: -out required")
		os.Exit(2)
	}
	fset := token.NewFileSet()
	cfg := &packages.Config{Mode: packages.NeedName | packages.NeedFiles | packages.NeedCompiledGoFiles | packages.NeedSyntax | packages.NeedTypes | packages.NeedTypesInfo | packages.NeedImports | packages.NeedDeps, Dir: *repo, Fset: fset,
		Env: append(os.Environ(), "GOFLAGS=-mod=mod", "GOPROXY=off", "GOSUMDB=off", "GOTOOLCHAIN=local")}
	pkgs, err := packages.Load(cfg, "./...")
	if err != nil {
		fmt.Fprintln(os.Stderr, "vinstr:", err)
		os.Exit(2)
	}
	bad := false
	for _, p := range pkgs {
		for _, e := range p.Errors {
			fmt.Fprintln(os.Stderr, "vinstr: type error:", e)
			bad = true
		}
	}
	if bad {
		os.Exit(2)
	}
	written, captured := collect(pkgs)
	overlay := map[string]string{}
	stats := map[string]int{}
	var notes []string
	sort.Slice(pkgs, func(i, j int) bool { return pkgs[i].PkgPath < pkgs[j].PkgPath })
	for _, p := range pkgs {
		for i, f := range p.Syntax {
			name := p.CompiledGoFiles[i]
			rel, _ := filepath.Rel(*repo, name)
			r := &rewriter{fset: fset, pkg: p, info: p.TypesInfo, file: f, fileName: name, rel: rel, written: written, captured: captured, stats: stats, notes: &notes}
			for _, imp := range f.Imports {
				path, _ := strconv.Unquote(imp.Path.Value)
				switch path {
				case "sync/atomic", "context", "os/signal":
					notes = append(notes, fmt.Sprintf("%s imports %s (not owned by the scheduler)", rel, path))
				}
			}
			// 1. statements
			for _, d := range f.Decls {
				if fd, ok := d.(*ast.FuncDecl); ok && fd.Body != nil {
					r.block(fd.Body)
				} else if gd, ok := d.(*ast.GenDecl); ok {
					r.funcLits(gd)
				}
			}
			// 2. expressions
			r.exprs(f)
			// 3. imports
			changedSync := false
			for _, imp := range f.Imports {
				if imp.Path.Value == `"sync"` {
					v := syncVariant[filepath.Base(name)]
					if filepath.Dir(rel) != "." {
						v = ""
					}
					if v == "" {
						v = "vsync"
					}
					imp.Path.Value = strconv.Quote(vschedPath + "/" + v)
					imp.Name = ast.NewIdent("sync")
					changedSync = true
					stats["sync-import"]++
				}
			}
			if !r.usedHooks && !changedSync {
				continue
			}
			if r.usedHooks {
				astutil.AddNamedImport(fset, f, "vsched", vschedPath)
			}
			f.Comments = nil
			var buf bytes.Buffer
			buf.WriteString("//go:build go1.21\n\n")
			if err := printer.Fprint(&buf, fset, f); err != nil {
				fmt.Fprintln(os.Stderr, "vinstr: print:", err)
				os.Exit(2)
			}
			dst := filepath.Join(*out, rel)
			os.MkdirAll(filepath.Dir(dst), 0o755)
			if err := os.WriteFile(dst, buf.Bytes(), 0o644); err != nil {
				fmt.Fprintln(os.Stderr, "vinstr:", err)
				os.Exit(2)
			}
			overlay[name] = dst
			stats["files-rewritten"]++
			// ownership audit on the output
			audit(dst, &notes)
		}
	}
	// the virtual vsched package(s)
	filepath.Walk(*vs, func(path string, fi os.FileInfo, err error) error {
		if err != nil || fi.IsDir() || !strings.HasSuffix(path, ".go") || strings.HasSuffix(path, "_test.go") {
			return nil
		}
		rel, _ := filepath.Rel(*vs, path)
		overlay[filepath.Join(*repo, "vsched", rel)] = path
		return nil
	})
	if *extra != "" {
		for _, e := range strings.Split(*extra, ",") {
			kv := strings.SplitN(e, "=", 2)
			overlay[kv[0]] = kv[1]
		}
	}
	b, _ := json.MarshalIndent(map[string]interface{}{"Replace": overlay}, "", " ")
	os.WriteFile(filepath.Join(*out, "overlay.json"), b, 0o644)
	sb, _ := json.MarshalIndent(map[string]interface{}{"stats": stats, "notes": notes}, "", " ")
	os.WriteFile(filepath.Join(*out, "vinstr-report.json"), sb, 0o644)
	fmt.Printf("vinstr: %d files rewritten; %v\n", stats["files-rewritten"], stats)
}

// audit re-parses a rewritten file and fails when an unowned construct survives.
func audit(path string, notes *[]string) {
	fset := token.NewFileSet()
	src, _ := os.ReadFile(path)
	f, err := parserParse(fset, path, src)
	if err != nil {
		fmt.Fprintf(os.Stderr, "vinstr: rewritten file does not parse: %s: %v\n", path, err)
		os.Exit(2)
	}
	inFallback := 0
	var walk func(n ast.Node)
	walk = func(n ast.Node) {
		ast.Inspect(n, func(x ast.Node) bool {
			switch x := x.(type) {
			case *ast.GoStmt:
				fmt.Fprintf(os.Stderr, "vinstr: audit: go statement survived in %s\n", fset.Position(x.Pos()))
				os.Exit(2)
			case *ast.SelectStmt:
				if inFallback == 0 {
					// must be the body of `case -1:`; checked by the caller setting inFallback
					fmt.Fprintf(os.Stderr, "vinstr: audit: select outside the fallback arm in %s\n", fset.Position(x.Pos()))
					os.Exit(2)
				}
			case *ast.CaseClause:
				if len(x.List) == 1 {
					if u, ok := x.List[0].(*ast.UnaryExpr); ok && u.Op == token.SUB {
						inFallback++
						for _, s := range x.Body {
							walk(s)
						}
						inFallback--
						return false
					}
				}
			case *ast.ImportSpec:
				if x.Path.Value == `"sync"` {
					fmt.Fprintf(os.Stderr, "vinstr: audit: import of sync survived in %s\n", path)
					os.Exit(2)
				}
			}
			return true
		})
	}
	walk(f)
}
