#!/bin/bash
# racecross.sh [runs-per-configuration]   (cross-validation of the E1 race monitor; decides nothing)
# Builds the C11 harness with the Go race detector, runs every scenario free-running with Jobs {2,3,8},
# and lists the source lines the detector reports, each with the monitor variable (race:<Type.field> in
# /verif/evidence/C11.json and known_findings.json) its text mentions. A reported line that mentions
# none of the monitor's variables would be a racing variable the monitor overlooks.
set -u
export GOFLAGS=-mod=mod GOPROXY=off GOSUMDB=off GOTOOLCHAIN=local
N="${1:-40}"
V="${VERIF_DIR:-/verif}"; R="${VERIF_REPO:-/repo}"
BIN=$(mktemp /dev/shm/c11race.XXXXXX)
(cd /repo && go build -o "$V/.build/gedcom-bin-c11" ./cmd/gedcom) || exit 2
SC=$(mktemp -d /dev/shm/racecross.XXXXXX)
E1_KEEP_SCRATCH="$SC" E1_GOFLAGS=-race "$V/harness/e1/build.sh" c11 "$BIN" || exit 2
GORACE="halt_on_error=0" "$BIN" --racecross "$N" > /dev/shm/racecross.out 2> /dev/shm/racecross.err
rm -f "$BIN"
python3 - "$R" "$SC" <<'PY'
import re,sys,json,collections
repo=sys.argv[1]; sc=sys.argv[2]
ov=json.load(open(sc+'/overlay.json'))['Replace']   # the detector's line numbers are those of the rewritten files
err=open('/dev/shm/racecross.err').read()
reports=err.split('WARNING: DATA RACE')[1:]
known=set()
for f in json.load(open('/verif/known_findings.json'))['findings']:
    if f['property']=='C11' and f['signature'].startswith('race:'): known.add(f['signature'][5:])
fields={k.split('.')[-1]:k for k in known}
lines=collections.Counter()
for r in reports:
    # first repository frame of each of the two accesses
    for block in re.split(r'\n\n', r)[:2]:
        m=re.search(re.escape(repo)+r'/([\w/]+\.go):(\d+)', block)
        if m: lines[(m.group(1),int(m.group(2)))]+=1
print("race detector reports: %d; distinct repository lines: %d"%(len(reports),len(lines)))
bad=0
for (f,l),n in sorted(lines.items()):
    src=open(ov.get(repo+'/'+f, repo+'/'+f)).read().split('\n')[l-1].strip()
    src=re.sub(r'\(\*vsched\.(?:Rd|Wr)\(&([^,]+), "[^"]*"\)\)', r'\1', src)   # undo the access hooks for reading
    hit=[v for k,v in fields.items() if re.search(r'\b'+re.escape(k)+r'\b',src)]
    if not hit: bad+=1
    print("%-28s %5d  %-45s %s"%(f+':'+str(l),n,src[:45],', '.join(hit) if hit else '** no monitor variable on this line **'))
print("lines without a monitor variable: %d"%bad)
PY
rm -rf "$SC"
