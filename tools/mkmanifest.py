#!/usr/bin/env python3
"""Regenerates /verif/MANIFEST.json from the table below (kept valid at all times)."""
import json, os, subprocess
V = os.path.dirname(os.path.dirname(os.path.abspath(__file__)))

CHECKS = {
 "C05": dict(engine="E3", category="exploration", design_ref="§4 C05",
   technique="bounded-exhaustive enumeration of every calendar date against an own calendar reference model",
   text="Every day, month-year and year (quick: three 400-year blocks; thorough: all of 1..9999) is run through the real Date.Time/Years/IsBefore/IsAfter/Duration/Minimum/Maximum and compared with own proleptic-Gregorian arithmetic; exhaustive as the property's quantifier states.",
   note="Trusts ref/cal.go (cross-checked against time.Date for every month at start-up). Far-apart order follows from strict day-to-day monotonicity; pairs checked directly up to 40 (quick) / 400 (thorough) days apart."),
}

NOT_APPLICABLE = []

def main():
    props = [json.loads(l)["id"] for l in open(os.path.join(V, "properties.jsonl"))]
    checks = []
    for pid in props:
        c = CHECKS.get(pid)
        if not c:
            continue
        checks.append({
            "property_id": pid,
            "quick_cmd": f"bin/vcheck run {pid} --tier quick",
            "thorough_cmd": f"bin/vcheck run {pid} --tier thorough",
            "evidence_file": f"/verif/evidence/{pid}.json",
            "replay_cmd_template": f"bin/vcheck replay {pid} {{path}}",
            "engine": c["engine"],
            "level_claimed": {"category": c["category"], "text": c["text"], "design_ref": c["design_ref"]},
            "level_note": c["note"],
            "technique": c["technique"],
        })
    na = list(NOT_APPLICABLE)
    claimed = {c["property_id"] for c in checks}
    listed = {n["property_id"] for n in na}
    for pid in props:
        if pid not in claimed and pid not in listed:
            na.append({"property_id": pid, "reason": "check not built yet in this revision (work in progress; see DESIGN.md §4 for the planned bounded-exhaustive check)"})
    fixes = subprocess.run(["git", "-C", "/repo", "log", "--format=%h %s"], capture_output=True, text=True).stdout.splitlines()
    m = {
        "version": 1,
        "setup_cmd": "bin/vcheck setup",
        "hooks": {
            "guard": "verif",
            "enable": "instrumentation is generated at check time by tools/vinstr into a scratch directory and applied with `go build -tags verif -overlay <generated>`; nothing guarded is committed to /repo",
            "baseline_off_cmd": "cd /repo && GOFLAGS=-mod=mod GOPROXY=off GOSUMDB=off go test -json -vet=off -count=1 -timeout 25m ./...",
            "source_commits": [],
            "add_only": True,
        },
        "engines": [
            {"name": "E1", "path": "engine/vsched + tools/vinstr", "serves_properties": ["C11", "C19"], "kind_free_text": "cooperative scheduler + delay-bounded stateless DFS over schedules of the real code (AST-rewritten overlay), vector-clock race monitor"},
            {"name": "E2", "path": "harness/cmd/c13", "serves_properties": ["C13"], "kind_free_text": "explicit-state BFS over API operation histories on the real Document, successor = replay on fresh instance"},
            {"name": "E3", "path": "harness/vlib + harness/cmd/*", "serves_properties": [p for p in props if p not in ("C11", "C13", "C19")], "kind_free_text": "bounded-exhaustive input enumeration against reference models / laws, sharded over worker processes"},
            {"name": "E4", "path": "harness/cmd/c19", "serves_properties": ["C19"], "kind_free_text": "fault enumeration: FileWriter failing at every k"},
        ],
        "checks": checks,
        "not_applicable": na,
        "notes": "fix: commits in /repo: " + "; ".join(f for f in fixes if " fix:" in f),
    }
    json.dump(m, open(os.path.join(V, "MANIFEST.json"), "w"), indent=1)
    print("checks:", len(checks), "not_applicable:", len(na))

main()
