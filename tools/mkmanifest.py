#!/usr/bin/env python3
"""Regenerates /verif/MANIFEST.json from the table below (kept valid at all times)."""
import json, os, subprocess
V = os.path.dirname(os.path.dirname(os.path.abspath(__file__)))

CHECKS = {
 "C01": dict(engine="E3", category="exploration", design_ref="§4 C01",
   technique="bounded-exhaustive enumeration of node forests (all shapes <=N nodes x label deviations, all depths 0..99) with a structural round-trip oracle",
   text="Every ordered forest up to N nodes (quick 6, thorough 8) with up to two deviating labels over every specialised tag, odd-but-legal tags, values and pointers is built through the public API (role-node forests through text), encoded and decoded; the decoded forest must equal the source position by position incl. Go node type and BOM flag. All depths 0..99.",
   note="Small-scope: nothing is claimed beyond N nodes / 2 deviating labels / the listed alphabet. Expected node kinds come from the harness's own tag table."),
 "C02": dict(engine="E3", category="model_checking", design_ref="§4 C02",
   technique="bounded-exhaustive enumeration of level walks and byte strings, each executed on a hand-written reference decoder and on the real decoder (differential, every model case replayed on the implementation)",
   text="Reference-model check: all level walks (levels 0-4,10) up to n lines with up to 2 deviating lines from a 32-symbol line-deviation alphabet, all byte strings up to L over an 8-byte alphabet, x 4 decoder option combinations; whenever the implementation accepts, its tree must equal the reference decoder's tree, and encode/decode must be a fixpoint.",
   note="Trusts ref/decode.go. One-directional as the property is (only accepted streams are compared). ASCII white-space trimming only (alphabet has no other Unicode space)."),
 "C03": dict(engine="E3", category="exploration", design_ref="§4 C03",
   technique="bounded-exhaustive enumeration of adversarial line sequences, level walks and byte strings under every decoder option combination; oracle: document or line-naming error, only the documented panic",
   text="All sequences of up to n lines over a structure-adversarial alphabet (HUSB/WIFE/CHIL/FAM/INDI/NAME/DATE x level 0-3), C02's walks and byte strings, plus parametric giants, x 4 option combinations; every run must return a document or an error 'line <n>: ...' naming the right line; only the documented 'indent is too large' panic is tolerated and only with AllowInvalidIndents off.",
   note="No native fuzzing (sampling is a different family). Giants are single cases, not a space."),
 "C04": dict(engine="E3", category="exploration", design_ref="§4 C04",
   technique="bounded-exhaustive enumeration of the documented DATE grammar (full field product plus near misses, all pairs as ranges) against an independent reference parser",
   text="The product of 15 keyword spellings x letter case x 14 day classes x 23 month spellings (+ near misses) x 14 year classes x 6 spacings x trailing junk, and every ordered pair of 160 representative sentences under 8 between-words x 5 and-words, are parsed by the real code and by a table-driven reference parser; day/month/year/constraint of both ends, validity, canonical printing and print/parse fixpoint must agree.",
   note="Trusts ref/date.go. Forms the documentation leaves open (extra leading zeros, year 0, 5-digit years) are judged for no-crash/stability only. Numeric fields are classes, except thorough which adds every calendar day."),
 "C06": dict(engine="E3", category="exploration", design_ref="§4 C06",
   technique="bounded-exhaustive enumeration of all ordered pairs of day ranges inside calendar windows against the documented interval relation and its algebraic laws",
   text="Every [a,b] x [c,d] (a<=b, c<=d) inside day windows across a year change, leap/non-leap February and both ends of the supported range, plus every pairing of day/month/year granularities (structs and parsed strings), is compared; result must be an admissible drawn relation, never Invalid, Equal on self-comparison, converse under operand swap, and exactly one simplified verdict.",
   note="Orientation taken from TestDateRange_Compare. Where two drawn relations hold (single-day argument touching an end) either is accepted; the converse law decides. No random ranges (sampling is a different family)."),
 "C07": dict(engine="E3", category="exploration", design_ref="§4 C07",
   technique="bounded-exhaustive enumeration of all small node trees over the equality-kind alphabet with all child permutations, all single edits, all copy paths and all single mutations; all ordered pairs for symmetry",
   text="Every tree up to N nodes (quick 3 over 25 labels + 4 over 12 labels; thorough 4 + 5) is checked against the laws: every copy path (DeepCopy, identity Filter, decode(encode)) is DeepEqual both ways, serialises identically and shares no node; every re-ordering of children at every level is DeepEqual; every single insert/delete/change of a plain node is detected; every single mutation of copy or source leaves the other byte-identical; DeepEqual/DeepEqualNodes are symmetric on all ordered pairs of trees up to 3 nodes.",
   note="Small scope: N nodes, the listed label alphabet (one or two labels per equality rule). Known finding (greedy matching + non-transitive DATE equality) is carved out by a predicate evaluated on the failing tree; permutation failures without such a triple still fire."),
 "C08": dict(engine="E3", category="exploration", design_ref="§4 C08",
   technique="bounded-exhaustive enumeration of all small tree pairs x all orders of diff operations up to length 4, with provenance/coverage invariants and byte-identical-input purity after every operation",
   text="Every ordered pair of trees up to N nodes (quick 3, thorough 4) with equal root tag, every tree against permuted copies and copies with 1-2 uniquely tagged leaves inserted (both directions); invariants: provenance by identity and depth, coverage of every input node by an entry holding an Equals node under its parent's entry, two-sided only for Equals nodes, inserted leaves one-sided, deep-equal inputs all two-sided; all 340 operation orders over {String, IsDeepEqual, Sort, Tag} leave both inputs byte-identical.",
   note="Alphabet chosen for the matcher's shortcuts (duplicate siblings, always-equal BIRT, child-dependent RESI/DATE, pointered node). Full operation-order product only on pairs with <=4 (quick) / <=5 (thorough) nodes in total; larger pairs get three representative orders."),
 "C09": dict(engine="E3", category="exploration", design_ref="§4 C09",
   technique="bounded-exhaustive enumeration of all small tree pairs and list pairs x merge functions, with Equals-path coverage, marker accounting, identity-disjointness and every single mutation of the result",
   text="MergeNodes on every ordered pair of trees up to 3 nodes (equal root tags; error paths for different tags and nil) and MergeNodeSlices on every ordered pair of lists of 0..3 marker-carrying elements under {equality, always, never} merge functions: nothing lost (Equals path for every input node), nothing invented, documented length bounds, each element merged at most once, self-merge adds nothing, result shares no node with the inputs, inputs byte-identical after the merge and after every single AddNode/DeleteNode/SetNodes(nil) on the result.",
   note="The two roots of MergeNodes (and of elements merged by the merge function) are identified with the merged root, since the API merges the children of two same-tag nodes. Quick tier skips list pairs with 6 elements in total."),
 "C10": dict(engine="E3", category="exploration", design_ref="§4 C10",
   technique="bounded-exhaustive enumeration of base family graphs x all edit sequences up to k of the right-hand copy x similarity options x entry points, with marker accounting and referential-closure oracles",
   text="Five referentially closed base graphs against their right-hand copy after every sequence of up to 2 (quick) / 3 (thorough) edits from 11 edit kinds, plus empty, disjoint and clashing-pointer documents on either side, under default/strict/lenient thresholds through the library call and the query function: every marker in exactly one output individual, at most one left and one right marker per individual, every fact of both originals present, output re-decodes to the same document, every HUSB/WIFE/CHIL/FAMS/FAMC reference resolves to the record now representing the person it denoted.",
   note="Independent of which matching the implementation chooses (unique marker per individual). Jobs unset; schedules are C11's business. Two known findings share the root cause 'no pointer rewriting'; reference findings are collected per case so they cannot mask other findings."),
 "C11": dict(engine="E1", category="model_checking", design_ref="§3.1, §4 C11",
   technique="stateless model checking of the implementation: controlled cooperative scheduler + delay-bounded exhaustive schedule enumeration (iterative deviation bounding) over the AST-instrumented real code, with a vector-clock happens-before race monitor",
   text="The real IndividualNodes.Compare pipeline (four goroutine stages, three worker pools, polling select, two sync.Map sent-sets, a mutex-protected counter) is rewritten by tools/vinstr at check time and run under engine/vsched on 14 tiny colliding input pairs x Jobs {0,1,2,3,(8,16)} x thresholds {0,default,1} x channel capacity {real,1} x sync.Map range order x three base schedulers; every schedule with at most d deviations (quick: d=2 on the main configuration, d=1 on the option grid; thorough: one more) runs to completion and is judged for termination (deadlock/livelock), valid one-to-one matching, justified pairs, equality with the sequential result when tie-free, and data races (happens-before monitor over instrumented field/variable/map accesses).",
   note="Scheduling points are the hooked synchronisation operations; races are reported rather than explored. nodeCache/pointerCache are quiet maps with run-time-checked side conditions (full_maps configurations make them points). Replay determinism is asserted per configuration. GOMAXPROCS is not a dimension (the scheduler produces every interleaving of hooked operations). The 'gedcom diff' command line is driven on the real binary (flag plumbing and result), not under the scheduler; its goroutine hand-off is exercised by C14 on the real binary."),
 "C12": dict(engine="E3", category="exploration", design_ref="§4 C12",
   technique="bounded-exhaustive enumeration of all operand pairs over small string alphabets, a date window, a finite individual universe x option grid, small lists and family graphs, against range/symmetry/identity/monotonicity laws",
   text="All ordered pairs: strings over {a,b} up to length 8/10 and {a,b,c} up to 5/6 (JaroWinkler x prefix sizes x boost thresholds), names with case/punctuation/multi-byte letters (StringSimilarity), ~420 DATE values x 3 maxYears with per-row distance monotonicity, 75 individuals x 106 option settings (Similarity, SurroundingSimilarity, WeightedSimilarity), lists of 0..3 individuals x 3 MinimumSimilarity, 21 family graphs; every score in [0,1] exactly, operand-order independent within 1e-12, 1 on identity, 0 beyond maxYears, 0.5 where the documentation promises neutrality.",
   note="Tolerance 1e-12 fixed upfront (legitimate re-association moves results by ~1e-16; a differing Jaro match moves them by >=1e-3). Missing names score 0 by design (not documented as neutral) and are not judged against 0.5."),
 "C05": dict(engine="E3", category="exploration", design_ref="§4 C05",
   technique="bounded-exhaustive enumeration of every calendar date against an own calendar reference model",
   text="Every day, month-year and year (quick: three 400-year blocks; thorough: all of 1..9999) is run through the real Date.Time/Years/IsBefore/IsAfter/Duration/Minimum/Maximum and compared with own proleptic-Gregorian arithmetic; exhaustive as the property's quantifier states.",
   note="Trusts ref/cal.go (cross-checked against time.Date for every month at start-up). Far-apart order follows from strict day-to-day monotonicity; pairs checked directly up to 40 (quick) / 400 (thorough) days apart."),
 "C13": dict(engine="E2", category="model_checking", design_ref="§3.2, §4 C13",
   technique="explicit-state search over API operation histories on the real Document (successor = replay on a fresh instance + one operation), every history up to depth D, with a fresh-decode self-model as oracle",
   text="From 4 initial documents every history of up to 3 (quick) / 4 (thorough) operations over ~45 operation instances on the colliding pool {I1,I2,I3,F1,F2} - edits (add/delete/replace children, add individuals/families, set/clear husband/wife, add children, delete root records), an explicit warm-all-views operation, and read-only operations (Warnings, String, Compare, SurroundingSimilarity, CompareNodes+Sort, copy-out via DeepCopy/Filter/Flatten, Publish, queries) - is executed on the real code; at the end every derived view (NodesWithTag for every node and tag, Individuals, Families, NodeByPointer, per-individual Names/Events/Families/Spouses/Parents/Children/SpouseChildren, per-family Husband/Wife/Children/HasChild) must equal the same view on a fresh decode of the document's text, and a read-only operation must leave the text unchanged.",
   note="Histories are not deduplicated (a state is the history that reaches it); failing histories are not extended so the first counter-example is the shortest and later operations are not blamed. Signatures group (operation kind, view family). No random long histories."),
 "C14": dict(engine="E3", category="exploration", design_ref="§4 C14",
   technique="bounded-exhaustive enumeration of fault subsets (all subsets up to k of 29 structural faults) x every command configuration, executed on the built binary with a process-level crash/hang oracle",
   text="The gedcom binary built from the working tree is run on the base family graph perturbed by every subset of up to 2 (quick) / 3 (thorough) of 29 structural faults, each accepted by the decoder, under: warnings; publish x living {show,hide,placeholder} x page-group switch sets (8 quick / all 64 thorough) x jobs {1,2}; diff against itself and the clean base x show x sort x jobs; 20 queries x 5 formats. Every run must exit 0, or 1 with an ERROR: line, without 'panic:'/'fatal error:' on stderr, within a 20 s watchdog.",
   note="Crash signatures carry command kind, innermost repository frame, message class and the minimal reproducing fault subset; because map order and goroutine timing decide which page crashes first, a replay confirms a finding when the same command kind crashes again (>=1 of 5 replays). After a hang the remaining variants of that command kind are skipped for that file."),
 "C15": dict(engine="E3", category="exploration", design_ref="§4 C15",
   technique="bounded-exhaustive enumeration of query programs (all token sequences up to k over the token alphabet, all reflected accessor chains up to depth 3 x function suffixes, all single-token mutations of examples, all short byte strings) in crash-isolating worker subprocesses",
   text="Every sequence of up to 3 (quick) / 4 (thorough) tokens over a 36-token alphabet, every accessor chain up to length 3 over the methods and fields reflection exposes from *Document (computed at run time, so new methods are included) with 15 function suffixes, every single-token deletion/duplication/swap of 14 examples and every byte string up to 4 over 8 bytes, parsed and evaluated on four documents (singly and in pairs); every value is written by all five formatters. ParseString must return engine xor error, Evaluate value or error, Write nil or error; no recovered panic, no process death (stack overflow), no hang.",
   note="Workers announce each case before running it; a process death is attributed to the announced case and the unit resumes after it. Since fix dbd0690 panics inside Evaluate surface as errors, so expression-level reflection faults are now C16's business (wrong result / unexpected error), not C15's."),
 "C16": dict(engine="E3", category="translation_validation", design_ref="§4 C16",
   technique="bounded-exhaustive enumeration of all well-typed query programs up to pipeline depth d from a typed grammar, each executed by the real engine and by an independent reference interpreter over the Go API (differential), plus document-purity and determinism checks",
   text="Every well-typed program up to pipeline depth 3 (quick; reduced step alphabet from the third step) / 4 (thorough) over 34 accessors, First/Last(0..4), Length, NodesWithTagPath, Only (7 chains x 6 operators x numeric/text/mixed constants), object construction, variable forms and Combine, on 6 documents; the JSON-normalised engine result must equal the reference interpreter's (map in order, prefix/suffix, len, order-preserving filter with the documented comparison rule, concatenation, tag-path lookup, substitution); the document must look untouched afterwards; a second evaluation must give the same result.",
   note="Trusts the hand-written signature table and the reference interpreter in harness/cmd/c16. Missing values are judged by what the (nil-safe) Go API call gives; if that call panics nothing is demanded. null and an empty list are the same 'nothing'. One known finding (nil list through First/Last) is pinned by the repository's own tests."),
 "C17": dict(engine="E3", category="exploration", design_ref="§4 C17",
   technique="bounded-exhaustive enumeration of living-person roles (all single roles and all role pairs) x visibility x all 64 page-group subsets x jobs, with an exact marker search over every published file and a byte-level hide differential",
   text="A fixed cast of dead people plus one or two living people in every role (14 roles, all pairs), every personal string a unique marker token, published through the real Publisher into memory under hide/placeholder x all 64 page-group subsets x jobs {1,2}, also after the same document object was published with 'show': no file name, body or link target may contain a living marker; in hide mode a second document that differs only in the living people's data must publish byte-identically; dead people's pages must exist with their names; 'show' is the positive control for the search.",
   note="Two root causes are known findings (surname list and place pages ignore -living; 9 signatures). Pages that panic while rendering are counted so a masked leak is not reported clean. Quick tier runs role pairs on 4 of the 64 page-group subsets."),
 "C18": dict(engine="E3", category="exploration", design_ref="§4 C18",
   technique="exhaustive taint enumeration: every value position tainted alone / all together / none x every output surface, judged by a strict own HTML tokenizer with a context-sensitive escaping oracle",
   text="Each of 49 value positions of a document template (pointers, names and name parts, types, sex, event values, dates, places with form/map, notes, attributes, _UID, source title/properties at two depths, citation page) carries a unique token with < > \" ' & (also followed by a literal &nbsp;), alone and all together, over every page of a full publish under show/hide/placeholder, the diff report (3 show modes x tainted left/right/both), HTML query output for 11 queries and the warnings table; each page must tokenize strictly and nest properly and every token occurrence must be escaped inside text or a quoted attribute value, never in names, unquoted values, script/style, comments or breaking a handler's JavaScript string.",
   note="Trusts the tokenizer in harness/pub. The single tier is exhaustive over positions x surfaces (quick = thorough). Three sink findings fixed (core.Tag attributes, core.Anchor, core.TableHead)."),
 "C19": dict(engine="E1+E2+E4", category="model_checking", design_ref="§3.1, §3.4, §4 C19",
   technique="stateless model checking of the instrumented Publisher.Publish under the controlled scheduler (delay-bounded exhaustive schedules, race monitor), exhaustive enumeration of publish histories in fresh processes, exhaustive writer-fault enumeration (every k, also under every schedule within the bound), and exhaustive page-group x visibility enumeration for names and link closure",
   text="names: 4 documents incl. a hostile one (path-like source pointers, colliding person/place keys, odd surnames) x all 64 page-group subsets x 3 visibilities - plain unique names, every link resolves, DirectoryFileWriter stays inside its directory. schedules: the real Publish (instrumented at check time) on D1/D2 x jobs {1,2,3,(8,16)} x map order, every schedule with up to 2 (quick) / 3 (thorough) deviations - file set equals the sequential reference, vector-clock race monitor, termination. histories: every sequence of up to 3 publishes over {D1,D2,D4 (same pointers, other people),empty} in one process equals each document published alone in a fresh process. faults: writer failing at file k for every k x jobs {1,2,3,8}, on D1 also under every schedule within the bound - Publish returns an error and terminates.",
   note="A read-only overlay file adds html.VerifResetSurnames (guard: overlay only, nothing committed) so that every explored execution starts from a fresh-process state. Map iteration in instrumented packages is sorted/reverse-sorted under exploration. Known findings: cache races (shared with C11), links into disabled page groups, file-key collisions on the hostile document."),
 "C20": dict(engine="E3", category="exploration", design_ref="§4 C20",
   technique="bounded-exhaustive enumeration of skeleton family graphs x all slot assignments with up to k deviations from threshold lattices x all record/child permutations, against an independent reference evaluator of the documented warning conditions",
   text="Skeleton documents (two families sharing a parent with 0-3 children; a 5-record family) with each date/sex slot either at a no-warning default or at a value clearly on one side of a documented threshold; every assignment with up to 2 (quick) / 3 (thorough) deviating slots; all 120 record orders x both child orders of the small skeleton; the multiset of (warning name, people, context) from Document.Warnings() must equal the reference evaluator's.",
   note="Trusts ref/warn.go + ref/decode.go + ref/cal.go. Thresholds are approached no closer than 30 days (365.25-day-year approximation). Typed warning structs are the observation point for the people involved."),
}

# what the seeding rounds added to each check (appended to the text above; details in DESIGN.md Appendix D)
ADDED = {
 "C01": "Added: the empty forest and single nodes of every kind x BOM; every printable ASCII character (and a 2-byte rune) single and doubled at every position of values, tags and pointers; node-identity oracle (every position its own object).",
 "C02": "Added: single paths to depth 40 with a line at every level; every specialised line twice in one record with different substructure; lower/mixed-case tags and percent values among the 42 line deviations; node-identity oracle.",
 "C03": "Added: the file entry point NewDocumentFromGEDCOMFile on every sequence of <=2 adversarial lines; ten thousand distinct non-standard tags in one process; level numbers at every machine-integer boundary (2^8..2^64, zero padded); a case that does not return is reported by the runner's watchdog (hang).",
 "C04": "Added: runs of 9 and 17 spaces; every upper/lower-case pattern of every documented word in 2-5 sentence frames.",
 "C05": "Added: ranges built by the public constructor from plain Date literals and with swapped range-end flags.",
 "C06": "Added: parsed operands with Bef./Aft./Abt. words (the relation is one of intervals); February 1900 at every granularity (thorough: ten 64-day windows).",
 "C07": "Added: every multiset of 2-3 siblings from a pool of 50 subtrees built around each specialised Equals rule (gen.EqualityClassPool) x every re-ordering at sibling level and one level down, with both arguments compared before/after every DeepEqual; nodes built through the API with padded values through every copy path.",
 "C08": "Added: trees built through the API over one shared child array with spare capacity; the equality-class pool (re-orderings and pairs, with operation orders).",
 "C09": "Added: the equality-class pool (merges and self-merges); merge functions that decline with a typed nil.",
 "C10": "Now 7 base graphs (incl. exact dates throughout, unique identifiers) with HEAD/TRLR, 16 edits (incl. a family event with spouse ages), a record carrying two people's identifiers; the query function used a second time (after an in-place edit, and the same compiled query on other document objects) must account for the added individual; plain leaf facts must be in the merged individual as written.",
 "C11": "Now 18 scenarios (incl. lists that are only a part of their documents, identifier and pointer pointing at different partners, two candidates with scores in one percent bucket); in-place appends are monitored as writes. Added: the real `gedcom diff` binary on 3 document pairs x 4x5x5 threshold flags (incl. 0 and 1) x jobs {1,2}, pairs parsed from the report's index table and compared with the library call under the options the flags document.",
 "C12": "Added: strings of 31..130 bytes; objects compared again with other options must score what fresh objects score; 105-individual universe (two and three names in both orders); an operand compared with itself must score what it scores against an equal separately decoded copy; weights that differ from each other in the weighted surrounding similarity.",
 "C13": "Now 5 initial documents (one with a living spouse), 47 operation instances (incl. a record without a pointer) (incl. SetNodes on a childless node, a second record with an existing pointer, publishing in all three visibilities, filter queries); live views are read before anything else is decoded; deep equality with the freshly decoded twin is one of the views.",
 "C14": "Now 37 faults (incl. a second name without surname, nameless spouses, a bad date in the header) (incl. empty DATE, a husband without dates, a cycle that is the only child, a second family with a dangling partner); files that need decoder options x the diff command's decoder flags.",
 "C15": "Added: results with more than 1000 / 2500 entries; a couple without names; variables in every syntactic position (function arguments, conditions incl. both sides of a comparison, object values) in pipelines of <=2 steps with one or two definitions; a document whose lists consist of nil elements only; hangs are reported by the watchdog.",
 "C16": "Added: programs that mention Document1, constants with backslashes, user-defined tags in tag paths; comparison table (46 constants incl. signed, leading dot/zero/plus, exponent, padded x 36 operand values x 6 operators); variables evaluated per item (Only conditions, object fields) and one parsed engine evaluated on every ordered pair/triple of documents.",
 "C17": "Now 17 roles (incl. a death record removed through the API between two publishings), the real `gedcom publish` binary on 3 role sets x 7 spellings of -living (incl. none and refused ones) x 7 page-group sets; 16 roles (incl. living namesake sorting first, wife of a dead man with a dead child), marriages with dates; completeness differential: what a dead person's page and the individual lists say with show they also say with hide/placeholder.",
 "C18": "Added: an individual without NAME (pointer tainted); token shapes with a leading special character and with literal entities after the token; map-valued query results.",
 "C19": "Added: the real `gedcom publish` binary on 3 documents x 3 visibilities x 8 page-group sets (names and closure of what is on disk); histories with one options value for all publishings; hostile places and names (document D5), first/last index letters and same-year events at one place (D6); every document re-published by the real DirectoryFileWriter over a directory that already holds another site.",
 "C20": "Added: three mutually close siblings; unparsable birth dates of children.",
}

NOT_APPLICABLE = []

def main():
    props = [json.loads(l)["id"] for l in open(os.path.join(V, "properties.jsonl"))]
    checks = []
    for pid in props:
        c = CHECKS.get(pid)
        if not c:
            continue
        checks.append({
            "property_id": pid,
            "quick_cmd": f"bin/vcheck run {pid} --tier quick",
            "thorough_cmd": f"bin/vcheck run {pid} --tier thorough",
            "evidence_file": f"/verif/evidence/{pid}.json",
            "replay_cmd_template": f"bin/vcheck replay {pid} {{path}}",
            "engine": c["engine"],
            "level_claimed": {"category": c["category"], "text": c["text"] + (" " + ADDED[pid] if pid in ADDED else ""), "design_ref": c["design_ref"]},
            "level_note": c["note"],
            "technique": c["technique"],
        })
    na = list(NOT_APPLICABLE)
    claimed = {c["property_id"] for c in checks}
    listed = {n["property_id"] for n in na}
    for pid in props:
        if pid not in claimed and pid not in listed:
            na.append({"property_id": pid, "reason": "check not built yet in this revision (work in progress; see DESIGN.md §4 for the planned bounded-exhaustive check)"})
    fixes = subprocess.run(["git", "-C", "/repo", "log", "--format=%h %s"], capture_output=True, text=True).stdout.splitlines()
    m = {
        "version": 1,
        "setup_cmd": "bin/vcheck setup",
        "hooks": {
            "guard": "verif",
            "enable": "instrumentation is generated at check time by tools/vinstr into a scratch directory and applied with `go build -tags verif -overlay <generated>`; nothing guarded is committed to /repo",
            "baseline_off_cmd": "cd /repo && GOFLAGS=-mod=mod GOPROXY=off GOSUMDB=off go test -json -vet=off -count=1 -timeout 25m ./...",
            "source_commits": [],
            "add_only": True,
        },
        "engines": [
            {"name": "E1", "path": "engine/vsched + tools/vinstr", "serves_properties": ["C11", "C19"], "kind_free_text": "cooperative scheduler + delay-bounded stateless DFS over schedules of the real code (AST-rewritten overlay), vector-clock race monitor"},
            {"name": "E2", "path": "harness/cmd/c13", "serves_properties": ["C13"], "kind_free_text": "explicit-state BFS over API operation histories on the real Document, successor = replay on fresh instance"},
            {"name": "E3", "path": "harness/vlib + harness/cmd/*", "serves_properties": [p for p in props if p not in ("C11", "C13", "C19")], "kind_free_text": "bounded-exhaustive input enumeration against reference models / laws, sharded over worker processes"},
            {"name": "E4", "path": "harness/cmd/c19", "serves_properties": ["C19"], "kind_free_text": "fault enumeration: FileWriter failing at every k"},
        ],
        "checks": checks,
        "not_applicable": na,
        "notes": "fix: commits in /repo: " + "; ".join(f for f in fixes if " fix:" in f),
    }
    json.dump(m, open(os.path.join(V, "MANIFEST.json"), "w"), indent=1)
    print("checks:", len(checks), "not_applicable:", len(na))

main()
