#!/usr/bin/env python3
"""mksweep.py — write seeded/SWEEP.md from the raw outputs of tools/parsweep.sh kept in seeded/.sweep/.

Files (each line: seed|check|exit|exhaustive=..|signatures), in the order they were produced; a later file
replaces an earlier row for the same (seed, check):
  1-main.out     all seeds, own check (+ the neighbouring checks known from rounds 1-3), /repo cca9574
  2-second.out   neighbouring checks for the seeds their own check does not detect; seeds touching html/publish.go on afec69b
  3-final.out    every seed of a property whose check changed after 1-main (round 5 additions), /repo afec69b
  4-*.out        later targeted runs
  5-round6.out   the 40 changes of round 6 against the final checks, /repo e0e1cd9
  6-round7.out   the 8 changes of round 7, own check, /repo e0e1cd9 (C18-1 after the addition it caused)
"""
import glob, os, re, subprocess, collections

V = "/verif"
REMARK = {
    ("C10-wt-c10-1", "C10"): "neutralised by fix 0a923b9 (a right individual can no longer be matched twice): the change no longer breaks the property on the repaired tree; its own demonstration passes with it",
    ("C19-wt4-c19-2", "C19"): "the change makes the site depend on Go's map order, so which cases fail differs from run to run; since `MinReproFor` one confirmed replay is enough for these signatures",
    ("C10-wt6-c10-3", "C10"): "not detected: see RESULTS5.md, row C10-3",
    ("C10-wt6-c10-3", "C09"): "not detected: see RESULTS5.md, row C10-3",
    ("C15-wt7-c15-2", "C15"): "not detected: needs two goroutines evaluating queries; C15 quantifies over programs and inputs (RESULTS6.md, row C15-2)",
    ("C06-wt7-c06-1", "C06"): "a data race under a sequential property: reported by the race monitor of C11 and C19 (rows below)",
    ("C12-wt7-c12-1", "C12"): "a data race under a sequential property: reported by the race monitor of C11 and C19 (rows below)",
}


def main():
    rows = collections.OrderedDict()
    src = {}
    files = sorted(glob.glob(V + "/seeded/.sweep/*.out"))
    for f in files:
        for l in open(f):
            p = l.rstrip("\n").split("|")
            if len(p) < 5:
                continue
            key = (p[0], p[1])
            rows[key] = p
            src[key] = os.path.basename(f)
    seeds = sorted({k[0] for k in rows})
    detected = {s: any(rows[k][2] == "1" for k in rows if k[0] == s) for s in seeds}
    out = []
    out.append("# Sweep of all %d seeded changes (rounds 1-7) against the final checks\n" % len(seeds))
    out.append("Run by `tools/parsweep.sh` on copies of the repository and of /verif, three or four changes at a time, quick tier; "
               "ported patches where the original no longer applies to the repaired tree. Exit 1 = VIOLATION reported; `exhaustive=false` "
               "means a unit was cut short (a hang watchdog or a worker death attributed to a case - both are findings). The raw outputs are in "
               "`seeded/.sweep/` (see `tools/mksweep.py` for which run produced what; the `run` column names the file). A seed has one row per "
               "check that was run against it: its own property's check and, where that one does not report it, the neighbouring check that does.\n")
    out.append("| seed | check | exit | exhaustive | first signatures | run | remark |")
    out.append("|---|---|---|---|---|---|---|")
    nrows = nviol = 0
    for (seed, chk), p in sorted(rows.items()):
        sig = p[4]
        sig = re.sub(r"\s*cases with this\s*(\d+);", r" x\1;", sig)[:260].replace("|", "/")
        rem = REMARK.get((seed, chk), "")
        if p[2] != "1" and not rem and detected[seed]:
            other = [k[1] for k in rows if k[0] == seed and rows[k][2] == "1"]
            rem = "caught by " + ", ".join(other)
        out.append("| %s | %s | %s | %s | %s | %s | %s |" % (seed, chk, p[2], p[3].replace("exhaustive=", ""), sig, src[(seed, chk)].split(".")[0], rem))
        nrows += 1
        nviol += p[2] == "1"
    missed = [s for s in seeds if not detected[s]]
    out.append("")
    out.append("%d rows, %d with a violation; %d of %d changes are detected by at least one check. Not detected: %s." % (
        nrows, nviol, len(seeds) - len(missed), len(seeds), ", ".join(missed) if missed else "none"))
    open(V + "/seeded/SWEEP.md", "w").write("\n".join(out) + "\n")
    print(out[-1])


main()
