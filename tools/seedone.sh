#!/bin/bash
# seedone.sh <patch.diff> <check id> [<check id> ...]
# Runs the quick checks named against a private copy of the repository with the patch applied, using a private
# copy of /verif as it is now (working tree). /repo and /verif/evidence are not touched. Prints one line per check.
set -u
export GOFLAGS=-mod=mod GOPROXY=off GOSUMDB=off GOTOOLCHAIN=local
P="$1"; shift
D=$(mktemp -d /dev/shm/seedone.XXXXXX)
git -C /repo worktree add -q --detach "$D/repo" HEAD
mkdir -p "$D/verif"
(cd /verif && tar cf - --exclude=.build --exclude=replays --exclude=.git --exclude=seeded .) | (cd "$D/verif" && tar xf -)
sed -i "s#=> /repo#=> $D/repo#" "$D/verif/harness/go.mod"
if [ "$P" != "-" ] && ! git -C "$D/repo" apply "$P"; then echo "$P does not apply"; else
for c in "$@"; do
  (cd "$D/verif" && VERIF_DIR="$D/verif" VERIF_REPO="$D/repo" timeout 2400 bin/vcheck run "$c" --tier quick --jobs "${PAR_JOBS:-6}" > "$D/out.txt" 2>&1); rc=$?
  sig=$(grep -v '^KNOWN' "$D/out.txt" | grep 'signature:' | sed 's/ *signature: //' | head -4 | tr '\n' ';')
  echo "$(basename $(dirname $P))|$c|exit=$rc|$(grep -o 'exhaustive=[a-z]*' "$D/out.txt" | tail -1)|$(grep -o 'wall=[0-9.]*s' "$D/out.txt" | tail -1)|$sig$(grep -m1 INTERNAL "$D/out.txt" | cut -c1-200)"
done; fi
git -C /repo worktree remove --force "$D/repo"; git -C /repo worktree prune
rm -rf "$D"
