#!/bin/bash
# seedcheck.sh <worktree> <n> <property-id> [demo-package-dir]
# Confirms a seeded change (compiles, existing suite passes, demo fails with / passes without),
# stores it under /verif/seeded/<id>-<n>/ and runs the property's quick check against /repo with
# the change applied (undone straight afterwards).
set -u
export GOFLAGS=-mod=mod GOPROXY=off GOSUMDB=off GOTOOLCHAIN=local
WT="$1"; N="$2"; ID="$3"; PKG="${4:-.}"
S="$WT/SEED/$N"
[ -d "$S" ] || S="$WT/_SEED/$N"
[ -f "$S/patch.diff" ] || { echo "no patch in $S"; exit 2; }
TMP=$(mktemp -d /dev/shm/seedcheck.XXXX)
cp -r "$S" "$TMP/seed"
mv "$WT/SEED" "$TMP/SEED.bak" 2>/dev/null; mv "$WT/_SEED" "$TMP/_SEED.bak" 2>/dev/null
cd "$WT" && git checkout -q -- . && git clean -fdq
res() { echo "$1"; echo "$1" >> "$TMP/log"; }
# demo without patch
cp "$TMP/seed/demo_test.go" "$WT/$PKG/zz_seed_demo_test.go"
(cd "$WT/$PKG" && go test -count=1 -run . . >"$TMP/demo_without.txt" 2>&1); W=$?
res "demo without patch: exit $W (want 0)"
rm -f "$WT/$PKG/zz_seed_demo_test.go"
git apply "$TMP/seed/patch.diff" || { res "patch does not apply"; }
go build ./... >"$TMP/build.txt" 2>&1; B=$?
res "build with patch: exit $B (want 0)"
go test -count=1 ./... >"$TMP/suite.txt" 2>&1; T=$?
res "existing suite with patch: exit $T (want 0)"
cp "$TMP/seed/demo_test.go" "$WT/$PKG/zz_seed_demo_test.go"
(cd "$WT/$PKG" && go test -count=1 . >"$TMP/demo_with.txt" 2>&1); D=$?
res "demo with patch: exit $D (want non-zero)"
rm -f "$WT/$PKG/zz_seed_demo_test.go"
git checkout -q -- . && git clean -fdq
mv "$TMP/SEED.bak" "$WT/SEED" 2>/dev/null; mv "$TMP/_SEED.bak" "$WT/_SEED" 2>/dev/null
OK=0; [ $W -eq 0 ] && [ $B -eq 0 ] && [ $T -eq 0 ] && [ $D -ne 0 ] && OK=1
res "confirmed=$OK"
# run the check against /repo with the patch applied
cd /repo && git status --short | grep -v '^??' | grep . && { echo "/repo not clean"; exit 2; }
git -C /repo apply "$TMP/seed/patch.diff" || res "PATCH DOES NOT APPLY TO CURRENT /repo (port it)"
(cd /verif && timeout 1500 bin/vcheck run "$ID" --tier quick > "$TMP/check.txt" 2>&1); C=$?
git -C /repo checkout -- .
res "check $ID quick with patch: exit $C (1 = detected)"
grep -m3 "signature:" "$TMP/check.txt" | sed 's/^/   /' | tee -a "$TMP/log"
DEST="/verif/seeded/$ID-$(basename $WT)-$N"
mkdir -p "$DEST"
cp "$TMP/seed/patch.diff" "$TMP/seed/demo_test.go" "$TMP/seed/notes.md" "$DEST/" 2>/dev/null
python3 - "$DEST" "$ID" "$OK" "$C" "$PKG" "$TMP" <<'PY'
import json,sys,re
dest,pid,ok,c,pkg,tmp=sys.argv[1:]
log=open(tmp+'/log').read()
sigs=re.findall(r'signature: (.*)',open(tmp+'/check.txt').read())
notes=open(dest+'/notes.md').read() if True else ''
json.dump({"property":pid,"confirmed":ok=="1","demo_package_dir":pkg,"needs_to_manifest":"see notes.md",
 "what_was_run":log.splitlines(),"detected_by_quick_check":c=="1","signatures":sigs[:5]},open(dest+'/meta.json','w'),indent=1)
PY
rm -rf "$TMP"
