#!/bin/bash
# parsweep.sh <workers> <list-file> <out-file>
# Runs quick checks against changed copies of the repository in parallel WITHOUT touching /repo or /verif:
# every worker gets its own copy of /repo (at HEAD) and of /verif (harness with the replace directive
# pointing at that copy) under /dev/shm/parsweep.<pid>/<k>/ and processes every <workers>-th line of the list.
# List lines:  <label> <patch file> <check id> [<check id> ...]
# Output lines: <label>|<check>|<exit>|exhaustive=<bool>|<first signatures>
# The copies are removed at the end. Results are for reading only: evidence is never written to /verif.
set -u
export GOFLAGS=-mod=mod GOPROXY=off GOSUMDB=off GOTOOLCHAIN=local
W="$1"; LIST="$2"; OUT="$3"
ROOT=/dev/shm/parsweep.$$
mkdir -p "$ROOT"; : > "$OUT"
worker() {
  local k="$1" D="$ROOT/$1"
  mkdir -p "$D"
  git -C /repo worktree add -q --detach "$D/repo" HEAD
  mkdir -p "$D/verif"
  (cd /verif && tar cf - --exclude=.build --exclude=replays --exclude=.git --exclude=seeded .) | (cd "$D/verif" && tar xf -)
  sed -i "s#=> /repo#=> $D/repo#" "$D/verif/harness/go.mod"
  local n=0
  while read -r label patch checks; do
    n=$((n+1)); [ $(( (n-1) % W )) -eq "$k" ] || continue
    [ -z "$label" ] && continue
    if ! git -C "$D/repo" apply "$patch" 2>/dev/null; then echo "$label|-|does-not-apply|" >> "$OUT"; continue; fi
    for c in $checks; do
      (cd "$D/verif" && VERIF_DIR="$D/verif" VERIF_REPO="$D/repo" timeout 2400 bin/vcheck run "$c" --tier quick --jobs "${PAR_JOBS:-6}" > "$D/out.txt" 2>&1); rc=$?
      sig=$(grep -v '^KNOWN' "$D/out.txt" | grep -m3 'signature:' | sed 's/ *signature: //' | tr '\n' ';' | tr '|' '/')
      int=$(grep -m1 -A2 "INTERNAL" "$D/out.txt" | tr "\n" " " | cut -c1-1500 | tr '|' '/')
      ex=$(grep -o -m1 'exhaustive=[a-z]*' "$D/out.txt" | head -1)
      echo "$label|$c|$rc|$ex|$sig$int" >> "$OUT"
    done
    git -C "$D/repo" checkout -q -- . ; git -C "$D/repo" clean -fdq
  done < "$LIST"
  git -C /repo worktree remove --force "$D/repo"
}
for k in $(seq 0 $((W-1))); do worker $k & done
wait
git -C /repo worktree prune
rm -rf "$ROOT"
sort -o "$OUT" "$OUT"
echo "parsweep done: $(wc -l < "$OUT") results"
