#!/bin/bash
# seedsweep.sh — re-run the quick check of every seeded change against /repo with the change applied
# (ported patch where the original no longer applies), undo it, and write /verif/seeded/SWEEP.md.
# Needs a clean /repo; do not touch /repo while it runs.
set -u
cd /verif/seeded
git -C /repo status --short | grep -v '^??' | grep -q . && { echo "/repo not clean"; exit 2; }
declare -A ALSO=( ["C09-wt-c09-2"]="C07" ["C15-wt-c15-2"]="C16" ["C10-wt-c10-2"]="C09" ["C02-wt2-c02-2"]="C01" ["C07-wt2-c07-1"]="C13" ["C08-wt2-c08-1"]="C07" ["C13-wt2-c13-2"]="C16" ["C09-wt2-c09-2"]="C07" )
OUT=/verif/seeded/SWEEP.md
echo "# Sweep of all seeded changes against the final checks ($(date -u +%FT%TZ), /repo $(git -C /repo log --format=%h -1), /verif $(git -C /verif log --format=%h -1))" > $OUT
echo >> $OUT; echo "| seed | patch | check | exit (1 = VIOLATION) | first signatures |" >> $OUT; echo "|---|---|---|---|---|" >> $OUT
for d in */; do
  d=${d%/}; [ -f "$d/patch.diff" ] || continue
  prop=${d%%-*}
  patch="$d/patch.diff"; [ -f "$d/patch-ported-to-fixed-tree.diff" ] && patch="$d/patch-ported-to-fixed-tree.diff"
  if ! git -C /repo apply --check "/verif/seeded/$patch" 2>/dev/null; then
    echo "| $d | $(basename $patch) | - | does not apply | |" >> $OUT; continue
  fi
  git -C /repo apply "/verif/seeded/$patch"
  for chk in $prop ${ALSO[$d]:-}; do
    (cd /verif && timeout 1800 bin/vcheck run $chk --tier quick > /dev/shm/sweep.out 2>&1); rc=$?
    sigs=$(grep -v "^KNOWN" /dev/shm/sweep.out | grep -m2 "signature:" | sed 's/ *signature: //' | tr '\n' ';' | tr '|' '/')
    echo "| $d | $(basename $patch) | $chk | $rc | $sigs |" >> $OUT
  done
  git -C /repo checkout -- .
done
rm -f /dev/shm/sweep.out
echo done
