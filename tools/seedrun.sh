#!/bin/bash
# seedrun.sh <seed-dir-name under /verif/seeded> <ID> [<ID>...]
# Applies the stored change to /repo, runs the quick checks named, undoes the change.
set -u
D=/verif/seeded/$1; shift
P=$D/patch.diff; [ -f $D/patch-ported-to-fixed-tree.diff ] && P=$D/patch-ported-to-fixed-tree.diff
cd /repo && git status --short | grep -v '^??' | grep . && { echo "/repo not clean"; exit 2; }
git -C /repo apply $P || { echo "PATCH DOES NOT APPLY"; exit 2; }
for ID in "$@"; do
  (cd /verif && timeout 1800 bin/vcheck run $ID --tier ${TIER:-quick} 2>&1 | grep -E 'VIOLATION|signature:|INTERNAL|tier=' | cut -c1-220 | head -${LINES_MAX:-8})
done
git -C /repo checkout -- .
